//! C33 — wrapping a program in a loop repeats its body exactly n times.
//! Input: the program (projected), the counter reference, the start target, n.
//! Output: the projection of `Program::wrap_in_loop`'s result (through `to_instructions()`).
use quil_rs::instruction::{
    Arithmetic, ArithmeticOperand, ArithmeticOperator, DefaultHandler, ExternSignatureMap, Instruction,
    InstructionHandler, Jump, JumpUnless, JumpWhen, Label, MemoryReference, Move, Target, TargetPlaceholder,
};
use quil_rs::quil::Quil;
use quil_rs::Program;
use qvh::progs::{parse_all, target_id, text_of, Pools};
use qvh::*;
use std::collections::HashMap;

/// Placeholder identities numbered by first occurrence.
#[derive(Default)]
struct Names {
    // keyed by the harness's own identity (Arc pointer bits), not by the type's ==/Hash
    targets: HashMap<usize, u64>,
}

impl Names {
    fn target(&mut self, t: &Target) -> Sexp {
        match t {
            Target::Fixed(s) => tagged("fixed", vec![st(s.clone())]),
            Target::Placeholder(p) => {
                let n = self.targets.len() as u64;
                let k = *self.targets.entry(target_id(p)).or_insert(n);
                tagged("ph", vec![nat(k)])
            }
        }
    }
}

fn regions_of(i: &Instruction) -> Vec<String> {
    match DefaultHandler.memory_accesses(&ExternSignatureMap::default(), i) {
        Ok(a) => {
            let mut v: Vec<String> = a.reads.into_iter().chain(a.writes).chain(a.captures).collect();
            v.sort();
            v.dedup();
            v
        }
        Err(_) => vec!["?".to_string()],
    }
}

fn project_body(names: &mut Names, i: &Instruction) -> Sexp {
    match i {
        Instruction::Move(Move { destination, source: ArithmeticOperand::LiteralInteger(v) }) => {
            tagged("move", vec![st(destination.name.clone()), nat(destination.index), int(*v)])
        }
        Instruction::Arithmetic(Arithmetic {
            operator: ArithmeticOperator::Subtract,
            destination,
            source: ArithmeticOperand::LiteralInteger(v),
        }) => tagged("sub", vec![st(destination.name.clone()), nat(destination.index), int(*v)]),
        Instruction::Label(Label { target }) => tagged("label", vec![names.target(target)]),
        Instruction::Jump(Jump { target }) => tagged("jump", vec![names.target(target)]),
        Instruction::JumpWhen(JumpWhen { target, condition }) => {
            tagged("jumpWhen", vec![names.target(target), st(condition.name.clone()), nat(condition.index)])
        }
        Instruction::JumpUnless(JumpUnless { target, condition }) => {
            tagged("jumpUnless", vec![names.target(target), st(condition.name.clone()), nat(condition.index)])
        }
        Instruction::Halt() => tagged("halt", vec![]),
        other => tagged("other", vec![st(text_of(other)), list(regions_of(other).into_iter().map(st).collect())]),
    }
}

/// `(prog (regions …) (defs …) (body …))` observed through `to_instructions()`; frames (a HashMap in
/// FrameSet) are sorted by text.
fn project_program(names: &mut Names, p: &Program) -> Sexp {
    let n_body = p.body_instructions().count();
    let all = p.to_instructions();
    let (defs, body) = all.split_at(all.len() - n_body);
    let mut regions = vec![atom("regions")];
    let mut frames = vec![];
    let mut pre = vec![];
    let mut post = vec![];
    for d in defs {
        match d {
            Instruction::Declaration(decl) => regions.push(tagged(
                "r",
                vec![
                    st(decl.name.clone()),
                    st(decl.size.data_type.to_quil_or_debug()),
                    nat(decl.size.length),
                    match &decl.sharing {
                        None => tagged("none", vec![]),
                        Some(s) => tagged("some", vec![st(format!("{s:?}"))]),
                    },
                ],
            )),
            Instruction::FrameDefinition(_) => frames.push(text_of(d)),
            _ if frames.is_empty() => pre.push(text_of(d)),
            _ => post.push(text_of(d)),
        }
    }
    frames.sort();
    // order of to_instructions(): extern pragmas, regions, frames, waveforms, calibrations, gates, circuits
    let mut ds = vec![atom("defs")];
    ds.extend(pre.into_iter().chain(frames).chain(post).map(st));
    let mut b = vec![atom("body")];
    b.extend(body.iter().map(|i| project_body(names, i)));
    tagged("prog", vec![list(regions), list(ds), list(b)])
}

fn sorted_qubits<'a>(qs: impl Iterator<Item = &'a quil_rs::instruction::Qubit>) -> Vec<Sexp> {
    let mut v: Vec<String> = qs.map(|q| q.to_quil_or_debug()).collect();
    v.sort();
    v.dedup();
    v.into_iter().map(st).collect()
}

fn wrap_case(ctx: &mut Ctx, p: &Program, counter: &MemoryReference, target: &Target, n: u32) {
    let mut names = Names::default();
    let t = names.target(target);
    let input = tagged(
        "wrap",
        vec![
            project_program(&mut names, p),
            tagged("ref", vec![st(counter.name.clone()), nat(counter.index)]),
            t,
            nat(n as u64),
            // the used-qubit cache of the input and the qubits of its body instructions (what add_instruction adds)
            tagged("usedin", sorted_qubits(p.get_used_qubits().iter())),
            tagged("bodyq", sorted_qubits(p.body_instructions().flat_map(|i| i.get_qubits()))),
        ],
    );
    ctx.case(input, || {
        let looped = p.wrap_in_loop(counter.clone(), target.clone(), n);
        let listing = looped.to_instructions();
        tagged(
            "result",
            vec![
                project_program(&mut names, &looped),
                tagged("used", sorted_qubits(looped.get_used_qubits().iter())),
                tagged("listq", sorted_qubits(listing.iter().flat_map(|i| i.get_qubits()))),
            ],
        )
    });
}

fn program_of(defs: &[Instruction], body: &[Instruction]) -> Program {
    let mut p = Program::new();
    p.add_instructions(defs.iter().cloned());
    p.add_instructions(body.iter().cloned());
    p
}

fn mref(name: &str, index: u64) -> MemoryReference {
    MemoryReference { name: name.to_string(), index }
}

fn fixed(s: &str) -> Target {
    Target::Fixed(s.to_string())
}

fn placeholder(s: &str) -> Target {
    Target::Placeholder(TargetPlaceholder::new(s.to_string()))
}

/// A random body with structured control flow: forward jumps over a few instructions, conditional
/// forward jumps on a flag the body itself sets, and small counted inner loops.
fn random_structured_body(pools: &Pools, rng: &mut Rng, max_blocks: u64, fresh: &mut u64) -> Vec<Instruction> {
    let mut out = vec![];
    let blocks = rng.below(max_blocks + 1);
    for _ in 0..blocks {
        let mut lab = |rng: &mut Rng| {
            *fresh += 1;
            if rng.chance(1, 3) {
                placeholder(&format!("p{fresh}"))
            } else {
                fixed(&format!("L{fresh}"))
            }
        };
        match rng.below(6) {
            0 | 1 => out.extend(pools.random_body(rng, 3)),
            2 => {
                // unconditional forward jump over a block
                let l = lab(rng);
                out.push(Instruction::Jump(Jump { target: l.clone() }));
                out.extend(pools.random_body(rng, 2));
                out.push(Instruction::Label(Label { target: l }));
            }
            3 => {
                // conditional forward jump on a flag set just before
                let l = lab(rng);
                let v = rng.below(2) as i64;
                out.push(Instruction::Move(Move {
                    destination: mref("flag", 0),
                    source: ArithmeticOperand::LiteralInteger(v),
                }));
                if rng.chance(1, 2) {
                    out.push(Instruction::JumpWhen(JumpWhen { target: l.clone(), condition: mref("flag", 0) }));
                } else {
                    out.push(Instruction::JumpUnless(JumpUnless { target: l.clone(), condition: mref("flag", 0) }));
                }
                out.extend(pools.random_body(rng, 2));
                out.push(Instruction::Label(Label { target: l }));
            }
            4 => {
                // counted inner loop on its own counter
                let l = lab(rng);
                let k = 1 + rng.below(3) as i64;
                out.push(Instruction::Move(Move {
                    destination: mref("inner", 1),
                    source: ArithmeticOperand::LiteralInteger(k),
                }));
                out.push(Instruction::Label(Label { target: l.clone() }));
                out.extend(pools.random_body(rng, 2));
                out.push(Instruction::Arithmetic(Arithmetic {
                    operator: ArithmeticOperator::Subtract,
                    destination: mref("inner", 1),
                    source: ArithmeticOperand::LiteralInteger(1),
                }));
                out.push(Instruction::JumpWhen(JumpWhen { target: l, condition: mref("inner", 1) }));
            }
            _ => {
                // a label nobody jumps to
                let l = lab(rng);
                out.push(Instruction::Label(Label { target: l }));
            }
        }
    }
    out
}

fn main() {
    main_with(run)
}

fn run(ctx: &mut Ctx) {
    let pools = Pools::new();
    let quick = ctx.quick();

    // 1. corpus: hand-written witnesses
    let corpus: &[(&str, &str, u64, u32)] = &[
        // (program text, counter region, counter index, n) — the snapshot test of the crate, n = 10
        ("DECLARE ro BIT\nDECLARE shot_count INTEGER\nMEASURE q ro\nJUMP-UNLESS @end-reset ro\nX q\nLABEL @end-reset\n\nDEFCAL I 0:\n\tDELAY 0 1.0\nDEFFRAME 0 \"rx\":\n\tHARDWARE-OBJECT: \"hardware\"\nDEFWAVEFORM custom:\n\t1,2\nI 0\n", "shot_count", 0, 10),
        ("X 0\nY 1", "cnt", 0, 2),
        ("", "cnt", 0, 3),
        ("DECLARE cnt REAL[4]\nX 0", "cnt", 0, 2),   // counter region already declared: overwritten in place
        ("DECLARE a BIT\nDECLARE cnt BIT[2]\nDECLARE z BIT\nX 0", "cnt", 0, 5),
        ("X 0", "cnt", 1, 2),                           // non-zero index (diverged before /repo 0cfdaad)
        ("ADD cnt[0] 1\nX 0", "cnt", 0, 3),             // body touches the counter
        ("HALT", "cnt", 0, 2),
        ("LABEL @loop\nX 0", "cnt", 0, 2),              // body already uses the start label (see target below)
        ("JUMP @loop", "cnt", 0, 2),
        ("PRAGMA EXTERN foo \"INTEGER (x : INTEGER)\"\nX 0", "cnt", 0, 4),
        // calibrations-only programs: Program::is_empty() is true for them (len() does not count calibrations)
        ("DEFCAL X 0:\n\tNOP", "cnt", 0, 3),
        ("DEFCAL MEASURE 0 addr:\n\tNOP", "cnt", 0, 2),
        ("DEFCAL X 0:\n\tNOP\nDEFCAL MEASURE 1:\n\tFENCE 1\nDEFCAL CZ 0 1:\n\tFENCE 0 1", "cnt", 0, 5),
        ("DEFCAL X 0:\n\tNOP\nX 0", "cnt", 0, 2),
        ("PRAGMA EXTERN \"OCTET\"", "cnt", 0, 2),
        // boundary iteration counts and reference indices
        ("X 0", "cnt", 0, u32::MAX),
        ("X 0", "cnt", 0, 1 << 31),
        ("X 0", "cnt", 0, (1 << 31) - 1),
        ("X 0\nY 1", "cnt", 0, 65536),
        ("X 0", "cnt", u64::MAX, 2),
        ("X 0", "cnt", 2, 3),
        ("DECLARE cnt INTEGER[4]\nX 0", "cnt", 3, 3),
        // counter named like a region declared with SHARING / like a waveform / mixed case
        ("DECLARE theta REAL[2]\nDECLARE cnt BIT[8] SHARING theta OFFSET 1 REAL\nX 0", "cnt", 0, 2),
        ("DEFWAVEFORM cnt:\n\t1, 2\nX 0", "cnt", 0, 2),
        ("DECLARE Cnt INTEGER\nDECLARE CNT INTEGER\nX 0", "cnt", 0, 2),
        // calibrations holding qubits that the body does not use (the used-qubit cache after wrapping: C10)
        ("DEFCAL X 5:\n\tNOP\nX 0", "cnt", 0, 3),
    ];
    for (text, name, idx, n) in corpus {
        let body_and_defs = parse_all(text);
        let mut p = Program::new();
        p.add_instructions(body_and_defs);
        for n in [0u32, 1, *n] {
            wrap_case(ctx, &p, &mref(name, *idx), &fixed("loop"), n);
            wrap_case(ctx, &p, &mref(name, *idx), &placeholder("loop"), n);
        }
        wrap_case(ctx, &p, &mref(name, *idx), &placeholder(""), *n);
    }

    // 1b. a long body (more than 64 instructions)
    {
        let text: String = (0..200).map(|i| format!("X {}\nMEASURE {} ro[0]\n", i % 7, i % 5)).collect();
        let mut p = Program::new();
        p.add_instructions(parse_all(&format!("DECLARE ro BIT\n{text}")));
        for n in [0u32, 1, 2, 3] {
            wrap_case(ctx, &p, &mref("cnt", 0), &placeholder("loop"), n);
        }
    }
    // 1c. wrapping twice (nested loops): the input of the second call is the output of the first
    for (text, _, _, _) in corpus.iter().take(4) {
        let mut p = Program::new();
        p.add_instructions(parse_all(text));
        for (n1, n2) in [(2u32, 2u32), (3, 2), (2, 3), (1, 3), (3, 0), (0, 3)] {
            let t1 = placeholder("inner");
            let inner = p.wrap_in_loop(mref("c1", 0), t1.clone(), n1);
            wrap_case(ctx, &inner, &mref("c2", 0), &placeholder("outer"), n2);
            wrap_case(ctx, &inner, &mref("c2", 0), &fixed("outer"), n2);
            // same counter / same start label as the inner loop: outside the premise, model must still agree
            wrap_case(ctx, &inner, &mref("c1", 0), &placeholder("outer"), n2);
            wrap_case(ctx, &inner, &mref("c2", 0), &t1, n2);
        }
    }

    // 2. exhaustive: every body over a 6-instruction alphabet up to a small length, n = 0..6
    let alphabet: Vec<Instruction> = ["X 0", "MEASURE 0 ro[0]", "PRAGMA hello \"w\"", "MOVE acc[0] 7", "SUB acc[0] 2", "PULSE 0 \"rf\" wf"]
        .iter()
        .map(|t| {
            let mut p = Program::new();
            p.add_instructions(parse_all(t));
            p.into_body_instructions().next().unwrap()
        })
        .collect();
    let defs_small = parse_all("DECLARE ro BIT[2]\nDECLARE acc INTEGER[2]\nDEFFRAME 0 \"rf\":\n\tINITIAL-FREQUENCY: 1000000000\nDEFWAVEFORM wf:\n\t1, 0.5");
    let max_len = if quick { 3 } else { 5 };
    for len in 0..=max_len {
        let mut idx = vec![0usize; len];
        loop {
            let body: Vec<Instruction> = idx.iter().map(|&i| alphabet[i].clone()).collect();
            let p = program_of(&defs_small, &body);
            for n in 0..=6u32 {
                let t = if (n + len as u32) % 2 == 0 { fixed("loop-start") } else { placeholder("loop-start") };
                wrap_case(ctx, &p, &mref("cnt", 0), &t, n);
            }
            let mut k = len;
            let mut done = true;
            while k > 0 {
                k -= 1;
                idx[k] += 1;
                if idx[k] < alphabet.len() {
                    done = false;
                    break;
                }
                idx[k] = 0;
            }
            if done {
                break;
            }
        }
    }

    // 2b. every definition of the pool as the ONLY content of the program (empty body), and with a one-gate body
    for d in &pools.defs {
        for body in [vec![], vec![alphabet[0].clone()]] {
            let p = program_of(std::slice::from_ref(d), &body);
            for n in 0..=3u32 {
                wrap_case(ctx, &p, &mref("cnt", 0), &placeholder("loop"), n);
            }
        }
    }

    // 3. seeded random: full pools, definitions of every kind, structured control flow, and a share of
    //    premise-violating inputs (counter touched / start label reused / non-zero index / HALT)
    let mut rng = ctx.rng(33);
    let n_random = if quick { 4000 } else { 150_000 };
    let touching = parse_all("ADD cnt[0] 1\nMOVE cnt[0] 5\nSUB cnt[0] 1\nMOVE acc[0] cnt[0]\nJUMP-WHEN @L1 cnt[0]\nHALT");
    let touching: Vec<Instruction> = {
        let mut p = Program::new();
        p.add_instructions(touching);
        p.into_body_instructions().collect()
    };
    for _ in 0..n_random {
        let mut defs = pools.random_defs(&mut rng, 8);
        let cal_only = rng.chance(1, 10);
        if cal_only {
            defs.retain(|d| matches!(d, Instruction::CalibrationDefinition(_) | Instruction::MeasureCalibrationDefinition(_)));
        }
        let mut fresh = 0u64;
        let mut body = if rng.chance(1, 2) {
            pools.random_body(&mut rng, 10)
        } else {
            random_structured_body(&pools, &mut rng, 4, &mut fresh)
        };
        if cal_only && rng.chance(1, 2) {
            body.clear();
        }
        let violate = rng.chance(1, 8);
        if violate && !body.is_empty() {
            let at = rng.below(body.len() as u64) as usize;
            body.insert(at, rng.pick(&touching).clone());
        }
        let idx = if rng.chance(1, 12) { 1 + rng.below(2) } else { 0 };
        let cname = if rng.chance(1, 6) { "acc" } else { "cnt" };
        let body_label_placeholders: Vec<Target> = body
            .iter()
            .filter_map(|i| match i {
                Instruction::Label(Label { target: t @ Target::Placeholder(_) }) => Some(t.clone()),
                _ => None,
            })
            .collect();
        let target = match rng.below(4) {
            0 => fixed("L1"), // may collide with a body label
            1 => fixed("loop"),
            // the SAME placeholder identity as a label of the body (premise violated)
            2 if !body_label_placeholders.is_empty() && rng.chance(1, 4) => rng.pick(&body_label_placeholders).clone(),
            _ => placeholder("loop"),
        };
        let n = if rng.chance(1, 20) { 7 + rng.below(30) as u32 } else { rng.below(7) as u32 };
        let p = program_of(&defs, &body);
        wrap_case(ctx, &p, &mref(cname, idx), &target, n);
        if rng.chance(1, 12) {
            let inner = p.wrap_in_loop(mref(cname, idx), target.clone(), 2 + rng.below(2) as u32);
            wrap_case(ctx, &inner, &mref("outer_cnt", 0), &placeholder("outer"), rng.below(4) as u32);
        }
    }
}
