//! C28 — the control-flow graph partitions the body and locates its blocks.
use qvh::*;
use quil_rs::instruction::{
    Gate, Instruction, Jump, JumpUnless, JumpWhen, Label, MemoryReference, Qubit, QubitPlaceholder, Target,
    TargetPlaceholder,
};
use std::sync::OnceLock;
use quil_rs::program::analysis::{BasicBlock, BasicBlockTerminator, ControlFlowGraph, ControlFlowGraphOwned};
use quil_rs::quil::Quil;
use quil_rs::Program;
use std::str::FromStr;

fn main() {
    main_with(run)
}

/// Placeholder targets created by this harness. A placeholder's identity is "which creation it came from";
/// it is recognised here by the address of its base-label buffer, NOT by the implementation's `==`/`Hash`/`Debug`
/// (two placeholders with the same base label print the same Debug text).
static PLACEHOLDERS: OnceLock<Vec<TargetPlaceholder>> = OnceLock::new();

fn placeholders() -> &'static [TargetPlaceholder] {
    PLACEHOLDERS.get_or_init(|| {
        ["loop", "loop", "x", "loop", "a"].iter().map(|b| TargetPlaceholder::new(b.to_string())).collect()
    })
}

/// Independent key of a jump/label target: `f:<name>` or `p<creation index>:<base label>`.
fn target(t: &Target) -> String {
    match t {
        Target::Fixed(name) => format!("f:{name}"),
        Target::Placeholder(p) => {
            let addr = p.as_inner().as_ptr();
            match placeholders().iter().position(|q| q.as_inner().as_ptr() == addr) {
                Some(k) => format!("p{k}:{}", p.as_inner()),
                None => format!("p?:{}", p.as_inner()),
            }
        }
    }
}

/// Independent key of a jump condition, from the fields.
fn cond(m: &MemoryReference) -> String {
    format!("{}[{}]", m.name, m.index)
}

/// Ordinary instruction payload: `<body position>:<text>` when the instruction is (by ADDRESS) an element of
/// `body`, else `?:<text>`. `BasicBlock::instructions()` hands out references into the program's body, so the
/// position is observable without the implementation's `PartialEq`.
fn payload(i: &Instruction, body: Option<&[&Instruction]>) -> String {
    let text = i.to_quil_or_debug();
    match body {
        None => text,
        Some(b) => match b.iter().position(|x| std::ptr::eq(*x, i)) {
            Some(k) => format!("{k}:{text}"),
            None => format!("?:{text}"),
        },
    }
}

/// Projection of a body instruction to the model's alphabet (the trusted part of the tie).
fn project(i: &Instruction, body: Option<&[&Instruction]>) -> Sexp {
    match i {
        Instruction::Label(l) => tagged("l", vec![st(target(&l.target))]),
        Instruction::Jump(j) => tagged("j", vec![st(target(&j.target))]),
        Instruction::JumpWhen(j) => tagged("jw", vec![st(target(&j.target)), st(cond(&j.condition))]),
        Instruction::JumpUnless(j) => tagged("ju", vec![st(target(&j.target)), st(cond(&j.condition))]),
        Instruction::Halt() => tagged("h", vec![]),
        Instruction::CalibrationDefinition(_)
        | Instruction::CircuitDefinition(_)
        | Instruction::Declaration(_)
        | Instruction::FrameDefinition(_)
        | Instruction::GateDefinition(_)
        | Instruction::Include(_)
        | Instruction::MeasureCalibrationDefinition(_)
        | Instruction::WaveformDefinition(_) => tagged("s", vec![st(i.to_quil_or_debug())]),
        other => tagged("o", vec![st(payload(other, body))]),
    }
}

fn blocks_sexp(blocks: Vec<BasicBlock>, body: Option<&[&Instruction]>) -> Vec<Sexp> {
    blocks
        .into_iter()
        .map(|b| {
            let label = match b.label() {
                Some(t) => tagged("some", vec![st(target(t))]),
                None => tagged("none", vec![]),
            };
            let instrs = tagged("instrs", b.instructions().iter().map(|i| st(payload(i, body))).collect());
            let term = match b.terminator() {
                BasicBlockTerminator::Continue => tagged("c", vec![]),
                BasicBlockTerminator::Jump { target: t } => tagged("j", vec![st(target(t))]),
                BasicBlockTerminator::ConditionalJump { condition, target: t, jump_if_condition_zero } => tagged(
                    "cond",
                    vec![st(target(t)), st(cond(condition)), boolean(*jump_if_condition_zero)],
                ),
                BasicBlockTerminator::Halt => tagged("h", vec![]),
            };
            tagged("b", vec![label, instrs, nat(b.instruction_index_offset() as u64), term])
        })
        .collect()
}

/// `positional`: identify block instructions by their address within `p`'s body (primary observation);
/// otherwise by text only (for routes that copy the instructions).
fn observe(p: &Program, positional: bool) -> Sexp {
    let body: Vec<&Instruction> = p.body_instructions().collect();
    let cfg = ControlFlowGraph::from(p);
    let dynamic = cfg.has_dynamic_control_flow();
    let blocks = blocks_sexp(cfg.into_blocks(), if positional { Some(&body) } else { None });
    tagged("cfg", vec![tagged("dyn", vec![boolean(dynamic)]), tagged("blocks", blocks)])
}

/// Sibling entry points and derived views: each must agree with the primary observation.
/// `(sib <owned> <single> <index> <terminst> <again>)`
fn siblings(p: &Program, primary_positional: &Sexp) -> Sexp {
    let primary = &observe(p, false);
    let body: Vec<&Instruction> = p.body_instructions().collect();
    // owned round trip
    let owned = ControlFlowGraphOwned::from(ControlFlowGraph::from(p));
    let back = ControlFlowGraph::from(&owned);
    let dynamic = back.has_dynamic_control_flow();
    let via_owned = tagged("cfg", vec![tagged("dyn", vec![boolean(dynamic)]), tagged("blocks", blocks_sexp(back.into_blocks(), None))]);
    let owned_same = &via_owned == primary;
    // a second computation on the same program
    let again_same = &observe(p, true) == primary_positional;
    // BasicBlock::try_from
    let blocks = ControlFlowGraph::from(p).into_blocks();
    let single = match BasicBlock::try_from(p) {
        Ok(b) => {
            if blocks.len() == 1 && blocks_sexp(vec![b], Some(&body)) == blocks_sexp(blocks.clone(), Some(&body)) {
                "ok-same"
            } else {
                "ok-differs"
            }
        }
        Err(e) => {
            let _ = (e.to_string(), format!("{e:?}"));
            "err"
        }
    };
    // offset-based indexing into the program body (only meaningful without ignored instructions)
    let has_skip = p.body_instructions().any(|i| matches!(i, Instruction::Include(_)));
    let mut index_ok = true;
    let mut term_ok = true;
    if !has_skip {
        for b in &blocks {
            let mut pos = b.instruction_index_offset();
            if let Some(l) = b.label() {
                match p.get_instruction(pos) {
                    Some(Instruction::Label(x)) if &x.target == l => {}
                    _ => index_ok = false,
                }
                pos += 1;
            }
            for i in b.instructions() {
                if p.get_instruction(pos) != Some(*i) {
                    index_ok = false;
                }
                pos += 1;
            }
            if let Some(t) = b.terminator().clone().into_instruction() {
                if p.get_instruction(pos) != Some(&t) {
                    term_ok = false;
                }
            }
        }
    }
    tagged(
        "sib",
        vec![
            atom(if owned_same { "owned-same" } else { "owned-differs" }),
            atom(single),
            atom(if has_skip { "index-na" } else if index_ok { "index-ok" } else { "index-bad" }),
            atom(if term_ok { "term-ok" } else { "term-bad" }),
            atom(if again_same { "again-same" } else { "again-differs" }),
        ],
    )
}

fn case(ctx: &mut Ctx, instructions: &[Instruction]) {
    let mut p = Program::new();
    for i in instructions {
        p.add_instruction(i.clone());
    }
    // the model's input is the projection of the REAL body, whatever add_instruction routed there
    let refs: Vec<&Instruction> = p.body_instructions().collect();
    let body: Vec<Sexp> = refs.iter().map(|i| project(i, Some(&refs))).collect();
    ctx.case(tagged("body", body), || {
        let primary = observe(&p, true);
        let sib = siblings(&p, &primary);
        // the same content built by other routes must give the same graph
        let q = Program::from_instructions(p.to_instructions());
        let route = if observe(&q, false) == observe(&p, false) { "route-same" } else { "route-differs" };
        match primary {
            Sexp::List(mut v) => {
                v.push(sib);
                v.push(atom(route));
                Sexp::List(v)
            }
            other => other,
        }
    });
}

fn parse_pool(src: &[&str]) -> Vec<Instruction> {
    src.iter()
        .map(|s| {
            let p = Program::from_str(s).unwrap_or_else(|e| panic!("pool entry {s:?}: {e}"));
            let is = p.to_instructions();
            assert_eq!(is.len(), 1, "{s}");
            is[0].clone()
        })
        .collect()
}

fn run(ctx: &mut Ctx) {
    let small = parse_pool(&[
        "X 0",
        "Y 1",
        "LABEL @a",
        "LABEL @b",
        "JUMP @a",
        "JUMP-WHEN @a ro[0]",
        "JUMP-UNLESS @b ro[0]",
        "HALT",
        "INCLUDE \"f\"",
    ]);
    // corpus: witnesses of past defects
    for text in ["X 0\nLABEL @a\nY 0", "LABEL @a\nLABEL @b", "X 0\nJUMP @a\nLABEL @a\nLABEL @b\nY 0\nHALT"] {
        let p = Program::from_str(text).unwrap();
        case(ctx, &p.to_instructions());
    }
    // exhaustive bodies over the small alphabet
    let max_len = if ctx.quick() { 5 } else { 6 };
    for len in 0..=max_len {
        let mut idx = vec![0usize; len];
        'outer: loop {
            let is: Vec<Instruction> = idx.iter().map(|&i| small[i].clone()).collect();
            case(ctx, &is);
            let mut k = len;
            loop {
                if k == 0 {
                    break 'outer;
                }
                k -= 1;
                idx[k] += 1;
                if idx[k] < small.len() {
                    break;
                }
                idx[k] = 0;
            }
        }
    }
    // API-only bodies: placeholder targets (two of them share the base label "loop", and a fixed label is named
    // like a placeholder's Debug text), placeholder qubits
    let ph = placeholders();
    let t = |k: usize| Target::Placeholder(ph[k].clone());
    let ro = |i: u64| MemoryReference::new("ro".to_string(), i);
    let q1 = Qubit::Placeholder(QubitPlaceholder::default());
    let q2 = Qubit::Placeholder(QubitPlaceholder::default());
    let gate = |q: &Qubit| Instruction::Gate(Gate::new("X", vec![], vec![q.clone()], vec![]).unwrap());
    let fixed_like = Target::Fixed("Placeholder(TargetPlaceholder(\"loop\"))".to_string());
    let api: Vec<Instruction> = vec![
        Instruction::Label(Label { target: t(0) }),
        Instruction::Label(Label { target: t(1) }),
        Instruction::Jump(Jump { target: t(0) }),
        Instruction::Jump(Jump { target: t(1) }),
        Instruction::JumpWhen(JumpWhen { target: t(1), condition: ro(0) }),
        Instruction::JumpUnless(JumpUnless { target: t(0), condition: ro(1) }),
        gate(&q1),
        gate(&q2),
        Instruction::Label(Label { target: t(2) }),
        Instruction::Label(Label { target: t(3) }),
        Instruction::Label(Label { target: fixed_like.clone() }),
        Instruction::Jump(Jump { target: fixed_like }),
        Instruction::Jump(Jump { target: t(3) }),
        Instruction::JumpUnless(JumpUnless { target: t(4), condition: ro(0) }),
        Instruction::Label(Label { target: Target::Fixed("a".to_string()) }),
        Instruction::Jump(Jump { target: Target::Fixed("a".to_string()) }),
        gate(&Qubit::Fixed(0)),
        gate(&Qubit::Fixed(0)),
        Instruction::Halt(),
    ];
    // exhaustive over the first 8 (two same-named placeholders in every label/jump arrangement)
    let api_len = if ctx.quick() { 4 } else { 5 };
    for len in 1..=api_len {
        let mut idx = vec![0usize; len];
        'outer2: loop {
            let is: Vec<Instruction> = idx.iter().map(|&i| api[i].clone()).collect();
            case(ctx, &is);
            let mut k = len;
            loop {
                if k == 0 {
                    break 'outer2;
                }
                k -= 1;
                idx[k] += 1;
                if idx[k] < 8 {
                    break;
                }
                idx[k] = 0;
            }
        }
    }
    let n_api = if ctx.quick() { 8_000 } else { 150_000 };
    let mut rng = ctx.rng(2828);
    for _ in 0..n_api {
        let len = 2 + rng.below(12) as usize;
        let is: Vec<Instruction> = (0..len).map(|_| rng.pick(&api).clone()).collect();
        case(ctx, &is);
    }
    // random longer bodies over every "ordinary" instruction kind, definitions and many labels
    let wide = parse_pool(&[
        "X 0", "CNOT 0 1", "RX(pi) 2", "MEASURE 0 ro[0]", "MEASURE 1", "RESET", "RESET 0", "NOP", "WAIT",
        "MOVE ro[0] 1", "ADD r[0] 1.5", "AND ro[0] 1", "NOT ro[0]", "NEG r[0]", "EQ ro[0] ro[1] 1",
        "EXCHANGE ro[0] ro[1]", "CONVERT r[0] ro[0]", "LOAD ro[0] ro n[0]", "STORE ro n[0] 1",
        "PRAGMA X \"y\"", "PULSE 0 \"f\" w", "CAPTURE 0 \"f\" w r[0]", "RAW-CAPTURE 0 \"f\" 1 r[0]",
        "DELAY 0 1", "FENCE", "FENCE 0 1", "SET-FREQUENCY 0 \"f\" 1", "SET-PHASE 0 \"f\" 1", "SET-SCALE 0 \"f\" 1",
        "SHIFT-FREQUENCY 0 \"f\" 1", "SHIFT-PHASE 0 \"f\" 1", "SWAP-PHASES 0 \"f\" 1 \"g\"", "CALL foo ro[0]",
        "DECLARE ro BIT[2]", "DEFGATE G AS PERMUTATION:\n\t0, 1", "DEFFRAME 0 \"f\":\n\tDIRECTION: \"tx\"",
        "DEFWAVEFORM w:\n\t1, 2", "DEFCAL X 0:\n\tNOP", "DEFCAL MEASURE 0 addr:\n\tNOP", "DEFCIRCUIT C:\n\tNOP",
        "INCLUDE \"lib.quil\"", "PRAGMA EXTERN foo \"(x : INTEGER)\"",
        "LABEL @a", "LABEL @b", "LABEL @c", "LABEL @d", "JUMP @a", "JUMP @d", "JUMP-WHEN @b ro[0]",
        "JUMP-WHEN @c ro[1]", "JUMP-UNLESS @a ro[1]", "JUMP-UNLESS @d r[0]", "HALT",
    ]);
    let n = if ctx.quick() { 20_000 } else { 300_000 };
    let mut rng = ctx.rng(28);
    for _ in 0..n {
        let len = 1 + rng.below(14) as usize;
        // bias towards control flow so that blocks are short and varied
        let is: Vec<Instruction> = (0..len)
            .map(|_| {
                if rng.chance(1, 2) {
                    wide[wide.len() - 11 + rng.below(11) as usize].clone()
                } else {
                    rng.pick(&wide).clone()
                }
            })
            .collect();
        case(ctx, &is);
    }
}
