//! C24 — frame conflicts are ordered and every frame edge is justified.
//!
//! Streams: (1) corpus of Quil-T programs (the schedule tests' inputs and witnesses for blocking vs
//! non-blocking pulses, fences, delays, RESET, SWAP-PHASES, undefined frames); (2) the real
//! `DependencyQueue<InstructionFrameInteraction>` driven through `verif_hooks::c23::FrameQueue` with EVERY
//! use/block sequence over 2 frames up to a length (one node per access, and with consecutive accesses
//! sharing a node up to a shorter length); (3) every block up to a length over an alphabet of handler
//! answers (timed / untimed, using / blocking / both, two frames, no frames) through
//! `ScheduledProgram::from_program` with a table-driven handler; (4) seeded random Quil-T programs over
//! frames on overlapping qubit sets, default handler.
use std::collections::BTreeMap;

use qvh::sched::*;
use qvh::*;
use quil_rs::instruction::DefaultHandler;
use quil_rs::program::scheduling::ScheduledGraphNode;
use quil_rs::verif_hooks::c23::FrameQueue;

const HDR: &str = "DEFFRAME 0 \"a\":\n    SAMPLE-RATE: 1e9\nDEFFRAME 0 \"b\":\n    SAMPLE-RATE: 1e9\nDEFFRAME 1 \"a\":\n    SAMPLE-RATE: 1e9\nDEFFRAME 0 1 \"c\":\n    SAMPLE-RATE: 1e9\n";

const CORPUS: &[&str] = &[
    // schedule.rs tests
    "FENCE\nFENCE\nFENCE\n",
    "PULSE 0 \"a\" flat(duration: 1.0)\nPULSE 0 \"a\" flat(duration: 1.0)\nPULSE 0 \"a\" flat(duration: 1.0)\n",
    "NONBLOCKING PULSE 0 \"a\" flat(duration: 1.0)\nNONBLOCKING PULSE 0 \"b\" flat(duration: 10.0)\nFENCE\nPULSE 0 \"a\" flat(duration: 1.0)\nFENCE\nPULSE 0 \"a\" flat(duration: 1.0)\n",
    "DELAY 0 \"a\" 1.0\nSET-PHASE 0 \"a\" 1.0\nSHIFT-PHASE 0 \"a\" 1.0\nSWAP-PHASES 0 \"a\" 0 \"b\"\nSET-FREQUENCY 0 \"a\" 1.0\nSHIFT-FREQUENCY 0 \"a\" 1.0\nSET-SCALE 0 \"a\" 1.0\nFENCE\nPULSE 0 \"a\" flat(duration: 1.0)\n",
    "RESET\n",
    // blocking pulse blocks the other frames on its qubits; a second blocker is not ordered with the first
    "PULSE 0 \"a\" flat(duration: 1.0)\nPULSE 1 \"a\" flat(duration: 1.0)\nPULSE 0 1 \"c\" flat(duration: 1.0)\n",
    "PULSE 0 \"a\" flat(duration: 1.0)\nPULSE 0 \"b\" flat(duration: 1.0)\nNONBLOCKING PULSE 0 1 \"c\" flat(duration: 1.0)\n",
    "NONBLOCKING PULSE 0 \"a\" flat(duration: 1.0)\nNONBLOCKING PULSE 0 \"b\" flat(duration: 1.0)\nNONBLOCKING PULSE 0 \"a\" flat(duration: 1.0)\n",
    // untimed RESET between timed instructions: ordered, but not through Scheduled edges
    "PULSE 0 \"a\" flat(duration: 1.0)\nRESET 0\nPULSE 0 \"a\" flat(duration: 1.0)\n",
    "RESET\nPULSE 1 \"a\" flat(duration: 1.0)\nRESET 1\n",
    // undefined frame matches nothing
    "PULSE 3 \"zz\" flat(duration: 1.0)\nPULSE 0 \"a\" flat(duration: 1.0)\n",
    "DELAY 0 1.0\nDELAY 0 1 1.0\nDELAY 1 \"a\" 1.0\nFENCE 1\nFENCE 0 1\n",
    "CAPTURE 0 \"a\" flat(duration: 1.0) ro[0]\nRAW-CAPTURE 0 \"b\" 1.0 ro[0]\nNONBLOCKING CAPTURE 1 \"a\" flat(duration: 1.0) ro[1]\n",
    // classical instructions interleaved, jump terminator, two blocks
    "MOVE x[0] 1\nPULSE 0 \"a\" flat(duration: 1.0)\nMOVE y[0] x[0]\nJUMP @l\nLABEL @l\nFENCE 0\nHALT\n",
    "CAPTURE 0 \"a\" flat(duration: 1.0, iq: ro[1]) ro[0]\nRAW-CAPTURE 0 \"b\" ro[0] ro\nPULSE 0 \"a\" flat(duration: 1.0, iq: ro[0])\n",
    "",
];

fn program_case(ctx: &mut Ctx, tag: &str, program: &quil_rs::Program) {
    let input = project_program(program, &DefaultHandler);
    ctx.case(tagged(tag, vec![input]), || run_from_program(program, &DefaultHandler));
}

fn ast_case(ctx: &mut Ctx, text: &str) {
    let instructions = parsed_instructions(text);
    let (program, parts) = ast_parts(&instructions);
    ctx.case(tagged("ast", parts), || run_from_program(&program, &DefaultHandler));
}

fn nodes_sexp(v: Vec<ScheduledGraphNode>) -> Sexp {
    let mut w: Vec<u64> = v.into_iter().map(|n| node_code(1000, n)).collect();
    w.sort();
    w.dedup();
    list(w.into_iter().map(nat).collect())
}

/// history = (node index, frame, using?)
fn history_case(ctx: &mut Ctx, history: &[(u64, u64, bool)]) {
    let input = tagged(
        "fq",
        history.iter().map(|&(n, f, u)| list(vec![nat(n + 1), nat(f), atom(if u { "u" } else { "b" })])).collect(),
    );
    ctx.case(input, || {
        let mut queues: BTreeMap<u64, FrameQueue> = BTreeMap::new();
        let mut steps = Vec::new();
        for &(n, f, u) in history {
            let deps = queues.entry(f).or_default().record(ScheduledGraphNode::InstructionIndex(n as usize), u);
            steps.push(nodes_sexp(deps));
        }
        let pending = queues.into_iter().map(|(f, q)| list(vec![nat(f), nodes_sexp(q.into_pending())])).collect();
        list(vec![tagged("deps", steps), tagged("pending", pending)])
    });
}

fn all_seqs(len: usize, base: u64, f: &mut impl FnMut(&[u64])) {
    let mut idx = vec![0u64; len];
    loop {
        f(&idx);
        let mut k = len;
        loop {
            if k == 0 {
                return;
            }
            k -= 1;
            idx[k] += 1;
            if idx[k] < base {
                break;
            }
            idx[k] = 0;
        }
    }
}

fn table() -> TableHandler {
    let rf = |scheduled: bool, used: &[usize], blocked: &[usize]| Row {
        role: 1,
        scheduled,
        frames: Some((used.to_vec(), blocked.to_vec())),
        ..Row::default()
    };
    TableHandler {
        rows: vec![
            rf(true, &[0], &[]),                                          // 0: timed use a
            rf(true, &[1], &[]),                                          // 1: timed use b
            rf(true, &[0], &[1]),                                         // 2: timed use a, block b
            rf(true, &[], &[0]),                                          // 3: timed, only blocks a
            rf(true, &[0, 1], &[]),                                       // 4: timed use a and b (fence)
            rf(false, &[0], &[]),                                         // 5: untimed use a
            rf(false, &[1], &[0]),                                        // 6: untimed use b, block a
            Row { role: 0, ..Row::default() },                            // 7: classical, no accesses
            Row { role: 1, scheduled: true, frames: None, ..Row::default() }, // 8: RF, matching_frames = None
            rf(true, &[], &[]),                                           // 9: RF, matches no frame
            rf(true, &[], &[0, 1]),                                       // 10: timed, blocks a and b
            rf(true, &[0], &[0]),                                         // 11: uses AND blocks a (outside the hypothesis)
            rf(false, &[], &[0]),                                         // 12: UNTIMED, uses nothing, blocks a (RESET-like)
        ],
    }
}

fn main() {
    main_with(run)
}

fn run(ctx: &mut Ctx) {
    let quick = ctx.quick();
    // 1. corpus
    for text in CORPUS {
        let program = parse(&format!("{HDR}{text}"));
        program_case(ctx, "corpus", &program);
    }

    // 2a. every use/block sequence over 2 frames, one new node per access
    let max_len = if quick { 7 } else { 9 };
    for len in 0..=max_len {
        all_seqs(len, 4, &mut |s| {
            let h: Vec<(u64, u64, bool)> = s.iter().enumerate().map(|(i, &x)| (i as u64, x / 2, x % 2 == 1)).collect();
            history_case(ctx, &h);
        });
    }
    // 2b. consecutive accesses may share their node
    let max_shared = if quick { 5 } else { 7 };
    for len in 2..=max_shared {
        all_seqs(len, 8, &mut |s| {
            if s[0] >= 4 || s.iter().all(|&x| x < 4) {
                return;
            }
            let mut node = 0u64;
            let mut h = Vec::new();
            for (i, &x) in s.iter().enumerate() {
                if i > 0 && x < 4 {
                    node += 1;
                }
                let y = x % 4;
                h.push((node, y / 2, y % 2 == 1));
            }
            history_case(ctx, &h);
        });
    }

    // 3. every block up to a length over the table alphabet; alternately no terminator / HALT
    let handler = table();
    let nrows = handler.rows.len() as u64;
    let max_block = if quick { 4 } else { 5 };
    for len in 0..=max_block {
        let mut k = 0u64;
        all_seqs(len, nrows, &mut |s| {
            let mut body: Vec<Result<usize, String>> = s.iter().map(|&k| Ok(k as usize)).collect();
            k += 1;
            if k % 3 == 0 {
                body.push(Err("HALT".to_string()));
            }
            let program = handler.program(&body);
            let input = project_program(&program, &handler);
            ctx.case(tagged("table", vec![input]), || run_from_program(&program, &handler));
        });
    }

    // frame-set shapes: RF instructions with used = {} and blocked != {}, projected and as AST
    for text in frame_shape_programs() {
        let program = parse(&text);
        program_case(ctx, "corpus", &program);
        ast_case(ctx, &text);
    }

    // 4. random Quil-T programs, default handler
    let n_random = if quick { 5000 } else { 200_000 };
    let mut rng = ctx.rng(24);
    for i in 0..n_random {
        let cfg = match i % 4 {
            0 => ProgCfg { nframes: 2, nreg: 1, max_len: 8, rf_pct: 100, cf_pct: 0, bad_permille: 0 },
            1 => ProgCfg { nframes: 4, nreg: 2, max_len: 10, rf_pct: 85, cf_pct: 6, bad_permille: 3 },
            2 => ProgCfg { nframes: 11, nreg: 2, max_len: 14, rf_pct: 70, cf_pct: 10, bad_permille: 5 },
            _ => ProgCfg { nframes: 3, nreg: 1, max_len: 12, rf_pct: 95, cf_pct: 3, bad_permille: 0 },
        };
        let text = program_text(&mut rng, &cfg);
        let program = parse(&text);
        program_case(ctx, "random", &program);
    }

    // 5. "ast" stream: full AST on the wire, blocks and handler answers derived by the driver (HandlerFromAst)
    for text in CORPUS {
        ast_case(ctx, &format!("{HDR}{text}"));
    }
    let n_ast = if quick { 3000 } else { 100_000 };
    let mut rng = ctx.rng(124);
    for i in 0..n_ast {
        let cfg = match i % 3 {
            0 => ProgCfg { nframes: 2, nreg: 1, max_len: 8, rf_pct: 100, cf_pct: 0, bad_permille: 0 },
            1 => ProgCfg { nframes: 4, nreg: 2, max_len: 10, rf_pct: 85, cf_pct: 6, bad_permille: 3 },
            _ => ProgCfg { nframes: 11, nreg: 2, max_len: 14, rf_pct: 70, cf_pct: 10, bad_permille: 5 },
        };
        let text = ast_program_text(&mut rng, &cfg);
        ast_case(ctx, &text);
    }
    // self-audit streams: (a) SEQUENCES on one Program object (add half, schedule, add the rest, schedule twice:
    // `used_qubits` is maintained incrementally and matters for bare RESET); (b) large shapes (> 64 instructions,
    // > 32 frames / regions per instruction); (c) API-only placeholder qubits / targets (projected stream only)
    let mut rng = ctx.rng(224);
    let n_staged = if quick { 300 } else { 20_000 };
    for i in 0..n_staged {
        let cfg = ProgCfg { nframes: 3 + (i % 3) as usize, nreg: 2, max_len: 10, rf_pct: 70, cf_pct: 8, bad_permille: 0 };
        let mut text = ast_program_text(&mut rng, &cfg);
        text.push_str(if i % 2 == 0 { "RESET\nFENCE 1\nDELAY 2 1.0\n" } else { "FENCE 2\nRESET\n" });
        let instructions = parsed_instructions(&text);
        let cut = rng.below(instructions.len() as u64 + 1) as usize;
        staged_ast_cases(ctx, &instructions, cut);
    }
    for text in large_programs(&mut rng) {
        let program = parse(&text);
        let input = project_program(&program, &DefaultHandler);
        ctx.case(tagged("corpus", vec![input]), || run_from_program(&program, &DefaultHandler));
        let instructions = parsed_instructions(&text);
        let (program, parts) = ast_parts(&instructions);
        ctx.case(tagged("ast", parts), || run_from_program(&program, &DefaultHandler));
    }
    for program in placeholder_programs() {
        let input = project_program(&program, &DefaultHandler);
        ctx.case(tagged("corpus", vec![input]), || run_from_program(&program, &DefaultHandler));
    }

}
