//! C16 — calibration lookup follows the documented precedence rules.
//!
//! Every case builds a real `Calibrations` through the public API (`insert_calibration`,
//! `insert_measurement_calibration`, `CalibrationSet::{remove, extend}`), records the set after every
//! mutation, and queries it with `get_match_for_gate` / `get_match_for_measurement`; the answer is reported
//! as the *position* of the returned definition in the set (pointer identity). A third kind of case goes
//! through the parser and `Program::expand_calibrations`.
//!
//! Projection (trusted, stated in meta/C16.json): an `Expression` parameter is sent as two class numbers —
//! `raw`: its class under `Expression::eq` among the expressions of the parameter alphabet; `simp`: `v` when
//! `expr.clone().into_simplified()` is `Expression::Variable`, else the class of the simplified expression
//! under `Expression::eq`.  A definition's body is one `PRAGMA B<k>`; `k` identifies the definition.
use qvh::*;
use quil_rs::expression::Expression;
use quil_rs::instruction::{
    CalibrationDefinition, CalibrationIdentifier, CalibrationSignature, Gate, GateModifier, Instruction,
    MeasureCalibrationDefinition, MeasureCalibrationIdentifier, Measurement, MemoryReference, Pragma, Qubit,
    QubitPlaceholder,
};
use quil_rs::program::{CalibrationSet, CalibrationSource, Calibrations};
use quil_rs::Program;
use std::str::FromStr;

/// `below(a)` with probability num/den, else `below(b)`
macro_rules! biased {
    ($rng:ident, $num:expr, $den:expr, $a:expr, $b:expr) => {{
        let n = if $rng.chance($num, $den) { $a } else { $b };
        $rng.below(n)
    }};
}

/// Parameter alphabet (texts; parsed by the real expression parser).
const PARAMS: [&str; 16] = [
    "1.0",
    "pi/2",
    "1.5707963267948966",
    "%t",
    "%s",
    "2.0",
    "pi",
    "3.141592653589793",
    "theta[0]",
    "%t+0",
    "2*%t",
    "1.0+1.0",
    "-1.0",
    "0.0",
    "2*pi/4",
    // the next f64 after pi/2: equal to it under any tolerance, different under `Expression::eq`
    "1.5707963267948968",
];

/// Parameter classes are computed INDEPENDENTLY of `Expression::eq`: two expressions are in the same class iff
/// their `Debug` renderings (a structural dump of the AST, f64 leaves printed exactly) coincide.  `sanity`
/// cross-checks, on every run, that `Expression::eq` agrees with this on all pairs of the alphabet and of its
/// simplified forms (so a change of `Expression::eq` itself is reported, not absorbed).
struct ParamTable {
    exprs: Vec<Expression>,
    keys: Vec<String>,
    simp_keys: Vec<String>,
    simp: Vec<Expression>,
}

fn key_of(e: &Expression) -> String {
    format!("{e:?}")
}

impl ParamTable {
    fn new() -> Self {
        let exprs: Vec<Expression> =
            PARAMS.iter().map(|t| Expression::from_str(t).unwrap_or_else(|e| panic!("param {t}: {e:?}"))).collect();
        let simp: Vec<Expression> = exprs.iter().map(|e| e.clone().into_simplified()).collect();
        let keys = exprs.iter().map(key_of).collect();
        let simp_keys = simp.iter().map(key_of).collect();
        ParamTable { exprs, keys, simp_keys, simp }
    }
    /// class of `e` = first alphabet entry with the same structural key, 1000 if foreign
    fn raw_class(&self, e: &Expression) -> u64 {
        let k = key_of(e);
        self.keys.iter().position(|x| *x == k).map(|i| i as u64).unwrap_or(1000)
    }
    /// `v` if `e` simplifies to a variable, else the class of the simplified form (computed afresh from `e`)
    fn simp_class(&self, e: &Expression) -> Sexp {
        let s = e.clone().into_simplified();
        if let Expression::Variable(_) = s {
            return atom("v");
        }
        let k = key_of(&s);
        nat(self.simp_keys.iter().position(|x| *x == k).map(|i| i as u64).unwrap_or(1000))
    }
    fn enc(&self, e: &Expression) -> Sexp {
        tagged("p", vec![nat(self.raw_class(e)), self.simp_class(e)])
    }
    /// pairs on which `Expression::eq` and the structural key disagree (expected: none)
    fn sanity(&self) -> Vec<Sexp> {
        let mut bad = Vec::new();
        for (what, es, ks) in [("raw", &self.exprs, &self.keys), ("simp", &self.simp, &self.simp_keys)] {
            for i in 0..es.len() {
                for j in 0..es.len() {
                    if (es[i] == es[j]) != (ks[i] == ks[j]) {
                        bad.push(list(vec![atom(what), nat(i as u64), nat(j as u64)]));
                    }
                }
            }
        }
        bad
    }
}

#[derive(Clone, Debug, PartialEq)]
enum Q {
    F(u64),
    V(&'static str),
    P(usize),
}

#[derive(Clone, Debug)]
struct CalSpec {
    name: &'static str,
    mods: Vec<GateModifier>,
    params: Vec<usize>,
    qubits: Vec<Q>,
    body: u64,
}

#[derive(Clone, Debug)]
struct GateSpec {
    name: &'static str,
    mods: Vec<GateModifier>,
    params: Vec<usize>,
    qubits: Vec<Q>,
}

#[derive(Clone, Debug)]
struct MCalSpec {
    name: Option<&'static str>,
    qubit: Q,
    target: Option<&'static str>,
    body: u64,
}

#[derive(Clone, Debug)]
struct MeasSpec {
    name: Option<&'static str>,
    qubit: Q,
    target: Option<(&'static str, u64)>,
}

#[derive(Clone, Debug)]
enum Op<T> {
    Ins(T),
    Rem(T),
    /// `CalibrationSet::extend(iter)` (route Program: `Program::add_instructions`)
    Ext(Vec<T>),
    /// `Calibrations::extend(other)` with `other` = `CalibrationSet::from(vec)` (route Program: `+` / `+=` of a
    /// second program built by `Program::from_instructions`)
    ExtFrom(Vec<T>),
}

struct World {
    table: ParamTable,
    placeholders: Vec<QubitPlaceholder>,
}

impl World {
    fn qubit(&self, q: &Q) -> Qubit {
        match q {
            Q::F(n) => Qubit::Fixed(*n),
            Q::V(s) => Qubit::Variable(s.to_string()),
            Q::P(i) => Qubit::Placeholder(self.placeholders[*i].clone()),
        }
    }
    fn enc_qubit(&self, q: &Qubit) -> Sexp {
        match q {
            Qubit::Fixed(n) => tagged("f", vec![nat(*n)]),
            Qubit::Variable(s) => tagged("v", vec![st(s.clone())]),
            Qubit::Placeholder(p) => {
                let i = self.placeholders.iter().position(|x| x == p).map(|i| i as u64).unwrap_or(1000);
                tagged("ph", vec![nat(i)])
            }
        }
    }
    fn body(k: u64) -> Vec<Instruction> {
        vec![Instruction::Pragma(Pragma::new(format!("B{k}"), vec![], None))]
    }
    fn body_of(instructions: &[Instruction]) -> u64 {
        match instructions {
            [Instruction::Pragma(p)] => p.name[1..].parse().unwrap_or(999_999),
            _ => 999_999,
        }
    }
    fn cal(&self, c: &CalSpec) -> CalibrationDefinition {
        CalibrationDefinition {
            identifier: CalibrationIdentifier {
                name: c.name.to_string(),
                modifiers: c.mods.clone(),
                parameters: c.params.iter().map(|&i| self.table.exprs[i].clone()).collect(),
                qubits: c.qubits.iter().map(|q| self.qubit(q)).collect(),
            },
            instructions: Self::body(c.body),
        }
    }
    fn gate(&self, g: &GateSpec) -> Gate {
        Gate {
            name: g.name.to_string(),
            modifiers: g.mods.clone(),
            parameters: g.params.iter().map(|&i| self.table.exprs[i].clone()).collect(),
            qubits: g.qubits.iter().map(|q| self.qubit(q)).collect(),
        }
    }
    fn mcal(&self, c: &MCalSpec) -> MeasureCalibrationDefinition {
        MeasureCalibrationDefinition {
            identifier: MeasureCalibrationIdentifier::new(
                c.name.map(str::to_string),
                self.qubit(&c.qubit),
                c.target.map(str::to_string),
            ),
            instructions: Self::body(c.body),
        }
    }
    fn meas(&self, m: &MeasSpec) -> Measurement {
        Measurement::new(
            m.name.map(str::to_string),
            self.qubit(&m.qubit),
            m.target.map(|(n, i)| MemoryReference::new(n.to_string(), i)),
        )
    }
    fn enc_mods(mods: &[GateModifier]) -> Sexp {
        list(
            mods.iter()
                .map(|m| {
                    atom(match m {
                        GateModifier::Controlled => "c",
                        GateModifier::Dagger => "d",
                        GateModifier::Forked => "f",
                    })
                })
                .collect(),
        )
    }
    /// projection of a real definition (also used on the implementation's output)
    fn enc_cal(&self, c: &CalibrationDefinition) -> Sexp {
        tagged(
            "cal",
            vec![
                st(c.identifier.name.clone()),
                Self::enc_mods(&c.identifier.modifiers),
                list(c.identifier.parameters.iter().map(|e| self.table.enc(e)).collect()),
                list(c.identifier.qubits.iter().map(|q| self.enc_qubit(q)).collect()),
                nat(Self::body_of(&c.instructions)),
            ],
        )
    }
    fn enc_gate(&self, g: &Gate) -> Sexp {
        tagged(
            "g",
            vec![
                st(g.name.clone()),
                Self::enc_mods(&g.modifiers),
                list(g.parameters.iter().map(|e| self.table.enc(e)).collect()),
                list(g.qubits.iter().map(|q| self.enc_qubit(q)).collect()),
            ],
        )
    }
    fn enc_opt(s: &Option<String>) -> Sexp {
        match s {
            None => atom("none"),
            Some(x) => tagged("some", vec![st(x.clone())]),
        }
    }
    fn enc_mcal(&self, c: &MeasureCalibrationDefinition) -> Sexp {
        tagged(
            "mcal",
            vec![
                Self::enc_opt(&c.identifier.name),
                self.enc_qubit(&c.identifier.qubit),
                Self::enc_opt(&c.identifier.target),
                nat(Self::body_of(&c.instructions)),
            ],
        )
    }
    fn enc_meas(&self, m: &Measurement) -> Sexp {
        tagged(
            "m",
            vec![
                Self::enc_opt(&m.name),
                self.enc_qubit(&m.qubit),
                match &m.target {
                    None => atom("none"),
                    Some(r) => tagged("some", vec![st(r.name.clone()), nat(r.index)]),
                },
            ],
        )
    }
}

fn enc_ops<T>(ops: &[Op<T>], enc: impl Fn(&T) -> Sexp) -> Sexp {
    tagged(
        "hist",
        ops.iter()
            .map(|o| match o {
                Op::Ins(c) => tagged("ins", vec![enc(c)]),
                Op::Rem(c) => tagged("rem", vec![enc(c)]),
                Op::Ext(cs) => tagged("ext", cs.iter().map(&enc).collect()),
                Op::ExtFrom(cs) => tagged("extfrom", cs.iter().map(&enc).collect()),
            })
            .collect(),
    )
}

fn answer_index<T>(found: Option<&T>, mut all: impl Iterator<Item = impl std::ops::Deref<Target = T>>) -> Sexp {
    match found {
        None => atom("none"),
        Some(f) => match all.position(|c| std::ptr::eq(&*c, f)) {
            Some(i) => nat(i as u64),
            None => atom("foreign"),
        },
    }
}

#[derive(Clone, Copy, PartialEq)]
enum Route {
    /// `Calibrations::{insert_*, extend}`, `CalibrationSet::{remove, extend, from}`
    Api,
    /// `Program::{add_instruction, add_instructions, from_instructions}`, `+`, `+=`
    Program,
}

fn fmt_err<E: std::fmt::Display + std::fmt::Debug>(e: &E) -> Sexp {
    // formatting is part of the observation: a panic in Display/Debug is a crash of the case
    let _ = format!("{e} {e:#} {e:?}");
    atom("err")
}

fn pragma_body(instructions: &[Instruction]) -> Sexp {
    match instructions {
        [Instruction::Pragma(p)] if p.name.starts_with('B') => nat(p.name[1..].parse().unwrap_or(999_999)),
        _ => atom("odd"),
    }
}

/// `Calibrations::expand` and `expand_with_detail` on one instruction: (body, body, source names the winner)
fn expand_both(cals: &Calibrations, instruction: &Instruction, winner: Option<CalibrationSource>) -> Sexp {
    let plain = match cals.expand(instruction, &[]) {
        Ok(None) => atom("none"),
        Ok(Some(is)) => pragma_body(&is),
        Err(e) => fmt_err(&e),
    };
    let (detail, source_ok) = match cals.expand_with_detail(instruction, &[]) {
        Ok(None) => (atom("none"), winner.is_none()),
        Ok(Some(out)) => (pragma_body(&out.new_instructions), Some(out.detail.calibration_used().clone()) == winner),
        Err(e) => (fmt_err(&e), false),
    };
    tagged("e", vec![plain, detail, boolean(source_ok)])
}

fn gate_case(ctx: &mut Ctx, w: &World, ops: &[Op<CalSpec>], queries: &[GateSpec]) {
    gate_case_route(ctx, w, ops, queries, Route::Api)
}

fn gate_case_route(ctx: &mut Ctx, w: &World, ops: &[Op<CalSpec>], queries: &[GateSpec], route: Route) {
    let input = tagged(
        if route == Route::Api { "gate" } else { "gatep" },
        vec![
            enc_ops(ops, |c| w.enc_cal(&w.cal(c))),
            tagged("queries", queries.iter().map(|g| w.enc_gate(&w.gate(g))).collect()),
        ],
    );
    ctx.case(input, || {
        let mut program = Program::new();
        let mut cals = Calibrations::default();
        let mut steps = Vec::new();
        for (k, op) in ops.iter().enumerate() {
            let ret = match (route, op) {
                (Route::Api, Op::Ins(c)) => match cals.insert_calibration(w.cal(c)) {
                    None => atom("none"),
                    Some(old) => nat(World::body_of(&old.instructions)),
                },
                (Route::Program, Op::Ins(c)) => {
                    // `add_instruction` does not return the replaced definition: read it first through `get`
                    let d = w.cal(c);
                    let old = program.calibrations.calibrations.get(&d.signature()).map(|o| World::body_of(&o.instructions));
                    program.add_instruction(Instruction::CalibrationDefinition(d));
                    old.map(nat).unwrap_or(atom("none"))
                }
                (_, Op::Rem(c)) => {
                    let d = w.cal(c);
                    let set = if route == Route::Api { &mut cals.calibrations } else { &mut program.calibrations.calibrations };
                    boolean(set.remove(&d.signature()))
                }
                (Route::Api, Op::Ext(cs)) => {
                    cals.calibrations.extend(cs.iter().map(|c| w.cal(c)));
                    atom("none")
                }
                (Route::Program, Op::Ext(cs)) => {
                    program.add_instructions(cs.iter().map(|c| Instruction::CalibrationDefinition(w.cal(c))));
                    atom("none")
                }
                (Route::Api, Op::ExtFrom(cs)) => {
                    let other = Calibrations {
                        calibrations: CalibrationSet::from(cs.iter().map(|c| w.cal(c)).collect::<Vec<_>>()),
                        measure_calibrations: Default::default(),
                    };
                    cals.extend(other);
                    atom("none")
                }
                (Route::Program, Op::ExtFrom(cs)) => {
                    let other = Program::from_instructions(cs.iter().map(|c| Instruction::CalibrationDefinition(w.cal(c))).collect());
                    if k % 2 == 0 {
                        program += other;
                    } else {
                        program = program.clone() + other;
                    }
                    atom("none")
                }
            };
            let cur = if route == Route::Api { &cals } else { &program.calibrations };
            steps.push(tagged("step", vec![ret, list(cur.iter_calibrations().map(|c| w.enc_cal(c)).collect())]));
        }
        let cals = if route == Route::Api { &cals } else { &program.calibrations };
        let mut answers = Vec::new();
        let mut expansions = Vec::new();
        for g in queries {
            let gate = w.gate(g);
            let found = cals.get_match_for_gate(&gate);
            answers.push(answer_index(found, cals.iter_calibrations()));
            let winner = found.map(|c| CalibrationSource::Calibration(c.identifier.clone()));
            expansions.push(expand_both(cals, &Instruction::Gate(gate), winner));
        }
        // `CalibrationSet::get` by the signature of every definition mentioned in the history
        let mut gets = Vec::new();
        for op in ops {
            let cs: Vec<&CalSpec> = match op {
                Op::Ins(c) | Op::Rem(c) => vec![c],
                Op::Ext(cs) | Op::ExtFrom(cs) => cs.iter().take(4).collect(),
            };
            for c in cs {
                let d = w.cal(c);
                gets.push(match cals.calibrations.get(&d.signature()) {
                    None => atom("none"),
                    Some(x) => nat(World::body_of(&x.instructions)),
                });
            }
        }
        tagged("out", vec![tagged("steps", steps), tagged("ans", answers), tagged("exp", expansions), tagged("gets", gets)])
    });
}

fn meas_case(ctx: &mut Ctx, w: &World, ops: &[Op<MCalSpec>], queries: &[MeasSpec]) {
    meas_case_route(ctx, w, ops, queries, Route::Api)
}

fn meas_case_route(ctx: &mut Ctx, w: &World, ops: &[Op<MCalSpec>], queries: &[MeasSpec], route: Route) {
    let input = tagged(
        if route == Route::Api { "meas" } else { "measp" },
        vec![
            enc_ops(ops, |c| w.enc_mcal(&w.mcal(c))),
            tagged("queries", queries.iter().map(|m| w.enc_meas(&w.meas(m))).collect()),
        ],
    );
    ctx.case(input, || {
        let mut program = Program::new();
        let mut cals = Calibrations::default();
        let mut steps = Vec::new();
        for (k, op) in ops.iter().enumerate() {
            let ret = match (route, op) {
                (Route::Api, Op::Ins(c)) => match cals.insert_measurement_calibration(w.mcal(c)) {
                    None => atom("none"),
                    Some(old) => nat(World::body_of(&old.instructions)),
                },
                (Route::Program, Op::Ins(c)) => {
                    let d = w.mcal(c);
                    let old = program.calibrations.measure_calibrations.get(&d.signature()).map(|o| World::body_of(&o.instructions));
                    program.add_instruction(Instruction::MeasureCalibrationDefinition(d));
                    old.map(nat).unwrap_or(atom("none"))
                }
                (_, Op::Rem(c)) => {
                    let d = w.mcal(c);
                    let set = if route == Route::Api { &mut cals.measure_calibrations } else { &mut program.calibrations.measure_calibrations };
                    boolean(set.remove(&d.signature()))
                }
                (Route::Api, Op::Ext(cs)) => {
                    cals.measure_calibrations.extend(cs.iter().map(|c| w.mcal(c)));
                    atom("none")
                }
                (Route::Program, Op::Ext(cs)) => {
                    program.add_instructions(cs.iter().map(|c| Instruction::MeasureCalibrationDefinition(w.mcal(c))));
                    atom("none")
                }
                (Route::Api, Op::ExtFrom(cs)) => {
                    let other = Calibrations {
                        calibrations: Default::default(),
                        measure_calibrations: CalibrationSet::from(cs.iter().map(|c| w.mcal(c)).collect::<Vec<_>>()),
                    };
                    cals.extend(other);
                    atom("none")
                }
                (Route::Program, Op::ExtFrom(cs)) => {
                    let other = Program::from_instructions(cs.iter().map(|c| Instruction::MeasureCalibrationDefinition(w.mcal(c))).collect());
                    if k % 2 == 0 {
                        program += other;
                    } else {
                        program = program.clone() + other;
                    }
                    atom("none")
                }
            };
            let cur = if route == Route::Api { &cals } else { &program.calibrations };
            steps.push(tagged("step", vec![ret, list(cur.iter_measure_calibrations().map(|c| w.enc_mcal(c)).collect())]));
        }
        let cals = if route == Route::Api { &cals } else { &program.calibrations };
        let mut answers = Vec::new();
        let mut expansions = Vec::new();
        for m in queries {
            let meas = w.meas(m);
            let found = cals.get_match_for_measurement(&meas);
            answers.push(answer_index(found, cals.iter_measure_calibrations()));
            let winner = found.map(|c| CalibrationSource::MeasureCalibration(c.identifier.clone()));
            expansions.push(expand_both(cals, &Instruction::Measurement(meas), winner));
        }
        let mut gets = Vec::new();
        for op in ops {
            let cs: Vec<&MCalSpec> = match op {
                Op::Ins(c) | Op::Rem(c) => vec![c],
                Op::Ext(cs) | Op::ExtFrom(cs) => cs.iter().take(4).collect(),
            };
            for c in cs {
                let d = w.mcal(c);
                gets.push(match cals.measure_calibrations.get(&d.signature()) {
                    None => atom("none"),
                    Some(x) => nat(World::body_of(&x.instructions)),
                });
            }
        }
        tagged("out", vec![tagged("steps", steps), tagged("ans", answers), tagged("exp", expansions), tagged("gets", gets)])
    });
}

fn q_text(q: &Q) -> String {
    match q {
        Q::F(n) => n.to_string(),
        Q::V(s) => s.to_string(),
        Q::P(_) => unreachable!("no placeholders in program text"),
    }
}

fn mods_text(mods: &[GateModifier]) -> String {
    mods.iter()
        .map(|m| match m {
            GateModifier::Controlled => "CONTROLLED ",
            GateModifier::Dagger => "DAGGER ",
            GateModifier::Forked => "FORKED ",
        })
        .collect()
}

fn params_text(params: &[usize]) -> String {
    if params.is_empty() {
        String::new()
    } else {
        format!("({})", params.iter().map(|&i| PARAMS[i]).collect::<Vec<_>>().join(", "))
    }
}

/// End to end: program text -> parser -> `Program::add_instruction` -> `expand_calibrations`.
fn prog_gate_case(ctx: &mut Ctx, w: &World, cals: &[CalSpec], g: &GateSpec) {
    let ops: Vec<Op<CalSpec>> = cals.iter().cloned().map(Op::Ins).collect();
    let input = tagged("proggate", vec![enc_ops(&ops, |c| w.enc_cal(&w.cal(c))), w.enc_gate(&w.gate(g))]);
    ctx.case(input, || {
        let mut text = String::new();
        for c in cals {
            text.push_str(&format!(
                "DEFCAL {}{}{}{}:\n    PRAGMA B{}\n",
                mods_text(&c.mods),
                c.name,
                params_text(&c.params),
                c.qubits.iter().map(|q| format!(" {}", q_text(q))).collect::<String>(),
                c.body
            ));
        }
        text.push_str(&format!(
            "{}{}{}{}\n",
            mods_text(&g.mods),
            g.name,
            params_text(&g.params),
            g.qubits.iter().map(|q| format!(" {}", q_text(q))).collect::<String>()
        ));
        prog_outcome(&text, |i| matches!(i, Instruction::Gate(_)))
    });
}

fn prog_meas_case(ctx: &mut Ctx, w: &World, cals: &[MCalSpec], m: &MeasSpec) {
    let ops: Vec<Op<MCalSpec>> = cals.iter().cloned().map(Op::Ins).collect();
    let input = tagged("progmeas", vec![enc_ops(&ops, |c| w.enc_mcal(&w.mcal(c))), w.enc_meas(&w.meas(m))]);
    ctx.case(input, || {
        let mut text = String::from("DECLARE ro BIT[2]\n");
        for c in cals {
            text.push_str(&format!(
                "DEFCAL MEASURE{} {}{}:\n    PRAGMA B{}\n",
                c.name.map(|n| format!("!{n}")).unwrap_or_default(),
                q_text(&c.qubit),
                c.target.map(|t| format!(" {t}")).unwrap_or_default(),
                c.body
            ));
        }
        text.push_str(&format!(
            "MEASURE{} {}{}\n",
            m.name.map(|n| format!("!{n}")).unwrap_or_default(),
            q_text(&m.qubit),
            m.target.map(|(n, i)| format!(" {n}[{i}]")).unwrap_or_default()
        ));
        prog_outcome(&text, |i| matches!(i, Instruction::Measurement(_)))
    });
}

fn prog_outcome(text: &str, is_query: impl Fn(&Instruction) -> bool) -> Sexp {
    let program = match Program::from_str(text) {
        Ok(p) => p,
        Err(e) => {
            let _ = format!("{e} {e:?}");
            return tagged("parseerr", vec![st(text)]);
        }
    };
    let expanded = match program.expand_calibrations() {
        Ok(p) => p,
        Err(e) => {
            let _ = format!("{e} {e:?}");
            return tagged("expanderr", vec![]);
        }
    };
    // sibling entry point: the source-map variant must produce the same program
    match program.expand_calibrations_with_source_map() {
        Ok((p2, _)) if p2 == expanded => {}
        _ => return tagged("routes-differ", vec![st(text)]),
    }
    let body: Vec<&Instruction> = expanded.body_instructions().collect();
    match body.as_slice() {
        [Instruction::Pragma(p)] if p.name.starts_with('B') => {
            tagged("body", vec![nat(p.name[1..].parse().unwrap_or(999_999))])
        }
        [i] if is_query(i) => tagged("unexpanded", vec![]),
        _ => tagged("odd", vec![st(text)]),
    }
}

// ---------------------------------------------------------------------------------------------
// enumeration helpers

/// all sequences over `alphabet` of length 0..=max_len
fn sequences<T: Clone>(alphabet: &[T], max_len: usize, f: &mut impl FnMut(&[T])) {
    fn rec<T: Clone>(alphabet: &[T], max_len: usize, cur: &mut Vec<T>, f: &mut impl FnMut(&[T])) {
        f(cur);
        if cur.len() == max_len {
            return;
        }
        for a in alphabet {
            cur.push(a.clone());
            rec(alphabet, max_len, cur, f);
            cur.pop();
        }
    }
    rec(alphabet, max_len, &mut Vec::new(), f);
}

fn number_bodies(cs: &[CalSpec]) -> Vec<Op<CalSpec>> {
    cs.iter().enumerate().map(|(i, c)| Op::Ins(CalSpec { body: i as u64, ..c.clone() })).collect()
}
fn number_mbodies(cs: &[MCalSpec]) -> Vec<Op<MCalSpec>> {
    cs.iter().enumerate().map(|(i, c)| Op::Ins(MCalSpec { body: i as u64, ..c.clone() })).collect()
}

fn cal(name: &'static str, mods: &[GateModifier], params: &[usize], qubits: &[Q]) -> CalSpec {
    CalSpec { name, mods: mods.to_vec(), params: params.to_vec(), qubits: qubits.to_vec(), body: 0 }
}
fn gate(name: &'static str, mods: &[GateModifier], params: &[usize], qubits: &[Q]) -> GateSpec {
    GateSpec { name, mods: mods.to_vec(), params: params.to_vec(), qubits: qubits.to_vec() }
}

const D: GateModifier = GateModifier::Dagger;
const C: GateModifier = GateModifier::Controlled;


fn main() {
    main_with(run)
}

fn run(ctx: &mut Ctx) {
    let w = World { table: ParamTable::new(), placeholders: vec![QubitPlaceholder::default(), QubitPlaceholder::default()] };
    let quick = ctx.quick();
    let q01v = [Q::F(0), Q::F(1), Q::V("q")];

    // ---- 0. the parameter classes used by every other case are independent of `Expression::eq`; this case
    // reports every pair of the alphabet on which `Expression::eq` disagrees with the structural key ----------
    ctx.case(tagged("sanity", vec![atom("expression-eq-vs-structural-key")]), || tagged("bad", w.table.sanity()));

    // ---- 1. corpus: the precedence snapshots of the test-suite and hand-written witnesses -------------
    {
        // Calibration-Param-Precedence: RX(%theta) %qubit / RX(%theta) 0 / RX(pi/2) 0
        let hist = number_bodies(&[cal("RX", &[], &[3], &[Q::V("qubit")]), cal("RX", &[], &[3], &[Q::F(0)]), cal("RX", &[], &[1], &[Q::F(0)])]);
        let qs = [gate("RX", &[], &[1], &[Q::F(1)]), gate("RX", &[], &[6], &[Q::F(0)]), gate("RX", &[], &[1], &[Q::F(0)]),
                  gate("RX", &[], &[2], &[Q::F(0)]), gate("RX", &[], &[3], &[Q::F(0)]), gate("RX", &[], &[1], &[Q::V("q")])];
        gate_case(ctx, &w, &hist, &qs);
        // ties go to the later definition; a redefinition keeps its place
        let hist = vec![
            Op::Ins(CalSpec { body: 0, ..cal("A", &[], &[], &[Q::F(0), Q::V("q")]) }),
            Op::Ins(CalSpec { body: 1, ..cal("A", &[], &[], &[Q::V("q"), Q::F(1)]) }),
            Op::Ins(CalSpec { body: 2, ..cal("A", &[], &[], &[Q::F(0), Q::V("q")]) }),
            Op::Ins(CalSpec { body: 3, ..cal("A", &[], &[], &[Q::F(0), Q::V("r")]) }),
            Op::Rem(cal("A", &[], &[], &[Q::V("q"), Q::F(1)])),
            Op::Ext(vec![CalSpec { body: 4, ..cal("A", &[], &[], &[Q::F(0), Q::F(1)]) }, CalSpec { body: 5, ..cal("A", &[], &[], &[Q::F(0), Q::V("q")]) }]),
        ];
        let qs = [gate("A", &[], &[], &[Q::F(0), Q::F(1)]), gate("A", &[], &[], &[Q::F(0), Q::F(2)]), gate("A", &[], &[], &[Q::F(1), Q::F(1)]),
                  gate("A", &[], &[], &[Q::F(0), Q::P(0)]), gate("A", &[], &[], &[Q::F(0), Q::V("z")]), gate("A", &[D], &[], &[Q::F(0), Q::F(1)])];
        gate_case(ctx, &w, &hist, &qs);
        // NON-ADJACENT redefinition combined with a tie: A(0,q) ; A(q,1) [same precedence for `A 0 1`] ; A(0,q) again.
        // In place: the redefinition stays at position 0, so the later definition A(q,1) still wins the tie.
        let redefinition = [
            CalSpec { body: 0, ..cal("A", &[], &[], &[Q::F(0), Q::V("q")]) },
            CalSpec { body: 1, ..cal("A", &[], &[], &[Q::V("q"), Q::F(1)]) },
            CalSpec { body: 2, ..cal("A", &[], &[], &[Q::F(0), Q::V("q")]) },
        ];
        let hist: Vec<Op<CalSpec>> = redefinition.iter().cloned().map(Op::Ins).collect();
        gate_case(ctx, &w, &hist, &[gate("A", &[], &[], &[Q::F(0), Q::F(1)]), gate("A", &[], &[], &[Q::F(0), Q::F(2)])]);
        prog_gate_case(ctx, &w, &redefinition, &gate("A", &[], &[], &[Q::F(0), Q::F(1)]));
        let mredefinition = [
            MCalSpec { name: None, qubit: Q::F(0), target: Some("addr"), body: 0 },
            MCalSpec { name: None, qubit: Q::F(0), target: Some("other"), body: 1 },
            MCalSpec { name: None, qubit: Q::F(0), target: Some("addr"), body: 2 },
        ];
        let mhist: Vec<Op<MCalSpec>> = mredefinition.iter().cloned().map(Op::Ins).collect();
        meas_case(ctx, &w, &mhist, &[MeasSpec { name: None, qubit: Q::F(0), target: Some(("ro", 0)) }]);
        prog_meas_case(ctx, &w, &mredefinition, &MeasSpec { name: None, qubit: Q::F(0), target: Some(("ro", 0)) });
        // signatures compare raw expressions: pi/2 and 1.5707963267948966 are different signatures but match alike
        let hist = number_bodies(&[cal("A", &[], &[1], &[Q::F(0)]), cal("A", &[], &[2], &[Q::F(0)]), cal("A", &[], &[1], &[Q::F(0)]),
                                   cal("A", &[], &[9], &[Q::F(0)]), cal("A", &[], &[3], &[Q::F(0)])]);
        let qs: Vec<GateSpec> = (0..PARAMS.len()).map(|p| gate("A", &[], &[p], &[Q::F(0)])).collect();
        gate_case(ctx, &w, &hist, &qs);
        // placeholders never match
        let hist = number_bodies(&[cal("A", &[], &[], &[Q::P(0)]), cal("A", &[], &[], &[Q::V("q")])]);
        let qs = [gate("A", &[], &[], &[Q::P(0)]), gate("A", &[], &[], &[Q::P(1)]), gate("A", &[], &[], &[Q::F(0)])];
        gate_case(ctx, &w, &hist, &qs);
        // Precedence-Fixed-Match / Precedence-Variable-Match / Measure-Calibration snapshots
        let m = |name, qubit, target| MCalSpec { name, qubit, target, body: 0 };
        let hist = number_mbodies(&[m(None, Q::V("q"), None), m(None, Q::V("b"), Some("addr")), m(None, Q::F(0), Some("addr")),
                                    m(None, Q::F(0), Some("addr")), m(None, Q::V("q"), Some("addr")), m(None, Q::F(1), Some("addr"))]);
        let qs = [MeasSpec { name: None, qubit: Q::F(0), target: Some(("ro", 0)) }, MeasSpec { name: None, qubit: Q::F(2), target: Some(("ro", 0)) },
                  MeasSpec { name: None, qubit: Q::F(0), target: None }, MeasSpec { name: Some("midcircuit"), qubit: Q::F(0), target: None },
                  MeasSpec { name: None, qubit: Q::P(0), target: Some(("ro", 1)) }, MeasSpec { name: None, qubit: Q::V("x"), target: Some(("ro", 1)) }];
        meas_case(ctx, &w, &hist, &qs);
        let hist = number_mbodies(&[m(None, Q::F(0), Some("addr")), m(None, Q::F(0), Some("other")), m(None, Q::V("q"), Some("addr"))]);
        meas_case(ctx, &w, &hist, &qs);
        for g in &[gate("RX", &[], &[1], &[Q::F(0)]), gate("RX", &[], &[6], &[Q::F(0)]), gate("RX", &[], &[1], &[Q::F(1)]), gate("RY", &[], &[1], &[Q::F(1)])] {
            prog_gate_case(ctx, &w, &[cal("RX", &[], &[3], &[Q::V("qubit")]), CalSpec { body: 1, ..cal("RX", &[], &[3], &[Q::F(0)]) },
                                      CalSpec { body: 2, ..cal("RX", &[], &[1], &[Q::F(0)]) }], g);
        }
    }

    // ---- 2. exhaustive small alphabets --------------------------------------------------------------
    // 2a. one-qubit patterns x modifiers: insertion histories of length <= 4 (signatures repeat), all gates
    {
        let mut alphabet = Vec::new();
        for mods in [&[][..], &[D][..]] {
            for q in &q01v {
                alphabet.push(cal("A", mods, &[], &[q.clone()]));
            }
        }
        let mut queries = Vec::new();
        for mods in [&[][..], &[D][..]] {
            for q in [Q::F(0), Q::F(1), Q::F(2), Q::V("q"), Q::P(0)] {
                queries.push(gate("A", mods, &[], &[q]));
            }
        }
        queries.push(gate("B", &[], &[], &[Q::F(0)]));
        queries.push(gate("A", &[], &[], &[Q::F(0), Q::F(1)]));
        queries.push(gate("A", &[], &[0], &[Q::F(0)]));
        sequences(&alphabet, if quick { 3 } else { 4 }, &mut |cs| {
            gate_case(ctx, &w, &number_bodies(cs), &queries);
            // the same history through Program::add_instruction; the last definition arrives by `+` / `+=`
            let mut ops = number_bodies(cs);
            if let Some(Op::Ins(last)) = ops.pop() {
                ops.push(Op::ExtFrom(vec![last]));
            }
            gate_case_route(ctx, &w, &ops, &queries, Route::Program);
        });
    }
    // 2b. two-qubit patterns {0,1,q}^2: fixed-count precedence and ties
    {
        let mut alphabet = Vec::new();
        for a in &q01v {
            for b in &q01v {
                alphabet.push(cal("A", &[], &[], &[a.clone(), b.clone()]));
            }
        }
        let mut queries = Vec::new();
        for a in [Q::F(0), Q::F(1), Q::V("q")] {
            for b in [Q::F(0), Q::F(1), Q::F(2)] {
                queries.push(gate("A", &[], &[], &[a.clone(), b]));
            }
        }
        sequences(&alphabet, if quick { 3 } else { 4 }, &mut |cs| gate_case(ctx, &w, &number_bodies(cs), &queries));
    }
    // 2c. parameter patterns {1.0, pi/2, 1.5707963267948966, %t} x qubit {0, q}
    {
        let mut alphabet = Vec::new();
        for p in [0usize, 1, 2, 3] {
            for q in [Q::F(0), Q::V("q")] {
                alphabet.push(cal("A", &[], &[p], &[q]));
            }
        }
        let mut queries = Vec::new();
        for p in [0usize, 1, 2, 3, 5, 9] {
            for q in [Q::F(0), Q::F(1)] {
                queries.push(gate("A", &[], &[p], &[q]));
            }
        }
        queries.push(gate("A", &[], &[], &[Q::F(0)]));
        sequences(&alphabet, if quick { 3 } else { 4 }, &mut |cs| gate_case(ctx, &w, &number_bodies(cs), &queries));
    }
    // 2d. measurement calibrations: name x qubit x target, histories of length <= 3 (quick) / 4
    {
        let mut alphabet = Vec::new();
        for name in [None, Some("m")] {
            for q in &q01v {
                for target in [None, Some("addr"), Some("other")] {
                    alphabet.push(MCalSpec { name, qubit: q.clone(), target, body: 0 });
                }
            }
        }
        let mut queries = Vec::new();
        for name in [None, Some("m")] {
            for q in [Q::F(0), Q::F(1), Q::F(2), Q::V("q"), Q::P(0)] {
                for target in [None, Some(("ro", 0))] {
                    queries.push(MeasSpec { name, qubit: q.clone(), target });
                }
            }
        }
        // keep the quick tier small: names only vary in the thorough tier
        let alpha: Vec<MCalSpec> = if quick { alphabet.iter().filter(|c| c.name.is_none()).cloned().collect() } else { alphabet };
        sequences(&alpha, if quick { 3 } else { 4 }, &mut |cs| {
            meas_case(ctx, &w, &number_mbodies(cs), &queries);
            if cs.len() <= 3 {
                let mut ops = number_mbodies(cs);
                if let Some(Op::Ins(last)) = ops.pop() {
                    ops.push(Op::ExtFrom(vec![last]));
                }
                meas_case_route(ctx, &w, &ops, &queries, Route::Program);
            }
        });
    }

    // 2e. near-identical identifiers: only the modifier list (incl. its LENGTH), the spelling vs value of the
    // parameter (pi/2, 1.5707963267948966, 2*pi/4, %t) or the kind of the qubit (fixed / two variables / placeholder)
    // differs; all ordered pairs (quick: pairs within a 32-element sub-pool), both routes
    {
        let mut pool = Vec::new();
        for mods in [&[][..], &[D][..], &[D, D][..], &[C][..], &[D, C][..], &[C, D][..]] {
            for p in [1usize, 2, 14, 3, 15] {
                for q in [Q::F(0), Q::V("q"), Q::V("r"), Q::P(0)] {
                    pool.push(cal("A", mods, &[p], &[q]));
                }
            }
        }
        let mut queries = Vec::new();
        for mods in [&[][..], &[D][..], &[D, D][..], &[D, C][..]] {
            for p in [1usize, 2, 14, 0, 15] {
                queries.push(gate("A", mods, &[p], &[Q::F(0)]));
            }
        }
        queries.push(gate("A", &[D], &[1], &[Q::P(0)]));
        queries.push(gate("A", &[], &[14], &[Q::V("q")]));
        let sub: Vec<CalSpec> = if quick { pool.iter().step_by(3).cloned().collect() } else { pool.clone() };
        for (i, a) in sub.iter().enumerate() {
            for (j, b) in sub.iter().enumerate() {
                let hist = number_bodies(&[a.clone(), b.clone(), a.clone()]);
                if (i + j) % 2 == 0 {
                    gate_case(ctx, &w, &hist, &queries);
                } else {
                    gate_case_route(ctx, &w, &hist, &queries, Route::Program);
                }
            }
        }
    }

    // ---- 3. seeded random: the full alphabet, longer histories with remove/extend, placeholders ---------
    let names = ["A", "B"];
    let modsets: [&[GateModifier]; 6] = [&[], &[D], &[C], &[D, C], &[C, D], &[D, D]];
    let qpool = [Q::F(0), Q::F(1), Q::F(2), Q::V("q"), Q::V("r"), Q::P(0), Q::P(1)];
    let mut rng = ctx.rng(16);
    let n_random = if quick { 6000 } else { 300_000 };
    let rand_cal = |rng: &mut Rng, body: u64| {
        let nq = rng.below(3) as usize + if rng.chance(1, 6) { 0 } else { 1 }; // 0..3, mostly 1..3
        let nq = nq.min(3);
        let np = if rng.chance(1, 2) { 0 } else { 1 + rng.below(2) as usize };
        CalSpec {
            name: names[biased!(rng, 4, 5, 1, 2) as usize],
            mods: modsets[if rng.chance(2, 3) { 0 } else { rng.below(5) as usize }].to_vec(),
            params: (0..np).map(|_| rng.below(PARAMS.len() as u64) as usize).collect(),
            qubits: (0..nq).map(|_| qpool[biased!(rng, 9, 10, 5, 7) as usize].clone()).collect(),
            body,
        }
    };
    for _ in 0..n_random {
        // a base shape shared by most definitions of the case, so that several of them match one gate
        let base = rand_cal(&mut rng, 0);
        let n_ops = 1 + rng.below(8) as usize;
        let mut body = 0;
        let mut fresh = |rng: &mut Rng| {
            body += 1;
            if rng.chance(1, 5) {
                rand_cal(rng, body)
            } else {
                let mut c = base.clone();
                c.body = body;
                for q in c.qubits.iter_mut() {
                    if rng.chance(1, 2) {
                        *q = qpool[biased!(rng, 9, 10, 5, 7) as usize].clone();
                    }
                }
                for p in c.params.iter_mut() {
                    if rng.chance(1, 2) {
                        *p = [0usize, 1, 2, 3, 3, 4, 9, 5][rng.below(8) as usize];
                    }
                }
                if rng.chance(1, 10) {
                    c.mods = modsets[rng.below(6) as usize].to_vec();
                }
                c
            }
        };
        let mut ops: Vec<Op<CalSpec>> = Vec::new();
        let mut seen: Vec<CalSpec> = Vec::new();
        for _ in 0..n_ops {
            let r = rng.below(10);
            if r < 7 || seen.is_empty() {
                // one time in three re-insert an earlier signature with a new body (a redefinition)
                let c = if !seen.is_empty() && rng.chance(1, 3) {
                    let mut c = rng.pick(&seen).clone();
                    c.body = fresh(&mut rng).body;
                    c
                } else {
                    fresh(&mut rng)
                };
                seen.push(c.clone());
                ops.push(Op::Ins(c));
            } else if r < 8 {
                ops.push(Op::Rem(rng.pick(&seen).clone()));
            } else {
                let k = 1 + rng.below(3) as usize;
                let cs: Vec<CalSpec> = (0..k)
                    .map(|_| {
                        if rng.chance(1, 2) {
                            let mut c = rng.pick(&seen).clone();
                            c.body = fresh(&mut rng).body;
                            c
                        } else {
                            fresh(&mut rng)
                        }
                    })
                    .collect();
                seen.extend(cs.iter().cloned());
                ops.push(if rng.chance(1, 2) { Op::Ext(cs) } else { Op::ExtFrom(cs) });
            }
        }
        // queries: instances of the definitions seen (variables replaced by fixed qubits, variable params by
        // literals) and perturbations of them
        let mut queries = Vec::new();
        for _ in 0..10 {
            let c = rng.pick(&seen).clone();
            let mut g = GateSpec { name: c.name, mods: c.mods.clone(), params: c.params.clone(), qubits: c.qubits.clone() };
            for q in g.qubits.iter_mut() {
                if matches!(q, Q::V(_)) && rng.chance(4, 5) || rng.chance(1, 8) {
                    *q = qpool[biased!(rng, 9, 10, 3, 7) as usize].clone();
                }
            }
            for p in g.params.iter_mut() {
                if rng.chance(1, 3) {
                    *p = rng.below(PARAMS.len() as u64) as usize;
                }
            }
            if rng.chance(1, 12) {
                g.mods = modsets[rng.below(6) as usize].to_vec();
            }
            if rng.chance(1, 15) {
                g.qubits.push(Q::F(0));
            }
            if rng.chance(1, 15) {
                g.params.push(0);
            }
            if rng.chance(1, 20) {
                g.name = "B";
            }
            queries.push(g);
        }
        let route = if rng.chance(1, 3) { Route::Program } else { Route::Api };
        gate_case_route(ctx, &w, &ops, &queries, route);
    }
    // random measurement histories
    let mnames = [None, Some("m")];
    let mtargets = [None, Some("addr"), Some("other")];
    let rand_mcal = |rng: &mut Rng, body: u64| MCalSpec {
        name: mnames[biased!(rng, 3, 4, 1, 2) as usize],
        qubit: qpool[biased!(rng, 9, 10, 5, 7) as usize].clone(),
        target: mtargets[rng.below(3) as usize],
        body,
    };
    for _ in 0..n_random / 2 {
        let n_ops = 1 + rng.below(9) as usize;
        let mut ops: Vec<Op<MCalSpec>> = Vec::new();
        let mut seen: Vec<MCalSpec> = Vec::new();
        for b in 0..n_ops {
            let r = rng.below(10);
            if r < 8 || seen.is_empty() {
                let c = rand_mcal(&mut rng, b as u64);
                seen.push(c.clone());
                ops.push(Op::Ins(c));
            } else if r < 9 {
                ops.push(Op::Rem(rng.pick(&seen).clone()));
            } else {
                let cs: Vec<MCalSpec> = (0..2).map(|k| rand_mcal(&mut rng, 100 + (b * 2 + k) as u64)).collect();
                seen.extend(cs.iter().cloned());
                ops.push(if rng.chance(1, 2) { Op::Ext(cs) } else { Op::ExtFrom(cs) });
            }
        }
        let mut queries = Vec::new();
        for _ in 0..8 {
            queries.push(MeasSpec {
                name: mnames[biased!(rng, 3, 4, 1, 2) as usize],
                qubit: qpool[biased!(rng, 9, 10, 4, 7) as usize].clone(),
                target: if rng.chance(1, 2) { None } else { Some(("ro", rng.below(2))) },
            });
        }
        let route = if rng.chance(1, 3) { Route::Program } else { Route::Api };
        meas_case_route(ctx, &w, &ops, &queries, route);
    }
    // ---- 4. end to end through the parser and Program::expand_calibrations ---------------------------
    let tqpool = [Q::F(0), Q::F(1), Q::V("q"), Q::V("r")];
    for _ in 0..(if quick { 1500 } else { 40_000 }) {
        let n = 1 + rng.below(5) as usize;
        let nq = 1 + rng.below(2) as usize;
        let np = rng.below(2) as usize;
        let mods = modsets[if rng.chance(2, 3) { 0 } else { rng.below(5) as usize }];
        let cals: Vec<CalSpec> = (0..n)
            .map(|b| CalSpec {
                name: "A",
                mods: if rng.chance(1, 8) { modsets[rng.below(6) as usize].to_vec() } else { mods.to_vec() },
                params: (0..np).map(|_| [0usize, 1, 2, 3, 5, 9][rng.below(6) as usize]).collect(),
                qubits: (0..nq).map(|_| tqpool[rng.below(4) as usize].clone()).collect(),
                body: b as u64,
            })
            .collect();
        let g = GateSpec {
            name: "A",
            mods: mods.to_vec(),
            params: (0..np).map(|_| [0usize, 1, 2, 3, 5][rng.below(5) as usize]).collect(),
            qubits: (0..nq).map(|_| tqpool[rng.below(3) as usize].clone()).collect(),
        };
        prog_gate_case(ctx, &w, &cals, &g);
        let mcals: Vec<MCalSpec> = (0..n)
            .map(|b| MCalSpec {
                name: if rng.chance(1, 6) { Some("m") } else { None },
                qubit: tqpool[rng.below(4) as usize].clone(),
                target: mtargets[rng.below(3) as usize],
                body: b as u64,
            })
            .collect();
        let m = MeasSpec {
            name: if rng.chance(1, 6) { Some("m") } else { None },
            qubit: tqpool[rng.below(2) as usize].clone(),
            target: if rng.chance(1, 2) { None } else { Some(("ro", rng.below(2))) },
        };
        prog_meas_case(ctx, &w, &mcals, &m);
    }

    // ---- 5. LARGE sets: 64 / 128 / 256 / 512 definitions in shuffled order, dozens of them matching the same
    // gate with equal fixed-qubit counts (a lookup that is only right for small sets is wrong here) ----------
    {
        let pset = [0usize, 5, 3, 4]; // 1.0, 2.0, %t, %s
        let qset = [Q::F(0), Q::F(1), Q::V("q"), Q::V("r")];
        let mut sigs2: Vec<CalSpec> = Vec::new(); // all 256 signatures of G(p, p') q q'
        for &a in &pset {
            for &b in &pset {
                for x in &qset {
                    for y in &qset {
                        sigs2.push(cal("G", &[], &[a, b], &[x.clone(), y.clone()]));
                    }
                }
            }
        }
        let mut sigs3: Vec<CalSpec> = Vec::new(); // 512: a third qubit from {0, s}
        for c in &sigs2 {
            for z in [Q::F(0), Q::V("s")] {
                let mut d = c.clone();
                d.qubits.push(z);
                sigs3.push(d);
            }
        }
        let mut queries2: Vec<GateSpec> = Vec::new();
        let mut queries3: Vec<GateSpec> = Vec::new();
        for a in [0usize, 5, 6] {
            for b in [0usize, 5, 6] {
                for x in [Q::F(0), Q::F(1), Q::F(2)] {
                    for y in [Q::F(0), Q::F(1), Q::F(2)] {
                        queries2.push(gate("G", &[], &[a, b], &[x.clone(), y.clone()]));
                        queries3.push(gate("G", &[], &[a, b], &[x.clone(), y.clone(), Q::F(0)]));
                    }
                }
            }
        }
        let shuffle = |rng: &mut Rng, n: usize| -> Vec<usize> {
            let mut order: Vec<usize> = (0..n).collect();
            for i in (1..n).rev() {
                let j = rng.below(i as u64 + 1) as usize;
                order.swap(i, j);
            }
            order
        };
        let n_big = if quick { 120 } else { 4000 };
        let n_queries = if quick { 10 } else { 27 };
        for k in 0..n_big {
            let size = [64usize, 128, 256, 512][k % 4];
            let (pool, qs) = if size == 512 { (&sigs3, &queries3) } else { (&sigs2, &queries2) };
            let order = shuffle(&mut rng, pool.len());
            let defs: Vec<CalSpec> =
                order[..size].iter().enumerate().map(|(b, &i)| CalSpec { body: b as u64, ..pool[i].clone() }).collect();
            // queries: mostly the ones with literal parameters 1.0 / 2.0 and qubits 0 / 1 (81 of the 256 signatures match)
            let queries: Vec<GateSpec> = (0..n_queries)
                .map(|_| {
                    let g = rng.pick(qs).clone();
                    if rng.chance(3, 4) {
                        let mut g = g;
                        for p in g.params.iter_mut() {
                            if *p == 6 {
                                *p = 0;
                            }
                        }
                        for q in g.qubits.iter_mut().take(2) {
                            if *q == Q::F(2) {
                                *q = Q::F(1);
                            }
                        }
                        g
                    } else {
                        g
                    }
                })
                .collect();
            let ops: Vec<Op<CalSpec>> =
                if size == 64 && k % 8 == 0 { defs.iter().cloned().map(Op::Ins).collect() } else { vec![Op::Ext(defs.clone())] };
            gate_case(ctx, &w, &ops, &queries);
            if size <= 256 && k % 3 == 0 {
                // the same through the parser and Program::expand_calibrations
                prog_gate_case(ctx, &w, &defs, &queries[0]);
            }
        }
        // large measurement-calibration sets: qubit {0, 1, q, r} x 65 targets (64 names + none)
        let tnames: Vec<&'static str> = (0..64).map(|i| &*Box::leak(format!("t{i}").into_boxed_str())).collect();
        let mut msigs: Vec<MCalSpec> = Vec::new();
        for q in &qset {
            msigs.push(MCalSpec { name: None, qubit: q.clone(), target: None, body: 0 });
            for t in &tnames {
                msigs.push(MCalSpec { name: None, qubit: q.clone(), target: Some(t), body: 0 });
            }
        }
        let mut mqueries = Vec::new();
        for q in [Q::F(0), Q::F(1), Q::F(2), Q::V("x")] {
            for target in [None, Some(("ro", 0))] {
                mqueries.push(MeasSpec { name: None, qubit: q.clone(), target });
            }
        }
        for k in 0..n_big / 2 {
            let size = [64usize, 128, 260][k % 3];
            let order = shuffle(&mut rng, msigs.len());
            let defs: Vec<MCalSpec> =
                order[..size].iter().enumerate().map(|(b, &i)| MCalSpec { body: b as u64, ..msigs[i].clone() }).collect();
            meas_case(ctx, &w, &[Op::Ext(defs.clone())], &mqueries);
            if k % 4 == 0 {
                prog_meas_case(ctx, &w, &defs, &mqueries[1]);
            }
        }
    }
}
