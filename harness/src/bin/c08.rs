//! C08 — serialization is deterministic and keeps definition order.
//!
//! Input: `(hist (<projected instruction>…) (cuts n…))`. The real code builds the program nine times:
//! `from_instructions` (reference), two more fresh `from_instructions`, an `add_instruction` loop,
//! the history cut at `cuts` and concatenated with `+=`, the same with `+`, one program per
//! instruction concatenated, `from_str` of the joined text, `From<Vec>` — and once more in a CHILD
//! PROCESS (fresh hash seeds, fresh allocator state) from the instruction texts. Output: the
//! reference listing and text, whether each other build's text is byte-identical, the child's
//! verdict, and the listing of the concatenation route.
use qvh::progwire::{parse_one, pool_or_exit, Pool, Proj};
use qvh::*;
use quil_rs::instruction::{
    Arithmetic, ArithmeticOperand, ArithmeticOperator, CalibrationSignature, Declaration, DefaultHandler, FrameIdentifier,
    Instruction, JumpWhen, Label, MemoryReference, Move, ScalarType, Target, Vector,
};
use quil_rs::quil::Quil;
use std::collections::HashSet;
use quil_rs::Program;
use std::str::FromStr;
use std::time::Duration;

fn chunks<'a>(is: &'a [Instruction], cuts: &[usize]) -> Vec<&'a [Instruction]> {
    let mut out = Vec::new();
    let mut start = 0;
    for &c in cuts {
        let c = c.min(is.len()).max(start);
        out.push(&is[start..c]);
        start = c;
    }
    out.push(&is[start..]);
    out
}

fn concat_assign(is: &[Instruction], cuts: &[usize]) -> Program {
    let mut it = chunks(is, cuts).into_iter();
    let mut p = Program::from_instructions(it.next().unwrap().to_vec());
    for c in it {
        p += Program::from_instructions(c.to_vec());
    }
    p
}

fn concat_add(is: &[Instruction], cuts: &[usize]) -> Program {
    let mut it = chunks(is, cuts).into_iter();
    let mut p = Program::from_instructions(it.next().unwrap().to_vec());
    for c in it {
        p = p + Program::from_instructions(c.to_vec());
    }
    p
}

fn texts_of(is: &[Instruction]) -> Vec<String> {
    is.iter().map(|i| i.to_quil().expect("printable")).collect()
}

// ---------------------------------------------------------------------------------------------
// derived programs: program-PRODUCING operations applied to built programs
// ---------------------------------------------------------------------------------------------

/// A producing operation, parameters only (what the child process needs to repeat it).
#[derive(Clone, Debug)]
enum DSpec {
    Simplify,
    /// `p.frames = p.frames.intersection(&{frames at these positions})`
    Intersect(Vec<usize>),
    Merge,
    CalExtend,
    ExtExtend,
    CalRemove(usize),
    McalRemove(usize),
    ExpCal(bool),
    ExpSeq(u8, bool),
    Clone,
    CloneWb,
    Wrap(u32),
    Resolve,
    /// `apply(a, p, q) + apply(b, q, p)`
    Sum(Box<DSpec>, Box<DSpec>),
}

fn spec_sexp(s: &DSpec) -> Sexp {
    match s {
        DSpec::Simplify => tagged("simplify", vec![]),
        DSpec::Intersect(ix) => tagged("intersect", ix.iter().map(|i| nat(*i as u64)).collect()),
        DSpec::Merge => tagged("merge", vec![]),
        DSpec::CalExtend => tagged("calExtend", vec![]),
        DSpec::ExtExtend => tagged("extExtend", vec![]),
        DSpec::CalRemove(i) => tagged("calRemove", vec![nat(*i as u64)]),
        DSpec::McalRemove(i) => tagged("mcalRemove", vec![nat(*i as u64)]),
        DSpec::ExpCal(m) => tagged("expCal", vec![boolean(*m)]),
        DSpec::ExpSeq(f, m) => tagged("expSeq", vec![nat(*f as u64), boolean(*m)]),
        DSpec::Clone => tagged("clone", vec![]),
        DSpec::CloneWb => tagged("cloneWb", vec![]),
        DSpec::Wrap(n) => tagged("wrap", vec![nat(*n as u64)]),
        DSpec::Resolve => tagged("resolve", vec![]),
        DSpec::Sum(a, b) => tagged("sum", vec![spec_sexp(a), spec_sexp(b)]),
    }
}

fn as_u64(x: &Sexp) -> Option<u64> {
    match x {
        Sexp::Atom(a) => a.parse().ok(),
        _ => None,
    }
}

fn spec_parse(x: &Sexp) -> Option<DSpec> {
    let Sexp::List(v) = x else { return None };
    let Sexp::Atom(t) = v.first()? else { return None };
    let b = |x: &Sexp| *x == atom("true");
    Some(match t.as_str() {
        "simplify" => DSpec::Simplify,
        "intersect" => DSpec::Intersect(v[1..].iter().map(|x| as_u64(x).map(|n| n as usize)).collect::<Option<_>>()?),
        "merge" => DSpec::Merge,
        "calExtend" => DSpec::CalExtend,
        "extExtend" => DSpec::ExtExtend,
        "calRemove" => DSpec::CalRemove(as_u64(v.get(1)?)? as usize),
        "mcalRemove" => DSpec::McalRemove(as_u64(v.get(1)?)? as usize),
        "expCal" => DSpec::ExpCal(b(v.get(1)?)),
        "expSeq" => DSpec::ExpSeq(as_u64(v.get(1)?)? as u8, b(v.get(2)?)),
        "clone" => DSpec::Clone,
        "cloneWb" => DSpec::CloneWb,
        "wrap" => DSpec::Wrap(as_u64(v.get(1)?)? as u32),
        "resolve" => DSpec::Resolve,
        "sum" => DSpec::Sum(Box::new(spec_parse(v.get(1)?)?), Box::new(spec_parse(v.get(2)?)?)),
        _ => return None,
    })
}

fn seq_filter(kind: u8) -> impl Fn(&str) -> bool {
    move |name: &str| match kind {
        0 => true,
        1 => false,
        _ => name.ends_with(|c: char| c.is_ascii_digit() && (c as u8) % 2 == 0),
    }
}

fn loop_ref() -> (MemoryReference, Target) {
    (MemoryReference { name: "loopn".to_string(), index: 0 }, Target::Fixed("loop-start".to_string()))
}

/// Apply a producing operation to the real program(s); `None` = the operation returned an error.
fn apply_spec(p: &Program, q: &Program, s: &DSpec) -> Option<Program> {
    Some(match s {
        DSpec::Simplify => p.simplify(&DefaultHandler).ok()?,
        DSpec::Intersect(ix) => {
            let keys: Vec<&FrameIdentifier> = p.frames.get_keys();
            // a FRESH HashSet per call (fresh hash seed), as a caller would build it
            let wanted: HashSet<FrameIdentifier> = ix.iter().filter_map(|i| keys.get(*i).map(|k| (*k).clone())).collect();
            let mut r = p.clone();
            r.frames = p.frames.intersection(&wanted);
            r
        }
        DSpec::Merge => {
            let mut r = p.clone();
            r.frames.merge(q.frames.clone());
            r
        }
        DSpec::CalExtend => {
            let mut r = p.clone();
            r.calibrations.extend(q.calibrations.clone());
            r
        }
        DSpec::ExtExtend => {
            let mut r = p.clone();
            r.extern_pragma_map.extend(q.extern_pragma_map.clone());
            r
        }
        DSpec::CalRemove(i) => {
            let mut r = p.clone();
            if let Some(c) = p.calibrations.calibrations.iter().nth(*i) {
                r.calibrations.calibrations.remove(&c.signature());
            }
            r
        }
        DSpec::McalRemove(i) => {
            let mut r = p.clone();
            if let Some(c) = p.calibrations.measure_calibrations.iter().nth(*i) {
                r.calibrations.measure_calibrations.remove(&c.signature());
            }
            r
        }
        DSpec::ExpCal(m) => {
            if *m {
                p.expand_calibrations_with_source_map().ok()?.0
            } else {
                p.expand_calibrations().ok()?
            }
        }
        DSpec::ExpSeq(f, m) => {
            if *m {
                p.expand_defgate_sequences_with_source_map(seq_filter(*f)).ok()?.0
            } else {
                p.clone().expand_defgate_sequences(seq_filter(*f)).ok()?
            }
        }
        DSpec::Clone => p.clone(),
        DSpec::CloneWb => p.clone_without_body_instructions(),
        DSpec::Wrap(n) => {
            let (r, t) = loop_ref();
            p.wrap_in_loop(r, t, *n)
        }
        DSpec::Resolve => {
            let mut r = p.clone();
            r.resolve_placeholders();
            r
        }
        DSpec::Sum(a, b) => apply_spec(p, q, a)? + apply_spec(q, p, b)?,
    })
}

fn keys_of(pr: &mut Proj, is: &[Instruction]) -> Sexp {
    // kept keys cross the wire as a SORTED set: the order of a derived container is the model's business
    let mut ks: Vec<String> = is.iter().map(|i| pr.kind_key(i).1).collect();
    ks.sort();
    list(ks.into_iter().map(st).collect())
}

fn expansion_output(p: &Program) -> Option<Vec<Instruction>> {
    let mut out = Vec::new();
    for i in p.body_instructions() {
        match p.calibrations.expand(i, &[]) {
            Ok(Some(v)) => out.extend(v),
            Ok(None) => out.push(i.clone()),
            Err(_) => return None,
        }
    }
    Some(out)
}

/// The operation in the model's vocabulary, with the opaque inputs read off the real run.
fn dop_sexp(p: &Program, q: &Program, s: &DSpec, pr: &mut Proj) -> Option<Sexp> {
    Some(match s {
        DSpec::Simplify => {
            let r = p.simplify(&DefaultHandler).ok()?;
            let out = expansion_output(p)?;
            let waves: Vec<Instruction> = Vec::new();
            let _ = waves;
            let mut wk: Vec<String> = r.waveforms.keys().cloned().collect();
            wk.sort();
            tagged(
                "simplify",
                vec![
                    pr.instrs(&out),
                    keys_of(pr, &r.frames.to_instructions()),
                    list(wk.into_iter().map(st).collect()),
                    keys_of(pr, &r.extern_pragma_map.to_instructions()),
                ],
            )
        }
        DSpec::Intersect(ix) => {
            let fr = p.frames.to_instructions();
            let kept: Vec<Instruction> = ix.iter().filter_map(|i| fr.get(*i).cloned()).collect();
            tagged("intersect", vec![keys_of(pr, &kept)])
        }
        DSpec::Merge => tagged("merge", vec![]),
        DSpec::CalExtend => tagged("calExtend", vec![]),
        DSpec::ExtExtend => tagged("extExtend", vec![]),
        DSpec::CalRemove(i) => match p.calibrations.calibrations.iter().nth(*i) {
            Some(c) => tagged("calRemove", vec![st(pr.kind_key(&Instruction::CalibrationDefinition(c.clone())).1)]),
            None => tagged("clone", vec![]),
        },
        DSpec::McalRemove(i) => match p.calibrations.measure_calibrations.iter().nth(*i) {
            Some(c) => tagged("mcalRemove", vec![st(pr.kind_key(&Instruction::MeasureCalibrationDefinition(c.clone())).1)]),
            None => tagged("clone", vec![]),
        },
        DSpec::ExpCal(_) => tagged("expCal", vec![pr.instrs(&expansion_output(p)?)]),
        DSpec::ExpSeq(..) => {
            let r = apply_spec(p, q, s)?;
            let kept: Vec<Instruction> = r.gate_definitions.values().cloned().map(Instruction::GateDefinition).collect();
            let body: Vec<Instruction> = r.body_instructions().cloned().collect();
            tagged("expSeq", vec![keys_of(pr, &kept), pr.instrs(&body)])
        }
        DSpec::Clone => tagged("clone", vec![]),
        DSpec::CloneWb => tagged("cloneWb", vec![]),
        DSpec::Wrap(n) => {
            let (r, t) = loop_ref();
            let hd = vec![
                Instruction::Declaration(Declaration {
                    name: r.name.clone(),
                    size: Vector { data_type: ScalarType::Integer, length: 1 },
                    sharing: None,
                }),
                Instruction::Move(Move { destination: r.clone(), source: ArithmeticOperand::LiteralInteger((*n).into()) }),
                Instruction::Label(Label { target: t.clone() }),
            ];
            let tl = vec![
                Instruction::Arithmetic(Arithmetic {
                    operator: ArithmeticOperator::Subtract,
                    destination: MemoryReference { name: r.name.clone(), index: 0 },
                    source: ArithmeticOperand::LiteralInteger(1),
                }),
                Instruction::JumpWhen(JumpWhen { target: t, condition: r }),
            ];
            tagged("wrap", vec![nat(*n as u64), pr.instrs(&hd), pr.instrs(&tl)])
        }
        DSpec::Resolve => {
            let r = apply_spec(p, q, s)?;
            let body: Vec<Instruction> = r.body_instructions().cloned().collect();
            tagged("resolve", vec![pr.instrs(&body)])
        }
        DSpec::Sum(a, b) => tagged("sum", vec![dop_sexp(p, q, a, pr)?, dop_sexp(q, p, b, pr)?]),
    })
}

const REPEATS: usize = 5;

fn observe_derived(pis: &[Instruction], qis: &[Instruction], spec: &DSpec, pr: &mut Proj, iso: Option<&mut Isolated>) -> (Sexp, Sexp) {
    let p = Program::from_instructions(pis.to_vec());
    let q = Program::from_instructions(qis.to_vec());
    let input_op = dop_sexp(&p, &q, spec, pr);
    let pin = pr.instrs(pis);
    let qin = pr.instrs(qis);
    let Some(op) = input_op else {
        // the operation is an error on this program: nothing is produced, nothing to order
        return (tagged("derived", vec![pin, qin, tagged("fail", vec![])]), tagged("dfail", vec![boolean(apply_spec(&p, &q, spec).is_none())]));
    };
    let input = tagged("derived", vec![pin, qin, op]);
    let reference = apply_spec(&p, &q, spec).expect("operation succeeded a moment ago");
    pr.check_map_keys(&reference);
    let text = reference.to_quil().expect("printable");
    // the same derivation again, each time on freshly built operands
    let mut same: Vec<Sexp> = Vec::new();
    for _ in 0..REPEATS {
        let p2 = Program::from_instructions(pis.to_vec());
        let q2 = Program::from_instructions(qis.to_vec());
        let t2 = apply_spec(&p2, &q2, spec).map(|r| r.to_quil().expect("printable"));
        same.push(boolean(t2.as_deref() == Some(text.as_str())));
    }
    // order-sensitive views of the derived frame set agree with each other
    let fr = reference.frames.to_instructions();
    let mut sib: Vec<Sexp> = Vec::new();
    if reference.frames.clone().into_instructions() != fr {
        sib.push(st("FrameSet::into_instructions = to_instructions"));
    }
    let via_keys: Vec<FrameIdentifier> = reference.frames.get_keys().into_iter().cloned().collect();
    let via_iter: Vec<FrameIdentifier> = reference.frames.iter().map(|(k, _)| k.clone()).collect();
    let via_instr: Vec<FrameIdentifier> = fr
        .iter()
        .filter_map(|i| if let Instruction::FrameDefinition(f) = i { Some(f.identifier.clone()) } else { None })
        .collect();
    if via_keys != via_iter || via_keys != via_instr {
        sib.push(st("FrameSet::get_keys = iter = to_instructions order"));
    }
    if reference.to_quil_or_debug() != text {
        sib.push(st("to_quil_or_debug = to_quil"));
    }
    let payload = tagged(
        "derived",
        vec![list(texts_of(pis).into_iter().map(st).collect()), list(texts_of(qis).into_iter().map(st).collect()), spec_sexp(spec)],
    );
    let child_same = match iso.map(|iso| iso.call(&payload)) {
        None => atom("skipped"),
        Some(Sexp::List(v)) if v.len() == 2 && v[0] == atom("text") => match &v[1] {
            Sexp::Str(t) => boolean(*t == text),
            _ => atom("garbled"),
        },
        Some(other) => other,
    };
    let (left, right) = match spec {
        DSpec::Sum(a, b) => (
            apply_spec(&p, &q, a).map(|r| r.to_instructions()).unwrap_or_default(),
            apply_spec(&q, &p, b).map(|r| r.to_instructions()).unwrap_or_default(),
        ),
        _ => (Vec::new(), Vec::new()),
    };
    let base = pr.pids(&p.to_instructions());
    let qbase = pr.pids(&q.to_instructions());
    let to = pr.pids(&reference.to_instructions());
    let l = pr.pids(&left);
    let r = pr.pids(&right);
    let new = pr.take_new();
    (
        input,
        tagged(
            "dout",
            vec![
                new,
                tagged("base", vec![base]),
                tagged("qbase", vec![qbase]),
                tagged("to", vec![to]),
                tagged("text", vec![st(text)]),
                tagged("same", same),
                tagged("child", vec![child_same]),
                tagged("left", vec![l]),
                tagged("right", vec![r]),
                pr.key_report(),
                tagged("sib", sib),
            ],
        ),
    )
}

fn emit_derived(ctx: &mut Ctx, iso: Option<&mut Isolated>, pis: &[Instruction], qis: &[Instruction], spec: &DSpec) {
    let mut pr = Proj::new();
    let r = std::panic::catch_unwind(std::panic::AssertUnwindSafe(|| observe_derived(pis, qis, spec, &mut pr, iso)));
    match r {
        Ok((input, out)) => ctx.case(input, move || out),
        Err(e) => {
            let msg = e.downcast_ref::<String>().cloned().or_else(|| e.downcast_ref::<&str>().map(|s| s.to_string()));
            ctx.case(tagged("derived", vec![atom("generation-panicked"), st(format!("{spec:?}"))]), move || panic!("{}", msg.unwrap_or_default()))
        }
    }
}

/// A base program for the derived stream: `n` (>= 8) definitions of EVERY kind with distinct keys
/// (plus a few redefinitions), and body instructions that use a random subset of the frames,
/// waveforms, externs, calibrations and sequence gates — so that `simplify` keeps some and drops some.
fn derived_base(rng: &mut Rng, salt: &str) -> Vec<Instruction> {
    let n = 8 + rng.below(5) as usize;
    let mut is: Vec<Instruction> = Vec::new();
    let name = |k: usize| -> String {
        // names in no particular alphabetical relation to their definition order
        const N: [&str; 12] = ["kilo", "alpha", "hotel", "delta", "lima", "bravo", "golf", "echo", "india", "charlie", "juliet", "foxtrot"];
        format!("{}{salt}", N[k % 12])
    };
    for k in 0..n {
        let nm = name(k);
        is.push(parse_one(&format!("DECLARE m{nm} INTEGER[{}]", k + 1)));
        is.push(parse_one(&format!("DEFFRAME {} \"{nm}\":\n\tDIRECTION: \"tx\"\n\tINITIAL-FREQUENCY: {}", 10 + k, k + 1)));
        is.push(parse_one(&format!("DEFWAVEFORM w{nm}:\n\t{}, 0.5", k + 1)));
        is.push(parse_one(&format!("PRAGMA EXTERN e{nm} \"INTEGER (x : INTEGER)\"")));
        is.push(parse_one(&format!("DEFCAL G{nm} {}:\n\tPULSE {} \"{nm}\" w{nm}\n\tX {}", 10 + k, 10 + k, 40 + k)));
        is.push(parse_one(&format!("DEFCAL MEASURE {} dst{nm}:\n\tX {}", 10 + k, 60 + k)));
        is.push(if k % 2 == 0 {
            parse_one(&format!("DEFGATE s{nm}{k} a AS SEQUENCE:\n\tX a\n\tZ a"))
        } else {
            parse_one(&format!("DEFGATE s{nm}{k}:\n\t1, 0\n\t0, 1"))
        });
        is.push(parse_one(&format!("DEFCIRCUIT c{nm} a:\n\tX a")));
    }
    // a few redefinitions (must stay in place)
    for _ in 0..rng.below(4) {
        let k = rng.below(n as u64) as usize;
        let nm = name(k);
        is.push(match rng.below(3) {
            0 => parse_one(&format!("DEFFRAME {} \"{nm}\":\n\tDIRECTION: \"rx\"", 10 + k)),
            1 => parse_one(&format!("DEFWAVEFORM w{nm}:\n\t0.25")),
            _ => parse_one(&format!("PRAGMA EXTERN e{nm} \"REAL (x : REAL)\"")),
        });
    }
    // body: uses a random subset
    for k in 0..n {
        let nm = name(k);
        if rng.chance(1, 2) {
            is.push(parse_one(&format!("PULSE {} \"{nm}\" w{nm}", 10 + k)));
        }
        if rng.chance(1, 3) {
            is.push(parse_one(&format!("CALL e{nm} m{nm}[0]")));
        }
        if rng.chance(1, 3) {
            is.push(parse_one(&format!("G{nm} {}", 10 + k)));
        }
        if rng.chance(1, 3) {
            is.push(parse_one(&format!("s{nm}{k} {}", 30 + k)));
        }
        if rng.chance(1, 4) {
            is.push(parse_one(&format!("MEASURE {} m{nm}[0]", 10 + k)));
        }
    }
    // shuffle everything (definitions keep their relative first-added order whatever the interleaving)
    for i in (1..is.len()).rev() {
        let j = rng.below(i as u64 + 1) as usize;
        is.swap(i, j);
    }
    is
}

fn derived_specs(rng: &mut Rng, nframes: usize) -> Vec<DSpec> {
    let subset = |rng: &mut Rng, k: usize| -> Vec<usize> {
        let mut ix: Vec<usize> = (0..nframes).collect();
        for i in (1..ix.len()).rev() {
            let j = rng.below(i as u64 + 1) as usize;
            ix.swap(i, j);
        }
        ix.truncate(k);
        ix
    };
    let simple = |rng: &mut Rng| -> DSpec {
        match rng.below(8) {
            0 => DSpec::Simplify,
            1 => DSpec::ExpCal(rng.chance(1, 2)),
            2 => DSpec::ExpSeq(rng.below(3) as u8, rng.chance(1, 2)),
            3 => DSpec::CloneWb,
            4 => DSpec::Wrap(*rng.pick(&[0u32, 1, 3])),
            5 => DSpec::Clone,
            6 => DSpec::Resolve,
            _ => DSpec::Simplify,
        }
    };
    let k_rand = 2 + rng.below(nframes.saturating_sub(3).max(1) as u64) as usize;
    vec![
        DSpec::Simplify,
        DSpec::Intersect(subset(rng, 0)),
        DSpec::Intersect(subset(rng, 1)),
        DSpec::Intersect(subset(rng, k_rand)),
        DSpec::Intersect(subset(rng, nframes.saturating_sub(1))),
        DSpec::Intersect(subset(rng, nframes)),
        DSpec::Merge,
        DSpec::CalExtend,
        DSpec::ExtExtend,
        DSpec::CalRemove(rng.below(8) as usize),
        DSpec::McalRemove(rng.below(8) as usize),
        DSpec::ExpCal(false),
        DSpec::ExpCal(true),
        DSpec::ExpSeq(rng.below(3) as u8, false),
        DSpec::ExpSeq(rng.below(3) as u8, true),
        DSpec::Clone,
        DSpec::CloneWb,
        DSpec::Wrap(*rng.pick(&[0u32, 1, 3])),
        DSpec::Resolve,
        DSpec::Sum(Box::new(simple(rng)), Box::new(simple(rng))),
        DSpec::Sum(Box::new(DSpec::Simplify), Box::new(DSpec::Simplify)),
    ]
}

/// child process: build the program from instruction texts (and repeat a derivation), return its text
fn child(payload: &Sexp) -> Sexp {
    let Sexp::List(xs) = payload else { return atom("bad-payload") };
    if xs.first() == Some(&atom("derived")) {
        let build = |x: &Sexp| -> Option<Program> {
            let Sexp::List(ts) = x else { return None };
            let mut p = Program::new();
            for t in ts {
                let Sexp::Str(t) = t else { return None };
                p.add_instruction(parse_one(t));
            }
            Some(p)
        };
        let (Some(p), Some(q), Some(spec)) = (xs.get(1).and_then(build), xs.get(2).and_then(build), xs.get(3).and_then(spec_parse)) else {
            return atom("bad-payload");
        };
        return match apply_spec(&p, &q, &spec) {
            Some(r) => tagged("text", vec![st(r.to_quil().expect("printable"))]),
            None => atom("operation-failed"),
        };
    }
    let mut p = Program::new();
    for x in xs {
        let Sexp::Str(t) = x else { return atom("bad-payload") };
        p.add_instruction(parse_one(t));
    }
    tagged("text", vec![st(p.to_quil().expect("printable"))])
}

fn observe(is: &[Instruction], cuts: &[usize], pr: &mut Proj, iso: Option<&mut Isolated>) -> Sexp {
    let reference = Program::from_instructions(is.to_vec());
    pr.check_map_keys(&reference);
    let text = reference.to_quil().expect("printable");
    let joined: String = texts_of(is).iter().map(|t| format!("{t}\n")).collect();
    let singles: Vec<usize> = (1..is.len()).collect();
    let others: Vec<Program> = vec![
        Program::from_instructions(is.to_vec()),
        Program::from_instructions(is.to_vec()),
        {
            let mut p = Program::new();
            for i in is {
                p.add_instruction(i.clone());
            }
            p
        },
        concat_assign(is, cuts),
        concat_add(is, cuts),
        concat_assign(is, &singles),
        Program::from_str(&joined).expect("joined text parses"),
        Program::from(is.to_vec()),
    ];
    // sibling printers: the lenient printer and the instruction-by-instruction rendering give the same text
    let by_lines: String =
        reference.to_instructions().iter().map(|i| i.to_quil().expect("printable") + "\n").collect();
    let others_ok = reference.to_quil_or_debug() == text && by_lines == text && reference.clone().to_quil().ok() == Some(text.clone());
    let mut same: Vec<Sexp> = others.iter().map(|p| boolean(p.to_quil().expect("printable") == text)).collect();
    if !others_ok {
        same[0] = boolean(false);
    }
    let payload = list(texts_of(is).into_iter().map(st).collect());
    let child_same = match iso.map(|iso| iso.call(&payload)) {
        None => atom("skipped"),
        Some(Sexp::List(v)) if v.len() == 2 && v[0] == atom("text") => match &v[1] {
            Sexp::Str(t) => boolean(*t == text),
            _ => atom("garbled"),
        },
        Some(other) => other,
    };
    let to = pr.pids(&reference.to_instructions());
    let cl = pr.pids(&others[3].to_instructions());
    let new = pr.take_new();
    tagged(
        "det",
        vec![
            new,
            tagged("to", vec![to]),
            tagged("text", vec![st(text)]),
            tagged("same", same),
            tagged("child", vec![child_same]),
            tagged("concat", vec![cl]),
            pr.key_report(),
        ],
    )
}

fn emit(ctx: &mut Ctx, iso: Option<&mut Isolated>, is: Vec<Instruction>, cuts: Vec<usize>) {
    let mut pr = Proj::new();
    let input = tagged("hist", vec![pr.instrs(&is), tagged("cuts", cuts.iter().map(|c| nat(*c as u64)).collect())]);
    ctx.case(input, || observe(&is, &cuts, &mut pr, iso));
}

fn text_stable(i: &Instruction) -> bool {
    match i.to_quil() {
        Ok(t) => Program::from_str(&t).map(|p| p.to_instructions() == vec![i.clone()]).unwrap_or(false),
        Err(_) => false,
    }
}

fn run(ctx: &mut Ctx) {
    let pool: Pool = pool_or_exit();
    let mut iso = Isolated::new(Duration::from_secs(20));
    let one = |t: &str| parse_one(t);

    // definitions grouped by kind, text-stable ones only (the child rebuilds from text)
    let kinds = ["ext", "decl", "frame", "wave", "cal", "mcal", "gate", "circ"];
    let mut by_kind: Vec<Vec<Instruction>> = vec![Vec::new(); kinds.len()];
    for d in pool.defs.iter().filter(|d| text_stable(d)) {
        let k = Proj::new().kind_key(d).0;
        by_kind[kinds.iter().position(|x| *x == k).unwrap()].push(d.clone());
    }
    let body: Vec<Instruction> = pool.body.iter().filter(|b| text_stable(b)).cloned().collect();

    // (1) corpus: the repaired FrameSet defect's witness (4 distinct frames) and neighbours
    let frames4 = [
        "DEFFRAME 0 \"rf\":\n\tINITIAL-FREQUENCY: 1000000000",
        "DEFFRAME 1 \"rf\":\n\tSAMPLE-RATE: 1000000000",
        "DEFFRAME 0 1 \"cz\":\n\tHARDWARE-OBJECT: \"q0_q1\"",
        "DEFFRAME 0 \"ro_rx\":\n\tDIRECTION: \"rx\"",
    ];
    let corpus: Vec<Vec<&str>> = vec![
        vec![],
        // "empty" in one flavour
        vec!["DEFCAL MEASURE 2 addr:\n\tX 11"],
        vec!["DEFCAL MEASURE 2 addr:\n\tX 11", "DEFCAL MEASURE 0:\n\tX 43", "DEFCAL MEASURE 2 addr:\n\tX 2"],
        vec!["DEFCAL X 5:\n\tNOP", "DEFCAL X 0:\n\tY 7"],
        vec!["DEFCAL X 5:\n\tNOP", "DEFCAL MEASURE 2 addr:\n\tX 11"],
        vec!["PRAGMA EXTERN foo \"INTEGER (x : INTEGER)\"", "PRAGMA EXTERN"],
        vec!["X 0", "H 1"],
        frames4.to_vec(),
        frames4.iter().rev().cloned().collect(),
        vec![frames4[0], frames4[1], "X 0", frames4[2], "DEFFRAME 0 \"rf\":\n\tINITIAL-FREQUENCY: 2000000000\n\tDIRECTION: \"tx\"", frames4[3], "DEFFRAME 5 \"rf\":\n\tDIRECTION: \"tx\""],
        vec!["DECLARE ro BIT[2]", "DECLARE theta REAL[1]", "DECLARE ro BIT[4]", "DECLARE acc INTEGER[2]"],
        vec!["PRAGMA EXTERN foo \"INTEGER (x : INTEGER)\"", "PRAGMA EXTERN \"OCTET\"", "PRAGMA EXTERN bar \"(y : mut INTEGER)\"", "PRAGMA EXTERN foo \"REAL (x : REAL)\""],
        vec!["DEFCAL X 0:\n\tY 7", "DEFCAL X 5:\n\tNOP", "DEFCAL MEASURE 2 addr:\n\tX 11", "DEFCAL X 0:\n\tY 13", "DEFCAL MEASURE 2 addr:\n\tX 2"],
        vec!["PRAGMA EXTERN foo legacy \"(c : REAL)\"", "PRAGMA EXTERN bar legacy \"(c : REAL)\"", "PRAGMA EXTERN foo \"INTEGER (x : INTEGER)\"", "PRAGMA EXTERN 1 foo \"(c : REAL)\"",
             "PRAGMA EXTERN foo a b", "PRAGMA EXTERN baz 1 2", "PRAGMA EXTERN \"OCTET\"", "PRAGMA EXTERN bar"],
        vec!["DEFGATE FOO:\n\t1, 0\n\t0, 1", "DEFWAVEFORM wf:\n\t1, 0.5, 0.25", "DECLARE ro BIT[2]", "DEFCIRCUIT BELL a b:\n\tH a\n\tCNOT a b", "DEFFRAME 0 \"rf\":\n\tINITIAL-FREQUENCY: 1000000000",
             "DEFGATE BAR(%t):\n\tcos(%t), 0\n\t0, sin(%t)", "DEFGATE FOO a AS SEQUENCE:\n\tX a", "DEFWAVEFORM wf(%a, %b):\n\t%a, %b", "DECLARE ro INTEGER", "DEFCIRCUIT BELL(%a) q:\n\tRX(%a) q",
             "DEFFRAME 0 \"rf\":\n\tCENTER-FREQUENCY: 3"],
        vec!["DEFCAL DAGGER X 0 1:\n\tX 23", "DEFCAL CONTROLLED X 0 1:\n\tX 24", "DEFCAL X 0 1:\n\tX 22", "DEFCAL RX(pi) 0:\n\tX 30", "DEFCAL DAGGER RX(pi) 0:\n\tX 31",
             "DEFCAL MEASURE 0 addr:\n\tNOP", "DEFCAL MEASURE 0:\n\tX 43", "DEFCAL MEASURE!mid 0 addr:\n\tX 47"],
        vec!["DEFGATE FOO:\n\t1, 0\n\t0, 1", "DEFCIRCUIT BELL a b:\n\tH a\n\tCNOT a b", "DEFWAVEFORM wf:\n\t1, 0.5, 0.25", "DEFGATE FOO:\n\t0, 1\n\t1, 0", "DEFCIRCUIT BELL a b:\n\tH b\n\tCNOT b a", "DEFWAVEFORM wf:\n\t0.5i, 1"],
    ];
    for h in &corpus {
        let is: Vec<Instruction> = h.iter().map(|t| one(t)).collect();
        let n = is.len();
        emit(ctx, Some(&mut iso), is.clone(), vec![n / 2]);
        emit(ctx, Some(&mut iso), is, vec![n / 3, 2 * n / 3]);
    }

    // (2) exhaustive definition sequences over 8 definitions (3 frame keys, one with two values;
    // a waveform and a gate with two values each)
    let alphabet: Vec<Instruction> = [
        frames4[0],
        "DEFFRAME 0 \"rf\":\n\tINITIAL-FREQUENCY: 2000000000\n\tDIRECTION: \"tx\"",
        frames4[1],
        frames4[2],
        "DEFWAVEFORM wf:\n\t1, 0.5, 0.25",
        "DEFWAVEFORM wf:\n\t0.5i, 1",
        "DEFGATE FOO:\n\t1, 0\n\t0, 1",
        "DEFGATE FOO:\n\t0, 1\n\t1, 0",
        "DEFCAL X 0:\n\tY 7",
        "DEFCAL DAGGER X 0:\n\tY 14",
        "DEFCAL MEASURE 2 addr:\n\tX 11",
    ]
    .iter()
    .map(|t| one(t))
    .collect();
    let max_len = if ctx.quick() { 4 } else { 5 };
    let mut exh = 0u64;
    for len in 1..=max_len {
        let mut idx = vec![0usize; len];
        'outer: loop {
            let is: Vec<Instruction> = idx.iter().map(|&k| alphabet[k].clone()).collect();
            let cut = idx.iter().sum::<usize>() % (len + 1);
            // the fresh-process build is done for one sequence in sixteen of this stream (every case of
            // the other streams): a round trip to the child costs more than the nine in-process builds
            exh += 1;
            emit(ctx, if exh % 16 == 0 { Some(&mut iso) } else { None }, is, vec![cut]);
            let mut k = len;
            loop {
                if k == 0 {
                    break 'outer;
                }
                k -= 1;
                idx[k] += 1;
                if idx[k] < alphabet.len() {
                    break;
                }
                idx[k] = 0;
            }
        }
    }

    // (2b) exhaustive sequences over PRAGMA EXTERN shapes and same-key definitions of different shape
    let alphabet2: Vec<Instruction> = [
        "PRAGMA EXTERN foo \"INTEGER (x : INTEGER)\"",
        "PRAGMA EXTERN foo legacy \"(c : REAL)\"",
        "PRAGMA EXTERN bar legacy \"(c : REAL)\"",
        "PRAGMA EXTERN 1 foo \"(c : REAL)\"",
        "PRAGMA EXTERN \"OCTET\"",
        "DEFGATE FOO AS PERMUTATION:\n\t1, 0",
        "DEFGATE FOO(%t):\n\tcos(%t), 0\n\t0, sin(%t)",
        "DEFGATE BAR(%t):\n\tcos(%t), 0\n\t0, sin(%t)",
    ]
    .iter()
    .map(|t| one(t))
    .collect();
    for len in 1..=max_len.min(4) {
        let mut idx = vec![0usize; len];
        'outer2: loop {
            let is: Vec<Instruction> = idx.iter().map(|&k| alphabet2[k].clone()).collect();
            let cut = idx.iter().sum::<usize>() % (len + 1);
            exh += 1;
            emit(ctx, if exh % 16 == 0 { Some(&mut iso) } else { None }, is, vec![cut]);
            let mut k = len;
            loop {
                if k == 0 {
                    break 'outer2;
                }
                k -= 1;
                idx[k] += 1;
                if idx[k] < alphabet2.len() {
                    break;
                }
                idx[k] = 0;
            }
        }
    }

    // (3) random: 2-6 definitions of EACH kind (keys repeat: the pools hold 2-4 values per key),
    // interleaved with 0-6 body instructions, cut at 1-3 random places
    let mut rng = ctx.rng(8);
    let n = if ctx.quick() { 2_000 } else { 40_000 };
    let mut rnd = 0u64;
    for _ in 0..n {
        let mut is: Vec<Instruction> = Vec::new();
        // one history in fifty: 64-300 instructions over few keys (many redefinitions per key)
        let long = rng.chance(1, 50);
        if long {
            is = pool.long_history(&mut rng).into_iter().filter(text_stable).collect();
        }
        for defs in &by_kind {
            if long {
                break;
            }
            if defs.is_empty() || rng.chance(1, 8) {
                continue;
            }
            let k = 2 + rng.below(5);
            // a sub-pool makes repeated keys likely
            let sub: Vec<&Instruction> = (0..(1 + rng.below(4))).map(|_| rng.pick(defs)).collect();
            for _ in 0..k {
                is.push(if rng.chance(1, 2) { (*rng.pick(&sub)).clone() } else { rng.pick(defs).clone() });
            }
        }
        for _ in 0..rng.below(7) {
            is.push(rng.pick(&body).clone());
        }
        // Fisher-Yates shuffle
        for i in (1..is.len()).rev() {
            let j = rng.below(i as u64 + 1) as usize;
            is.swap(i, j);
        }
        let ncuts = 1 + rng.below(3);
        let mut cuts: Vec<usize> = (0..ncuts).map(|_| rng.below(is.len() as u64 + 1) as usize).collect();
        cuts.sort();
        // quick: the fresh-process build for every second random history (thorough: every one)
        rnd += 1;
        let use_child = !ctx.quick() || rnd % 2 == 0;
        emit(ctx, if use_child { Some(&mut iso) } else { None }, is, cuts);
    }

    // (4) derived programs: every program-producing operation on built programs with >= 8 definitions of
    // every kind; each derivation repeated 5 times in-process on freshly built operands and (for a third of
    // the cases in quick, all in thorough) once in the child process
    let mut rng = ctx.rng(18);
    let bases = if ctx.quick() { 40 } else { 500 };
    let mut dn = 0u64;
    for b in 0..bases {
        let pis = derived_base(&mut rng, "");
        let qis = derived_base(&mut rng, if b % 2 == 0 { "" } else { "x" });
        let nframes = Program::from_instructions(pis.clone()).frames.len();
        for spec in derived_specs(&mut rng, nframes) {
            dn += 1;
            let use_child = !ctx.quick() || dn % 3 == 0;
            emit_derived(ctx, if use_child { Some(&mut iso) } else { None }, &pis, &qis, &spec);
        }
    }
}

fn main() {
    main_with_child(run, child)
}
