//! C08 — serialization is deterministic and keeps definition order.
//!
//! Input: `(hist (<projected instruction>…) (cuts n…))`. The real code builds the program nine times:
//! `from_instructions` (reference), two more fresh `from_instructions`, an `add_instruction` loop,
//! the history cut at `cuts` and concatenated with `+=`, the same with `+`, one program per
//! instruction concatenated, `from_str` of the joined text, `From<Vec>` — and once more in a CHILD
//! PROCESS (fresh hash seeds, fresh allocator state) from the instruction texts. Output: the
//! reference listing and text, whether each other build's text is byte-identical, the child's
//! verdict, and the listing of the concatenation route.
use qvh::progwire::{parse_one, pool_or_exit, Pool, Proj};
use qvh::*;
use quil_rs::instruction::Instruction;
use quil_rs::quil::Quil;
use quil_rs::Program;
use std::str::FromStr;
use std::time::Duration;

fn chunks<'a>(is: &'a [Instruction], cuts: &[usize]) -> Vec<&'a [Instruction]> {
    let mut out = Vec::new();
    let mut start = 0;
    for &c in cuts {
        let c = c.min(is.len()).max(start);
        out.push(&is[start..c]);
        start = c;
    }
    out.push(&is[start..]);
    out
}

fn concat_assign(is: &[Instruction], cuts: &[usize]) -> Program {
    let mut it = chunks(is, cuts).into_iter();
    let mut p = Program::from_instructions(it.next().unwrap().to_vec());
    for c in it {
        p += Program::from_instructions(c.to_vec());
    }
    p
}

fn concat_add(is: &[Instruction], cuts: &[usize]) -> Program {
    let mut it = chunks(is, cuts).into_iter();
    let mut p = Program::from_instructions(it.next().unwrap().to_vec());
    for c in it {
        p = p + Program::from_instructions(c.to_vec());
    }
    p
}

fn texts_of(is: &[Instruction]) -> Vec<String> {
    is.iter().map(|i| i.to_quil().expect("printable")).collect()
}

/// child process: build the program from instruction texts, return its text
fn child(payload: &Sexp) -> Sexp {
    let Sexp::List(xs) = payload else { return atom("bad-payload") };
    let mut p = Program::new();
    for x in xs {
        let Sexp::Str(t) = x else { return atom("bad-payload") };
        p.add_instruction(parse_one(t));
    }
    tagged("text", vec![st(p.to_quil().expect("printable"))])
}

fn observe(is: &[Instruction], cuts: &[usize], pr: &mut Proj, iso: Option<&mut Isolated>) -> Sexp {
    let reference = Program::from_instructions(is.to_vec());
    pr.check_map_keys(&reference);
    let text = reference.to_quil().expect("printable");
    let joined: String = texts_of(is).iter().map(|t| format!("{t}\n")).collect();
    let singles: Vec<usize> = (1..is.len()).collect();
    let others: Vec<Program> = vec![
        Program::from_instructions(is.to_vec()),
        Program::from_instructions(is.to_vec()),
        {
            let mut p = Program::new();
            for i in is {
                p.add_instruction(i.clone());
            }
            p
        },
        concat_assign(is, cuts),
        concat_add(is, cuts),
        concat_assign(is, &singles),
        Program::from_str(&joined).expect("joined text parses"),
        Program::from(is.to_vec()),
    ];
    // sibling printers: the lenient printer and the instruction-by-instruction rendering give the same text
    let by_lines: String =
        reference.to_instructions().iter().map(|i| i.to_quil().expect("printable") + "\n").collect();
    let others_ok = reference.to_quil_or_debug() == text && by_lines == text && reference.clone().to_quil().ok() == Some(text.clone());
    let mut same: Vec<Sexp> = others.iter().map(|p| boolean(p.to_quil().expect("printable") == text)).collect();
    if !others_ok {
        same[0] = boolean(false);
    }
    let payload = list(texts_of(is).into_iter().map(st).collect());
    let child_same = match iso.map(|iso| iso.call(&payload)) {
        None => atom("skipped"),
        Some(Sexp::List(v)) if v.len() == 2 && v[0] == atom("text") => match &v[1] {
            Sexp::Str(t) => boolean(*t == text),
            _ => atom("garbled"),
        },
        Some(other) => other,
    };
    let to = pr.pids(&reference.to_instructions());
    let cl = pr.pids(&others[3].to_instructions());
    let new = pr.take_new();
    tagged(
        "det",
        vec![
            new,
            tagged("to", vec![to]),
            tagged("text", vec![st(text)]),
            tagged("same", same),
            tagged("child", vec![child_same]),
            tagged("concat", vec![cl]),
            pr.key_report(),
        ],
    )
}

fn emit(ctx: &mut Ctx, iso: Option<&mut Isolated>, is: Vec<Instruction>, cuts: Vec<usize>) {
    let mut pr = Proj::new();
    let input = tagged("hist", vec![pr.instrs(&is), tagged("cuts", cuts.iter().map(|c| nat(*c as u64)).collect())]);
    ctx.case(input, || observe(&is, &cuts, &mut pr, iso));
}

fn text_stable(i: &Instruction) -> bool {
    match i.to_quil() {
        Ok(t) => Program::from_str(&t).map(|p| p.to_instructions() == vec![i.clone()]).unwrap_or(false),
        Err(_) => false,
    }
}

fn run(ctx: &mut Ctx) {
    let pool: Pool = pool_or_exit();
    let mut iso = Isolated::new(Duration::from_secs(20));
    let one = |t: &str| parse_one(t);

    // definitions grouped by kind, text-stable ones only (the child rebuilds from text)
    let kinds = ["ext", "decl", "frame", "wave", "cal", "mcal", "gate", "circ"];
    let mut by_kind: Vec<Vec<Instruction>> = vec![Vec::new(); kinds.len()];
    for d in pool.defs.iter().filter(|d| text_stable(d)) {
        let k = Proj::new().kind_key(d).0;
        by_kind[kinds.iter().position(|x| *x == k).unwrap()].push(d.clone());
    }
    let body: Vec<Instruction> = pool.body.iter().filter(|b| text_stable(b)).cloned().collect();

    // (1) corpus: the repaired FrameSet defect's witness (4 distinct frames) and neighbours
    let frames4 = [
        "DEFFRAME 0 \"rf\":\n\tINITIAL-FREQUENCY: 1000000000",
        "DEFFRAME 1 \"rf\":\n\tSAMPLE-RATE: 1000000000",
        "DEFFRAME 0 1 \"cz\":\n\tHARDWARE-OBJECT: \"q0_q1\"",
        "DEFFRAME 0 \"ro_rx\":\n\tDIRECTION: \"rx\"",
    ];
    let corpus: Vec<Vec<&str>> = vec![
        vec![],
        // "empty" in one flavour
        vec!["DEFCAL MEASURE 2 addr:\n\tX 11"],
        vec!["DEFCAL MEASURE 2 addr:\n\tX 11", "DEFCAL MEASURE 0:\n\tX 43", "DEFCAL MEASURE 2 addr:\n\tX 2"],
        vec!["DEFCAL X 5:\n\tNOP", "DEFCAL X 0:\n\tY 7"],
        vec!["DEFCAL X 5:\n\tNOP", "DEFCAL MEASURE 2 addr:\n\tX 11"],
        vec!["PRAGMA EXTERN foo \"INTEGER (x : INTEGER)\"", "PRAGMA EXTERN"],
        vec!["X 0", "H 1"],
        frames4.to_vec(),
        frames4.iter().rev().cloned().collect(),
        vec![frames4[0], frames4[1], "X 0", frames4[2], "DEFFRAME 0 \"rf\":\n\tINITIAL-FREQUENCY: 2000000000\n\tDIRECTION: \"tx\"", frames4[3], "DEFFRAME 5 \"rf\":\n\tDIRECTION: \"tx\""],
        vec!["DECLARE ro BIT[2]", "DECLARE theta REAL[1]", "DECLARE ro BIT[4]", "DECLARE acc INTEGER[2]"],
        vec!["PRAGMA EXTERN foo \"INTEGER (x : INTEGER)\"", "PRAGMA EXTERN \"OCTET\"", "PRAGMA EXTERN bar \"(y : mut INTEGER)\"", "PRAGMA EXTERN foo \"REAL (x : REAL)\""],
        vec!["DEFCAL X 0:\n\tY 7", "DEFCAL X 5:\n\tNOP", "DEFCAL MEASURE 2 addr:\n\tX 11", "DEFCAL X 0:\n\tY 13", "DEFCAL MEASURE 2 addr:\n\tX 2"],
        vec!["PRAGMA EXTERN foo legacy \"(c : REAL)\"", "PRAGMA EXTERN bar legacy \"(c : REAL)\"", "PRAGMA EXTERN foo \"INTEGER (x : INTEGER)\"", "PRAGMA EXTERN 1 foo \"(c : REAL)\"",
             "PRAGMA EXTERN foo a b", "PRAGMA EXTERN baz 1 2", "PRAGMA EXTERN \"OCTET\"", "PRAGMA EXTERN bar"],
        vec!["DEFGATE FOO:\n\t1, 0\n\t0, 1", "DEFWAVEFORM wf:\n\t1, 0.5, 0.25", "DECLARE ro BIT[2]", "DEFCIRCUIT BELL a b:\n\tH a\n\tCNOT a b", "DEFFRAME 0 \"rf\":\n\tINITIAL-FREQUENCY: 1000000000",
             "DEFGATE BAR(%t):\n\tcos(%t), 0\n\t0, sin(%t)", "DEFGATE FOO a AS SEQUENCE:\n\tX a", "DEFWAVEFORM wf(%a, %b):\n\t%a, %b", "DECLARE ro INTEGER", "DEFCIRCUIT BELL(%a) q:\n\tRX(%a) q",
             "DEFFRAME 0 \"rf\":\n\tCENTER-FREQUENCY: 3"],
        vec!["DEFCAL DAGGER X 0 1:\n\tX 23", "DEFCAL CONTROLLED X 0 1:\n\tX 24", "DEFCAL X 0 1:\n\tX 22", "DEFCAL RX(pi) 0:\n\tX 30", "DEFCAL DAGGER RX(pi) 0:\n\tX 31",
             "DEFCAL MEASURE 0 addr:\n\tNOP", "DEFCAL MEASURE 0:\n\tX 43", "DEFCAL MEASURE!mid 0 addr:\n\tX 47"],
        vec!["DEFGATE FOO:\n\t1, 0\n\t0, 1", "DEFCIRCUIT BELL a b:\n\tH a\n\tCNOT a b", "DEFWAVEFORM wf:\n\t1, 0.5, 0.25", "DEFGATE FOO:\n\t0, 1\n\t1, 0", "DEFCIRCUIT BELL a b:\n\tH b\n\tCNOT b a", "DEFWAVEFORM wf:\n\t0.5i, 1"],
    ];
    for h in &corpus {
        let is: Vec<Instruction> = h.iter().map(|t| one(t)).collect();
        let n = is.len();
        emit(ctx, Some(&mut iso), is.clone(), vec![n / 2]);
        emit(ctx, Some(&mut iso), is, vec![n / 3, 2 * n / 3]);
    }

    // (2) exhaustive definition sequences over 8 definitions (3 frame keys, one with two values;
    // a waveform and a gate with two values each)
    let alphabet: Vec<Instruction> = [
        frames4[0],
        "DEFFRAME 0 \"rf\":\n\tINITIAL-FREQUENCY: 2000000000\n\tDIRECTION: \"tx\"",
        frames4[1],
        frames4[2],
        "DEFWAVEFORM wf:\n\t1, 0.5, 0.25",
        "DEFWAVEFORM wf:\n\t0.5i, 1",
        "DEFGATE FOO:\n\t1, 0\n\t0, 1",
        "DEFGATE FOO:\n\t0, 1\n\t1, 0",
        "DEFCAL X 0:\n\tY 7",
        "DEFCAL DAGGER X 0:\n\tY 14",
        "DEFCAL MEASURE 2 addr:\n\tX 11",
    ]
    .iter()
    .map(|t| one(t))
    .collect();
    let max_len = if ctx.quick() { 4 } else { 5 };
    let mut exh = 0u64;
    for len in 1..=max_len {
        let mut idx = vec![0usize; len];
        'outer: loop {
            let is: Vec<Instruction> = idx.iter().map(|&k| alphabet[k].clone()).collect();
            let cut = idx.iter().sum::<usize>() % (len + 1);
            // the fresh-process build is done for one sequence in sixteen of this stream (every case of
            // the other streams): a round trip to the child costs more than the nine in-process builds
            exh += 1;
            emit(ctx, if exh % 16 == 0 { Some(&mut iso) } else { None }, is, vec![cut]);
            let mut k = len;
            loop {
                if k == 0 {
                    break 'outer;
                }
                k -= 1;
                idx[k] += 1;
                if idx[k] < alphabet.len() {
                    break;
                }
                idx[k] = 0;
            }
        }
    }

    // (2b) exhaustive sequences over PRAGMA EXTERN shapes and same-key definitions of different shape
    let alphabet2: Vec<Instruction> = [
        "PRAGMA EXTERN foo \"INTEGER (x : INTEGER)\"",
        "PRAGMA EXTERN foo legacy \"(c : REAL)\"",
        "PRAGMA EXTERN bar legacy \"(c : REAL)\"",
        "PRAGMA EXTERN 1 foo \"(c : REAL)\"",
        "PRAGMA EXTERN \"OCTET\"",
        "DEFGATE FOO AS PERMUTATION:\n\t1, 0",
        "DEFGATE FOO(%t):\n\tcos(%t), 0\n\t0, sin(%t)",
        "DEFGATE BAR(%t):\n\tcos(%t), 0\n\t0, sin(%t)",
    ]
    .iter()
    .map(|t| one(t))
    .collect();
    for len in 1..=max_len.min(4) {
        let mut idx = vec![0usize; len];
        'outer2: loop {
            let is: Vec<Instruction> = idx.iter().map(|&k| alphabet2[k].clone()).collect();
            let cut = idx.iter().sum::<usize>() % (len + 1);
            exh += 1;
            emit(ctx, if exh % 16 == 0 { Some(&mut iso) } else { None }, is, vec![cut]);
            let mut k = len;
            loop {
                if k == 0 {
                    break 'outer2;
                }
                k -= 1;
                idx[k] += 1;
                if idx[k] < alphabet2.len() {
                    break;
                }
                idx[k] = 0;
            }
        }
    }

    // (3) random: 2-6 definitions of EACH kind (keys repeat: the pools hold 2-4 values per key),
    // interleaved with 0-6 body instructions, cut at 1-3 random places
    let mut rng = ctx.rng(8);
    let n = if ctx.quick() { 2_500 } else { 60_000 };
    let mut rnd = 0u64;
    for _ in 0..n {
        let mut is: Vec<Instruction> = Vec::new();
        // one history in fifty: 64-300 instructions over few keys (many redefinitions per key)
        let long = rng.chance(1, 50);
        if long {
            is = pool.long_history(&mut rng).into_iter().filter(text_stable).collect();
        }
        for defs in &by_kind {
            if long {
                break;
            }
            if defs.is_empty() || rng.chance(1, 8) {
                continue;
            }
            let k = 2 + rng.below(5);
            // a sub-pool makes repeated keys likely
            let sub: Vec<&Instruction> = (0..(1 + rng.below(4))).map(|_| rng.pick(defs)).collect();
            for _ in 0..k {
                is.push(if rng.chance(1, 2) { (*rng.pick(&sub)).clone() } else { rng.pick(defs).clone() });
            }
        }
        for _ in 0..rng.below(7) {
            is.push(rng.pick(&body).clone());
        }
        // Fisher-Yates shuffle
        for i in (1..is.len()).rev() {
            let j = rng.below(i as u64 + 1) as usize;
            is.swap(i, j);
        }
        let ncuts = 1 + rng.below(3);
        let mut cuts: Vec<usize> = (0..ncuts).map(|_| rng.below(is.len() as u64 + 1) as usize).collect();
        cuts.sort();
        // quick: the fresh-process build for every second random history (thorough: every one)
        rnd += 1;
        let use_child = !ctx.quick() || rnd % 2 == 0;
        emit(ctx, if use_child { Some(&mut iso) } else { None }, is, cuts);
    }
}

fn main() {
    main_with_child(run, child)
}
