//! C19 — the calibration source map exactly accounts for every expansion.
//!
//! Every case builds a real `Program` (calibrations through `CalibrationDefinition::new`, so that bodies
//! may hold instructions the parser would not put there), runs the real
//! `Program::expand_calibrations_with_source_map`, and reports the expanded body, the full source-map tree
//! and the answers of `SourceMap::list_sources` / `list_targets` for every index.
//!
//! The model's input is the *expansion tree* of every body instruction: which calibration matches it
//! (`Calibrations::get_match_for_gate` / `get_match_for_measurement`, public API), the matched body with the
//! qubit variables replaced (done here, for gates only — the alphabets use no parameters and no other
//! qubit-bearing instruction with variables), recursively; a revisit of an instruction on the path is the
//! `(cyclic)` input. The tree is computed WITHOUT the source-map code (C17 owns the expansion itself).
//!
//! Projection (trusted, meta/C19.json): an instruction is sent as its Quil text plus a kind atom naming
//! the arm of `Program::add_instruction` it takes.
use qvh::progs::parse_one;
use qvh::*;
use quil_rs::instruction::{
    CalibrationDefinition, CalibrationIdentifier, Gate, Instruction, MeasureCalibrationDefinition,
    MeasureCalibrationIdentifier, Qubit,
};
use quil_rs::program::{
    CalibrationExpansion, CalibrationSource, ExpansionResult, InstructionIndex, SourceMap, SourceMapEntry,
};
use quil_rs::quil::Quil;
use quil_rs::Program;

fn kind(i: &Instruction) -> &'static str {
    match i {
        Instruction::CalibrationDefinition(_) => "caldef",
        Instruction::CircuitDefinition(_) => "circuitdef",
        Instruction::FrameDefinition(_) => "framedef",
        Instruction::Declaration(_) => "declaration",
        Instruction::GateDefinition(_) => "gatedef",
        Instruction::MeasureCalibrationDefinition(_) => "measurecaldef",
        Instruction::WaveformDefinition(_) => "waveformdef",
        Instruction::Pragma(p) if p.name == "EXTERN" => "pragma-extern",
        Instruction::Pragma(_) => "pragma",
        Instruction::Gate(_) => "gate",
        Instruction::Measurement(_) => "measurement",
        _ => "other",
    }
}

fn instr(i: &Instruction) -> Sexp {
    tagged("i", vec![st(i.to_quil_or_debug()), atom(kind(i))])
}

/// identity of a calibration: the Debug text of its identifier (structural: name, modifiers, parameters,
/// qubits / name, qubit, target) — not the Quil text and not the library's own `PartialEq`
fn source(c: &CalibrationSource) -> String {
    format!("{c:?}")
}

enum Node {
    Leaf(Instruction),
    Exp(Instruction, String, Vec<Node>),
}

fn node_sexp(n: &Node) -> Sexp {
    match n {
        Node::Leaf(i) => tagged("leaf", vec![instr(i)]),
        Node::Exp(i, c, body) => tagged("exp", vec![instr(i), st(c.clone()), list(body.iter().map(node_sexp).collect())]),
    }
}

fn subst_qubit(q: &Qubit, formal: &[Qubit], actual: &[Qubit]) -> Qubit {
    if let Qubit::Variable(_) = q {
        for (f, a) in formal.iter().zip(actual) {
            if f == q {
                return a.clone();
            }
        }
    }
    q.clone()
}

/// The expansion tree of `i`; `Err(())` when an instruction recurs on its own expansion path
/// (`ProgramError::RecursiveCalibration`).
fn tree(p: &Program, i: &Instruction, path: &[Instruction], depth: &mut usize) -> Result<Node, ()> {
    if path.contains(i) {
        return Err(());
    }
    let matched: Option<(Vec<Instruction>, String)> = match i {
        Instruction::Gate(g) => p.calibrations.get_match_for_gate(g).map(|cal| {
            let body = cal
                .instructions
                .iter()
                .map(|b| match b {
                    Instruction::Gate(bg) => Instruction::Gate(Gate {
                        name: bg.name.clone(),
                        parameters: bg.parameters.clone(),
                        qubits: bg.qubits.iter().map(|q| subst_qubit(q, &cal.identifier.qubits, &g.qubits)).collect(),
                        modifiers: bg.modifiers.clone(),
                    }),
                    other => other.clone(),
                })
                .collect();
            (body, source(&CalibrationSource::Calibration(cal.identifier.clone())))
        }),
        Instruction::Measurement(m) => p.calibrations.get_match_for_measurement(m).map(|cal| {
            (cal.instructions.clone(), source(&CalibrationSource::MeasureCalibration(cal.identifier.clone())))
        }),
        _ => None,
    };
    match matched {
        None => Ok(Node::Leaf(i.clone())),
        Some((body, c)) => {
            let mut new_path = vec![i.clone()];
            new_path.extend_from_slice(path);
            *depth = (*depth).max(new_path.len());
            let mut children = Vec::new();
            for b in &body {
                children.push(tree(p, b, &new_path, depth)?);
            }
            Ok(Node::Exp(i.clone(), c, children))
        }
    }
}

type Map = SourceMap<InstructionIndex, ExpansionResult<CalibrationExpansion>>;

fn target(t: &ExpansionResult<CalibrationExpansion>) -> Sexp {
    match t {
        ExpansionResult::Unmodified(i) => tagged("u", vec![nat(i.0 as u64)]),
        ExpansionResult::Rewritten(e) => tagged(
            "r",
            vec![
                st(source(e.calibration_used())),
                nat(e.range().start.0 as u64),
                nat(e.range().end.0 as u64),
                list(e.expansions().entries().iter().map(entry).collect()),
            ],
        ),
    }
}

fn entry(e: &SourceMapEntry<InstructionIndex, ExpansionResult<CalibrationExpansion>>) -> Sexp {
    list(vec![nat(e.source_location().0 as u64), target(e.target_location())])
}

/// `list_sources` / `list_targets` of every nested map, in preorder over the `Rewritten` entries
fn nested_queries(map: &Map, out: &mut Vec<Sexp>) {
    for e in map.entries() {
        if let ExpansionResult::Rewritten(x) = e.target_location() {
            let inner = x.expansions();
            let len = x.range().end.0.saturating_sub(x.range().start.0);
            let max_src = inner.entries().iter().map(|e| e.source_location().0).max().map_or(0, |m| m + 1);
            let sources: Vec<Sexp> = (0..=len)
                .map(|t| list(inner.list_sources(&InstructionIndex(t)).into_iter().map(|s| nat(s.0 as u64)).collect()))
                .collect();
            let targets: Vec<Sexp> = (0..=max_src)
                .map(|s| list(inner.list_targets(&InstructionIndex(s)).into_iter().map(target).collect()))
                .collect();
            out.push(list(vec![list(sources), list(targets)]));
            nested_queries(inner, out);
        }
    }
}

fn run_case(ctx: &mut Ctx, p: &Program) {
    let src: Vec<Instruction> = p.body_instructions().cloned().collect();
    let mut depth = 0usize;
    let trees: Result<Vec<Node>, ()> = src.iter().map(|i| tree(p, i, &[], &mut depth)).collect();
    let input = match &trees {
        Ok(ts) => tagged("prog", vec![list(ts.iter().map(node_sexp).collect())]),
        Err(()) => tagged("cyclic", vec![list(src.iter().map(instr).collect())]),
    };
    let n_src = src.len();
    ctx.case(input, || match p.expand_calibrations_with_source_map() {
        Err(e) => {
            // the error must be printable; the map-less entry point must fail too
            let _ = format!("{e} {e:#} {e:?}");
            let other = p.expand_calibrations().is_err();
            match e {
                quil_rs::program::ProgramError::RecursiveCalibration(_) if other => tagged("err", vec![atom("recursive")]),
                _ => tagged("err", vec![atom("other")]),
            }
        }
        Ok((q, map)) => {
            let map: Map = map;
            let body: Vec<Instruction> = q.body_instructions().cloned().collect();
            // the map-less entry point must produce the same program
            let same = p.expand_calibrations().map(|q2| q2 == q).unwrap_or(false);
            let sources: Vec<Sexp> = (0..=body.len())
                .map(|t| list(map.list_sources(&InstructionIndex(t)).into_iter().map(|s| nat(s.0 as u64)).collect()))
                .collect();
            let targets: Vec<Sexp> = (0..=n_src)
                .map(|s| list(map.list_targets(&InstructionIndex(s)).into_iter().map(target).collect()))
                .collect();
            // instruction-level entry point: `Calibrations::expand_with_detail` (before hoisting) and its
            // detail-less sibling `Calibrations::expand`
            let details: Vec<Sexp> = src
                .iter()
                .map(|i| match p.calibrations.expand_with_detail(i, &[]) {
                    Ok(Some(o)) => {
                        let plain = p.calibrations.expand(i, &[]).ok().flatten();
                        let same_plain = plain.as_ref() == Some(&o.new_instructions);
                        tagged(
                            "d",
                            vec![
                                list(o.new_instructions.iter().map(instr).collect()),
                                target(&ExpansionResult::Rewritten(o.detail)),
                                boolean(same_plain),
                            ],
                        )
                    }
                    Ok(None) => atom("none"),
                    Err(_) => atom("err"),
                })
                .collect();
            // `list_sources(&CalibrationSource)` for every calibration of the program
            let mut by_cal: Vec<Sexp> = Vec::new();
            for c in p.calibrations.iter_calibrations() {
                let c = CalibrationSource::Calibration(c.identifier.clone());
                by_cal.push(list(vec![st(source(&c)), list(map.list_sources(&c).into_iter().map(|s| nat(s.0 as u64)).collect())]));
            }
            for c in p.calibrations.iter_measure_calibrations() {
                let c = CalibrationSource::MeasureCalibration(c.identifier.clone());
                by_cal.push(list(vec![st(source(&c)), list(map.list_sources(&c).into_iter().map(|s| nat(s.0 as u64)).collect())]));
            }
            let mut nested = Vec::new();
            nested_queries(&map, &mut nested);
            // a second call gives the same answer
            let again = p.expand_calibrations_with_source_map().map(|(q2, m2)| q2 == q && m2 == map).unwrap_or(false);
            tagged(
                "ok",
                vec![
                    list(body.iter().map(instr).collect()),
                    list(map.entries().iter().map(entry).collect()),
                    list(sources),
                    list(targets),
                    boolean(same && again),
                    list(details),
                    list(by_cal),
                    list(nested),
                ],
            )
        }
    });
}

/// body items by short code
fn item(code: &str) -> Instruction {
    match code {
        "X" | "Y" | "Z" | "W" | "U" | "V" => parse_one(&format!("{code} 0")),
        "Xq" | "Yq" | "Zq" | "Uq" => Instruction::Gate(Gate {
            name: code[..1].to_string(),
            parameters: vec![],
            qubits: vec![Qubit::Variable("q".to_string())],
            modifiers: vec![],
        }),
        "X1" | "Y1" | "U1" => parse_one(&format!("{} 1", &code[..1])),
        "N" => parse_one("NOP"),
        "T" => parse_one("WAIT"),
        "M" => parse_one("MEASURE 0"),
        "P" => parse_one("PRAGMA KEEP"),
        "Da" => parse_one("DECLARE a BIT"),
        "Db" => parse_one("DECLARE b BIT"),
        "Dc" => parse_one("DECLARE c REAL[2]"),
        "F" => parse_one("DEFFRAME 0 \"f\":\n\tDIRECTION: \"tx\""),
        "Wf" => parse_one("DEFWAVEFORM w:\n\t1, 2"),
        "E" => parse_one("PRAGMA EXTERN foo \"(x : INTEGER)\""),
        "G" => parse_one("DEFGATE H2:\n\t1, 0\n\t0, 1"),
        "C" => parse_one("DEFCAL V 0:\n\tNOP"),
        "Mc" => parse_one("DEFCAL MEASURE 1:\n\tNOP"),
        "Ci" => parse_one("DEFCIRCUIT CC q:\n\tNOP"),
        // PRAGMA EXTERN with two arguments / without a name: hoisted like any PRAGMA named EXTERN
        "E2" => parse_one("PRAGMA EXTERN foo bar \"(x : INTEGER)\""),
        "E0" => parse_one("PRAGMA EXTERN \"(x : INTEGER)\""),
        // pragmas that are NOT hoisted: other names, other letter case, with arguments
        "Pe" => parse_one("PRAGMA extern foo \"(x : INTEGER)\""),
        "Px" => parse_one("PRAGMA EXTERNAL foo 1 \"data\""),
        // a gate with a modifier (matches only a calibration with the same modifiers)
        "dX" | "dY" => Instruction::Gate(Gate {
            name: code[1..].to_string(),
            parameters: vec![],
            qubits: vec![Qubit::Fixed(0)],
            modifiers: vec![quil_rs::instruction::GateModifier::Dagger],
        }),
        other => panic!("unknown item {other}"),
    }
}

fn items(codes: &str) -> Vec<Instruction> {
    codes.split_whitespace().map(item).collect()
}

fn defcal(name: &str, qubit: Qubit, body: Vec<Instruction>) -> Instruction {
    // a leading `d` in the name asks for the DAGGER variant of the calibration
    let (modifiers, name) = match name.strip_prefix('d') {
        Some(rest) => (vec![quil_rs::instruction::GateModifier::Dagger], rest),
        None => (vec![], name),
    };
    Instruction::CalibrationDefinition(CalibrationDefinition::new(
        CalibrationIdentifier { modifiers, name: name.to_string(), parameters: vec![], qubits: vec![qubit] },
        body,
    ))
}

fn defcal_measure(body: Vec<Instruction>) -> Instruction {
    defcal_measure_on(Qubit::Fixed(0), body)
}

fn defcal_measure_on(qubit: Qubit, body: Vec<Instruction>) -> Instruction {
    Instruction::MeasureCalibrationDefinition(MeasureCalibrationDefinition::new(
        MeasureCalibrationIdentifier { name: None, qubit, target: None },
        body,
    ))
}

/// program from `(calibration name, qubit, body codes)*` and body codes
fn program(cals: &[(&str, Qubit, &str)], measure: Option<&str>, body: &str) -> Program {
    let mut p = Program::new();
    for (name, q, b) in cals {
        p.add_instruction(defcal(name, q.clone(), items(b)));
    }
    if let Some(m) = measure {
        p.add_instruction(defcal_measure(items(m)));
    }
    for i in items(body) {
        p.add_instruction(i);
    }
    p
}

fn main() {
    main_with(run)
}

fn run(ctx: &mut Ctx) {
    let f0 = Qubit::Fixed(0);
    let vq = Qubit::Variable("q".to_string());

    // 1. corpus: the known-finding witness, the upstream test, past shapes
    let corpus: Vec<Program> = vec![
        // C19/hoisted-instruction-stale-unmodified-entries (witness)
        program(&[("X", f0.clone(), "Da N Y"), ("Y", f0.clone(), "Db T")], None, "X"),
        // program::tests::expand_calibrations
        program(&[("X", f0.clone(), "Y N N"), ("Y", f0.clone(), "Dc N")], None, "X U X"),
        // smallest: one hoisted instruction in a body
        program(&[("X", f0.clone(), "Da N")], None, "X"),
        program(&[("X", f0.clone(), "N Da")], None, "X"),
        program(&[("X", f0.clone(), "Da")], None, "X U"),
        program(&[("X", f0.clone(), "")], None, "U X U"),
        // hoisted instruction immediately before / inside / after a nested expansion (fix 58e3276)
        program(&[("X", f0.clone(), "Da Y N"), ("Y", f0.clone(), "N T")], None, "U X"),
        program(&[("X", f0.clone(), "Y Da N"), ("Y", f0.clone(), "N T")], None, "U X"),
        program(&[("X", f0.clone(), "N Y"), ("Y", f0.clone(), "N Da T")], None, "U X U"),
        program(&[("X", f0.clone(), "N Y"), ("Y", f0.clone(), "Da")], None, "U X U"),
        // an initially empty nested expansion next to a hoisted instruction
        program(&[("X", f0.clone(), "Y Da N"), ("Y", f0.clone(), "")], None, "X"),
        program(&[("X", f0.clone(), "Da N Y"), ("Y", f0.clone(), "")], None, "X"),
        // depth 3, variable qubits, measurement calibration
        program(&[("X", vq.clone(), "Yq N"), ("Y", vq.clone(), "Zq Uq"), ("Z", f0.clone(), "Da N Db")], Some("N X Dc"), "M X1 X"),
        // recursion
        program(&[("X", f0.clone(), "Y"), ("Y", f0.clone(), "X")], None, "U X"),
        program(&[("X", f0.clone(), "N X")], None, "X"),
        // every hoisted kind
        program(&[("X", f0.clone(), "Da F Wf E G C P N")], None, "X V"),
        program(&[("X", f0.clone(), "Mc Ci E2 E0 N Y"), ("Y", f0.clone(), "E0 T Mc")], None, "X"),
        // pragmas that are not hoisted, at and before a nested expansion
        program(&[("X", f0.clone(), "P Y Pe Px Y N"), ("Y", f0.clone(), "P T Pe")], None, "U X"),
        program(&[("X", f0.clone(), "Pe Px P"), ("Y", f0.clone(), "X Px X")], None, "Y Y"),
        // two and three hoisted instructions in one top-level expansion, followed by a nested call
        program(&[("X", f0.clone(), "Da Db Y N"), ("Y", f0.clone(), "N T")], None, "X"),
        program(&[("X", f0.clone(), "Da N Db E Y Y Dc N"), ("Y", f0.clone(), "Db N T Da")], None, "U X U"),
        // depth 5, hoisted instructions at every level
        program(
            &[("X", f0.clone(), "Da Y N"), ("Y", f0.clone(), "N Db Z"), ("Z", f0.clone(), "W Dc T"), ("W", f0.clone(), "E V U"), ("V", f0.clone(), "Da N Db")],
            None,
            "U X X",
        ),
        // calibrations that differ only in their modifiers
        program(&[("X", f0.clone(), "N Da dX"), ("dX", f0.clone(), "T T Db"), ("dY", f0.clone(), "U")], None, "X dX dY Y"),
        // the same calibration used twice in one body and at two depths
        program(&[("X", f0.clone(), "Y Da Y Z"), ("Y", f0.clone(), "Z Db N"), ("Z", f0.clone(), "Dc T")], None, "X Y Z"),
        Program::new(),
    ];
    for p in &corpus {
        run_case(ctx, p);
    }

    // 2. exhaustive: chain X -> Y -> Z (nesting depth <= 3); bodies with and without DECLARE at the
    //    first / middle / last position, unmatched instructions in between
    let x_bodies: &[&str] = if ctx.quick() {
        &["Y", "Da Y", "Y Da", "N Y T", "Da N Y", "N Da Y", "N Y Da", "U Y U Y", "Da", ""]
    } else {
        &[
            "Y", "Da Y", "Y Da", "N Y T", "Da N Y", "N Da Y", "N Y Da", "U Y U Y", "Da", "", "N", "Y Y", "Da Y Db Y Dc",
            "Z N Y", "Da Db N", "N Da Db Y U",
        ]
    };
    let y_bodies: &[&str] = if ctx.quick() {
        &["Z", "Db Z", "Z Db", "T Z U", "Db T", "T Db U", "T U Db", "Db", "", "N"]
    } else {
        &["Z", "Db Z", "Z Db", "T Z U", "Db T", "T Db U", "T U Db", "Db", "", "N", "Z Z", "Db Z Da", "U Db Z Db U", "Db Db"]
    };
    let z_bodies: &[&str] =
        if ctx.quick() { &["N", "Dc N", "N Dc", "U Dc N", "Dc", ""] } else { &["N", "Dc N", "N Dc", "U Dc N", "Dc", "", "N U", "Dc Da N Db"] };
    let bodies: &[&str] = if ctx.quick() { &["X", "U X", "X Y U", "N X X"] } else { &["X", "U X", "X Y U", "N X X", "Z X U Y", "X U"] };
    for xb in x_bodies {
        for yb in y_bodies {
            for zb in z_bodies {
                for b in bodies {
                    let p = program(&[("X", f0.clone(), xb), ("Y", f0.clone(), yb), ("Z", f0.clone(), zb)], None, b);
                    run_case(ctx, &p);
                }
            }
        }
    }

    // 3. seeded random: 4 calibrated names (fixed or variable qubit, possibly overlapping definitions),
    //    optional measurement calibration, bodies up to 5 items, any name may be invoked (cycles happen)
    let n_random = if ctx.quick() { 6000 } else { 400_000 };
    let mut rng = ctx.rng(19);
    let names = ["X", "Y", "Z", "W"];
    let plain = ["N", "T", "U", "P", "U1", "V", "Pe", "Px", "dX", "dY"];
    let hoist = ["Da", "Db", "Dc", "F", "Wf", "E", "G", "C", "Mc", "Ci", "E2", "E0"];
    for _ in 0..n_random {
        let mut p = Program::new();
        let hoist_pct = *rng.pick(&[0u64, 10, 25, 50]);
        let back_pct = *rng.pick(&[0u64, 0, 0, 5]);
        let gen_body = |rng: &mut Rng, level: usize, variable: bool| -> Vec<Instruction> {
            let len = rng.below(6);
            (0..len)
                .map(|_| {
                    let r = rng.below(100);
                    if r < hoist_pct {
                        item(*rng.pick(&hoist[..]))
                    } else if r < hoist_pct + 35 {
                        // invoke a later name (acyclic) or, rarely, any name
                        let k = if rng.below(100) < back_pct || level + 1 >= names.len() {
                            rng.below(names.len() as u64) as usize
                        } else {
                            level + 1 + rng.below((names.len() - level - 1) as u64) as usize
                        };
                        if variable && rng.chance(2, 3) {
                            item(&format!("{}q", ["X", "Y", "Z", "U"][k.min(3)]))
                        } else if rng.chance(1, 8) {
                            item("M")
                        } else {
                            item(names[k])
                        }
                    } else {
                        item(*rng.pick(&plain[..]))
                    }
                })
                .collect()
        };
        for (level, name) in names.iter().enumerate() {
            if rng.chance(4, 5) {
                let variable = rng.chance(1, 3);
                let q = if variable { vq.clone() } else { f0.clone() };
                let body = gen_body(&mut rng, level, variable);
                p.add_instruction(defcal(name, q, body));
                // a second, more specific or shadowing definition
                if rng.chance(1, 6) {
                    let body = gen_body(&mut rng, level, false);
                    p.add_instruction(defcal(name, if rng.chance(1, 2) { f0.clone() } else { Qubit::Fixed(1) }, body));
                }
            }
        }
        for dname in ["dX", "dY"] {
            if rng.chance(1, 4) {
                let body = gen_body(&mut rng, 1, false);
                p.add_instruction(defcal(dname, f0.clone(), body));
            }
        }
        if rng.chance(1, 3) {
            let body = gen_body(&mut rng, 0, false);
            // fixed or variable qubit (the bodies use no qubit variables outside gates)
            let q = if rng.chance(1, 3) { vq.clone() } else { f0.clone() };
            p.add_instruction(defcal_measure_on(q, body));
        }
        let len = 1 + rng.below(5);
        for _ in 0..len {
            let r = rng.below(100);
            let i = if r < 60 {
                item(names[rng.below(names.len() as u64) as usize])
            } else if r < 70 {
                item("X1")
            } else if r < 80 {
                item("M")
            } else {
                item(*rng.pick(&plain[..]))
            };
            p.add_instruction(i);
        }
        run_case(ctx, &p);
    }
}
