//! C14 — standard gate unitaries match the Quil specification.
//! Streams: (1) corpus (past defects, error paths, crashes), (2) every table gate × angles × every injective
//! placement into n ≤ 5 qubits through `Gate::to_unitary`, (3) the lifting alone on random 2×2/4×4/8×8
//! matrices through the cfg hook, (4) random gates incl. non-standard names, wrong arity, bad qubits.
use num_complex::Complex64;
use qvh::gatewire::*;
use qvh::*;
use quil_rs::expression::Expression;
use quil_rs::instruction::{Gate, GateModifier, Instruction, Qubit, QubitPlaceholder};
use quil_rs::Program;
use quil_rs::verif_hooks;

fn gate_case(ctx: &mut Ctx, name: &str, params: Vec<Expression>, qubits: Vec<Qubit>, n: u64) {
    let input = tagged(
        "gate",
        vec![
            st(name),
            tagged("params", params.iter().map(param_to_sexp).collect()),
            tagged("qubits", qubits.iter().map(qubit_to_sexp).collect()),
            nat(n),
        ],
    );
    ctx.case(input, || {
        let mut g = Gate { name: name.to_string(), parameters: params, qubits, modifiers: vec![] };
        unitary_result(g.to_unitary(n))
    });
}

/// `Program::to_unitary` (the property's second observable) on a body of instructions.
fn progu_case(ctx: &mut Ctx, instrs: Vec<Instruction>, n: u64) {
    let input = tagged("progu", vec![nat(n), tagged("instrs", instrs.iter().map(instr_to_sexp).collect())]);
    ctx.case(input, move || {
        let mut p = Program::new();
        for i in instrs {
            p.add_instruction(i);
        }
        program_unitary_result(p.to_unitary(n))
    });
}

fn plain(name: &str, params: Vec<Expression>, qs: &[u64]) -> Instruction {
    Instruction::Gate(Gate { name: name.to_string(), parameters: params, qubits: fixed(qs), modifiers: vec![] })
}

fn fixed(qs: &[u64]) -> Vec<Qubit> {
    qs.iter().map(|q| Qubit::Fixed(*q)).collect()
}

fn lift_case(ctx: &mut Ctx, u: &Matrix, qs: &[u64], n: u64) {
    let input = tagged("lift", vec![mat_to_sexp(u), tagged("qubits", qs.iter().map(|q| nat(*q)).collect()), nat(n)]);
    ctx.case(input, || tagged("ok", vec![mat_to_sexp(&verif_hooks::c14::lifted_gate_matrix(u, qs, n))]));
}

fn random_matrix(rng: &mut Rng, dim: usize) -> Matrix {
    Matrix::from_shape_fn((dim, dim), |_| {
        if rng.chance(1, 5) {
            Complex64::new(0.0, 0.0)
        } else {
            Complex64::new(rng.unit() * 2.0 - 1.0, rng.unit() * 2.0 - 1.0)
        }
    })
}

fn main() {
    main_with(run)
}

fn run(ctx: &mut Ctx) {
    let quick = ctx.quick();
    // ---- 1. corpus
    gate_case(ctx, "RZ", vec![real(0.7)], fixed(&[0]), 1); // was RY's matrix (fixed 115d0f6)
    gate_case(ctx, "RZ", vec![real(std::f64::consts::PI)], fixed(&[1]), 3);
    gate_case(ctx, "PSWAP", vec![real(0.3)], fixed(&[1, 0]), 2); // was cos θ + θ (fixed 5bc3c43)
    gate_case(ctx, "PSWAP", vec![real(2.0)], fixed(&[0, 3]), 4);
    gate_case(ctx, "CNOT", vec![], fixed(&[2, 0]), 3);
    gate_case(ctx, "CCNOT", vec![], fixed(&[4, 2, 0]), 5);
    gate_case(ctx, "CCNOT", vec![], fixed(&[0, 4, 2]), 5);
    gate_case(ctx, "FOO", vec![], fixed(&[0]), 1);
    gate_case(ctx, "FOO", vec![real(1.0)], fixed(&[0]), 1);
    gate_case(ctx, "X", vec![real(0.5)], fixed(&[0]), 1);
    gate_case(ctx, "RX", vec![], fixed(&[0]), 1);
    gate_case(ctx, "RX", vec![real(0.1), real(0.2)], fixed(&[0]), 1);
    gate_case(ctx, "RX", vec![Expression::Variable("x".to_string())], fixed(&[0]), 1);
    gate_case(ctx, "X", vec![], vec![Qubit::Variable("q".to_string())], 1);
    gate_case(ctx, "CNOT", vec![], vec![Qubit::Fixed(0), Qubit::Placeholder(QubitPlaceholder::default())], 2);
    gate_case(ctx, "FOO", vec![], vec![Qubit::Variable("q".to_string())], 1); // qubit error wins
    gate_case(ctx, "X", vec![], fixed(&[0]), 0); // u64 underflow in qubit_adjacent_lifted_gate
    gate_case(ctx, "X", vec![], fixed(&[3]), 2);
    gate_case(ctx, "CNOT", vec![], fixed(&[0, 5]), 3); // position().expect panics
    gate_case(ctx, "CNOT", vec![], fixed(&[0]), 3); // arity mismatch: lifted as a 2-qubit gate at start 0
    gate_case(ctx, "X", vec![], fixed(&[0, 2]), 3);
    gate_case(ctx, "X", vec![], vec![], 1); // Gate::new would reject; the struct literal does not
    // exact multiples of 2π: RX/RY/RZ have period 4π, so these are −I (a seeded "identity fast path" in
    // Program::to_unitary skipping `x.re % TAU == 0.0` gates was missed before these were added)
    // a standard gate right after a modified gate whose consumed form equals it (a seeded "same gate in a row" memo in
    // Program::to_unitary that remembered the gate AFTER to_unitary stripped it was missed before stream 7)
    progu_case(ctx, vec![Instruction::Gate(Gate { name: "S".into(), parameters: vec![], qubits: fixed(&[0]), modifiers: vec![GateModifier::Dagger] }), plain("S", vec![], &[0])], 1);
    progu_case(ctx, vec![Instruction::Gate(Gate { name: "X".into(), parameters: vec![], qubits: fixed(&[0, 1]), modifiers: vec![GateModifier::Controlled] }), plain("X", vec![], &[1])], 2);
    progu_case(ctx, vec![Instruction::Gate(Gate { name: "RZ".into(), parameters: vec![real(0.7)], qubits: fixed(&[2]), modifiers: vec![GateModifier::Dagger] }), plain("RZ", vec![real(0.7)], &[2])], 3);
    progu_case(ctx, vec![Instruction::Gate(Gate { name: "RX".into(), parameters: vec![real(0.1), real(0.2)], qubits: fixed(&[0, 1]), modifiers: vec![GateModifier::Forked] }), plain("RX", vec![real(0.2)], &[1])], 2);
    // known finding (C12/is-zero-tolerance showing through a gate parameter): sin(pi) ≈ 1.2e-16 is flushed to 0 by the
    // simplifier, so the angle sqrt((pi+2)*sin(pi)) ≈ 2.5e-8 becomes 0 and RX returns exactly I
    {
        use quil_rs::expression::{ExpressionFunction as F, InfixOperator as I};
        use qvh::expr::{call, infix};
        let e = call(F::SquareRoot, infix(infix(Expression::PiConstant(), I::Plus, real(2.0)), I::Star, call(F::Sine, Expression::PiConstant())));
        gate_case(ctx, "RX", vec![e], fixed(&[0]), 1);
    }
    // unary plus (API only): a seeded fast path that negated every prefix expression was missed before stream 9
    gate_case(ctx, "RX", vec![qvh::expr::prefix(quil_rs::expression::PrefixOperator::Plus, real(0.7))], fixed(&[0]), 1);
    progu_case(ctx, vec![plain("PSWAP", vec![qvh::expr::prefix(quil_rs::expression::PrefixOperator::Plus, qvh::expr::infix(real(0.5), quil_rs::expression::InfixOperator::Plus, real(0.2)))], &[2, 0])], 3);
    progu_case(ctx, vec![plain("RZ", vec![real(2.0 * std::f64::consts::PI)], &[0])], 1);
    progu_case(ctx, vec![plain("RX", vec![real(-2.0 * std::f64::consts::PI)], &[1])], 2);
    progu_case(ctx, vec![Instruction::Gate(parse_gate("RY", "2*pi", &[0]))], 1);
    progu_case(ctx, vec![plain("H", vec![], &[0]), Instruction::Gate(parse_gate("RZ", "-2*pi", &[0])), plain("X", vec![], &[0])], 1);
    gate_case(ctx, "RZ", vec![real(2.0 * std::f64::consts::PI)], fixed(&[0]), 1);

    // ---- 2. every table gate × angles × every injective placement into n ≤ 5
    let mut rng = ctx.rng(14);
    for (name, k, np) in STANDARD_GATES {
        for n in 1..=5u64 {
            if (k as u64) > n {
                continue;
            }
            let n_angles = if np == 0 {
                1
            } else if quick {
                if n <= 3 { 50 } else { 6 }
            } else if n <= 3 {
                1000
            } else {
                150
            };
            for qs in placements(k, n) {
                for a in 0..n_angles {
                    let params = if np == 0 { vec![] } else { vec![real(angle(&mut rng, a))] };
                    gate_case(ctx, name, params, fixed(&qs), n);
                }
            }
        }
    }

    // ---- 3. lifting alone on random matrices (cfg hook)
    let mut rng = ctx.rng(15);
    let reps = if quick { 1 } else { 6 };
    for _ in 0..reps {
        for k in 1..=3usize {
            for n in (k as u64)..=5 {
                for qs in placements(k, n) {
                    let u = random_matrix(&mut rng, 1 << k);
                    lift_case(ctx, &u, &qs, n);
                }
            }
        }
    }
    // out-of-range qubits (panics), k = 1 and k = 2
    let u2 = random_matrix(&mut rng, 2);
    lift_case(ctx, &u2, &[4], 3);
    let u4 = random_matrix(&mut rng, 4);
    lift_case(ctx, &u4, &[1, 7], 3);
    lift_case(ctx, &u4, &[0], 4); // 4×4 on one listed qubit

    // ---- 4. random gates, mostly standard, some broken in one way
    let mut rng = ctx.rng(16);
    let n_random = if quick { 600 } else { 20_000 };
    const ODD_NAMES: [&str; 6] = ["FOO", "x", "Rx", "CPHASE11", "", "SWAPP"];
    for _ in 0..n_random {
        let n = 1 + rng.below(5);
        let (name, k, np) = *rng.pick(&STANDARD_GATES);
        let mut name = name.to_string();
        let mut k = k;
        let mut params: Vec<Expression> = (0..np).map(|i| real(angle(&mut rng, 12 + i))).collect();
        match rng.below(12) {
            0 => name = rng.pick(&ODD_NAMES).to_string(),
            1 => params.push(real(0.25)),
            2 => params = vec![Expression::Variable("t".to_string())],
            3 => k = 1 + rng.below(3) as usize,
            _ => {}
        }
        if k as u64 > n {
            continue;
        }
        let mut qubits = fixed(&random_placement(&mut rng, k, n));
        match rng.below(20) {
            0 => qubits[0] = Qubit::Variable("q".to_string()),
            1 => {
                let last = qubits.len() - 1;
                qubits[last] = Qubit::Placeholder(QubitPlaceholder::default())
            }
            2 => {
                if k == 1 {
                    qubits[0] = Qubit::Fixed(n + rng.below(2))
                }
            }
            _ => {}
        }
        gate_case(ctx, &name, params, qubits, n);
    }

    // ---- 5. beyond the property's range (the lifting theorems are for all n): a few placements into 6 and 7 qubits
    let mut rng = ctx.rng(17);
    let plan: &[(u64, usize)] = if quick { &[(6, 8)] } else { &[(6, 80), (7, 12)] };
    for &(n, count) in plan {
        for _ in 0..count {
            let (name, k, np) = *rng.pick(&STANDARD_GATES);
            let params: Vec<Expression> = (0..np).map(|i| real(angle(&mut rng, 12 + i))).collect();
            let qs = random_placement(&mut rng, k, n);
            gate_case(ctx, name, params, fixed(&qs), n);
        }
    }

    // ---- 6. exact special angles, written as f64 products of PI and as Quil text, for every parameterised table
    // gate, through Gate::to_unitary AND Program::to_unitary (single-gate program, inside a longer program)
    let mut rng = ctx.rng(18);
    for (name, k) in PARAM_GATES {
        for (value, text) in exact_angles() {
            for from_text in [false, true] {
                let tight: Vec<u64> = (0..k as u64).rev().collect();
                let n2 = k as u64 + 1;
                let loose = random_placement(&mut rng, k, n2);
                for (qs, n) in [(tight, k as u64), (loose, n2)] {
                    let g = if from_text {
                        parse_gate(name, text, &qs)
                    } else {
                        Gate { name: name.to_string(), parameters: vec![real(value)], qubits: fixed(&qs), modifiers: vec![] }
                    };
                    gate_case(ctx, name, g.parameters.clone(), g.qubits.clone(), n);
                    progu_case(ctx, vec![Instruction::Gate(g.clone())], n);
                    let last = n - 1;
                    progu_case(
                        ctx,
                        vec![plain("H", vec![], &[qs[0]]), Instruction::Gate(g), plain("RX", vec![real(0.3)], &[last])],
                        n,
                    );
                }
            }
        }
    }

    // ---- 7. every standard gate THROUGH Program::to_unitary next to gates of every kind: a modified gate whose
    // consumed form is exactly the gate under test immediately before it / two positions before it; the gate
    // repeated; HALT / NOP around it
    let mut rng = ctx.rng(19);
    use GateModifier::*;
    let stacks: [&[GateModifier]; 6] = [&[Dagger], &[Controlled], &[Forked], &[Dagger, Controlled], &[Controlled, Dagger], &[Forked, Dagger]];
    for (name, k, np) in STANDARD_GATES {
        let base_params: Vec<Expression> = (0..np).map(|i| real(angle(&mut rng, 12 + i))).collect();
        for stack in stacks {
            let extra = stack.iter().filter(|m| !matches!(m, Dagger)).count();
            let n = (k + extra) as u64 + if rng.chance(1, 3) && k + extra < 4 { 1 } else { 0 };
            let qs = random_placement(&mut rng, k + extra, n);
            let (ex, bq) = qs.split_at(extra);
            let prefix = modified_raw(&mut rng, stack, name, &base_params, ex, bq);
            let s_gate = || plain(name, base_params.clone(), bq);
            progu_case(ctx, vec![Instruction::Gate(prefix.clone()), s_gate()], n);
            progu_case(ctx, vec![Instruction::Gate(prefix.clone()), plain("H", vec![], &[bq[0]]), s_gate()], n);
            if matches!(stack, [Dagger]) {
                progu_case(ctx, vec![s_gate(), Instruction::Gate(prefix), s_gate()], n);
            }
        }
        // repeated identical gates, HALT / NOP around the gate
        let n = k as u64;
        let qs = random_placement(&mut rng, k, n);
        let s_gate = || plain(name, base_params.clone(), &qs);
        progu_case(ctx, vec![s_gate(), s_gate()], n);
        progu_case(ctx, vec![s_gate(), plain("X", vec![], &[qs[0]]), s_gate(), s_gate()], n);
        progu_case(ctx, vec![Instruction::Halt(), s_gate(), Instruction::Halt()], n);
        progu_case(ctx, vec![s_gate(), Instruction::Nop(), s_gate()], n);
    }
    // ---- 8. parameters that only become numbers after simplification, integer-valued, huge and tiny (Quil text)
    for (name, k) in PARAM_GATES {
        for text in EXPR_TEXTS {
            let n = k as u64 + rng.below(2);
            let qs = random_placement(&mut rng, k, n);
            let g = parse_gate(name, text, &qs);
            gate_case(ctx, name, g.parameters.clone(), g.qubits.clone(), n);
            progu_case(ctx, vec![Instruction::Gate(g.clone()), Instruction::Gate(g)], n);
        }
    }

    // ---- 9. the same constant value written in every expression form the AST allows (API-built: the parser never
    // produces unary plus), pi forms, random constant trees of depth ≤ 3, and non-constant parameters (rejected);
    // through Gate::to_unitary and Program::to_unitary. The MODEL evaluates the expression.
    let mut rng = ctx.rng(20);
    for (name, k) in PARAM_GATES {
        let mut forms: Vec<Expression> = Vec::new();
        for v in [0.7, -1.3] {
            forms.extend(constant_forms(v));
        }
        forms.extend(pi_forms());
        let n_random = if quick { 12 } else { 200 };
        for _ in 0..n_random {
            forms.push(random_constant_expr(&mut rng));
        }
        forms.extend(nonconstant_forms());
        for e in forms {
            let n = k as u64 + rng.below(2);
            let qs = random_placement(&mut rng, k, n);
            gate_case(ctx, name, vec![e.clone()], fixed(&qs), n);
            progu_case(ctx, vec![plain("H", vec![], &[qs[0]]), plain(name, vec![e], &qs)], n);
        }
    }
}
