//! C26 — default frame matching follows the Quil-T frame rules.
//!
//! Every case: build a real `Program` (DEFFRAMEs + "added" instructions through `add_instruction`), ask
//! the public `InstructionHandler::matching_frames` of `DefaultHandler` about one instruction, and print
//! `(mf (frames…) (added…) instr)` ↦ `none | (m (used…) (blocked…))` with both sets sorted.
//! The frame list printed is what the real `FrameSet` holds (`get_keys`), not what the generator meant.
use qvh::instrgen::{self, Alpha};
use qvh::*;
use quil_rs::expression::Expression;
use quil_rs::instruction::*;
use quil_rs::Program;

thread_local! {
    /// the distinct placeholders of the current case, numbered by first occurrence (a placeholder's identity
    /// is its `Arc` address; `QubitPlaceholder: Eq` compares exactly that)
    static PLACEHOLDERS: std::cell::RefCell<Vec<QubitPlaceholder>> = Default::default();
}

fn q_sexp(q: &Qubit) -> Sexp {
    match q {
        Qubit::Fixed(n) => nat(*n),
        Qubit::Variable(s) => tagged("v", vec![st(s.clone())]),
        Qubit::Placeholder(p) => PLACEHOLDERS.with(|r| {
            let mut r = r.borrow_mut();
            let k = match r.iter().position(|x| x == p) {
                Some(k) => k,
                None => {
                    r.push(p.clone());
                    r.len() - 1
                }
            };
            tagged("p", vec![nat(k as u64)])
        }),
    }
}

/// A handler that overrides nothing: every method is the trait's default, which must delegate to
/// `DefaultHandler`.
struct PlainHandler;
impl InstructionHandler for PlainHandler {}

fn f_sexp(f: &FrameIdentifier) -> Sexp {
    let mut v = vec![st(f.name.clone())];
    v.extend(f.qubits.iter().map(q_sexp));
    tagged("f", v)
}

fn b_sexp(b: bool) -> Sexp {
    atom(if b { "t" } else { "f" })
}

/// Projection of an instruction to what frame matching and `get_qubits` look at (trusted, see meta).
fn proj(i: &Instruction) -> Sexp {
    match i {
        Instruction::Pulse(p) => tagged("pulse", vec![b_sexp(p.blocking), f_sexp(&p.frame)]),
        Instruction::Capture(p) => tagged("capture", vec![b_sexp(p.blocking), f_sexp(&p.frame)]),
        Instruction::RawCapture(p) => tagged("rawcapture", vec![b_sexp(p.blocking), f_sexp(&p.frame)]),
        Instruction::Delay(d) => tagged(
            "delay",
            vec![
                list(d.frame_names.iter().map(|n| st(n.clone())).collect()),
                list(d.qubits.iter().map(q_sexp).collect()),
            ],
        ),
        Instruction::Fence(f) => tagged("fence", f.qubits.iter().map(q_sexp).collect()),
        Instruction::Reset(r) => tagged("reset", r.qubit.iter().map(q_sexp).collect()),
        Instruction::SetFrequency(x) => tagged("setfreq", vec![f_sexp(&x.frame)]),
        Instruction::SetPhase(x) => tagged("setphase", vec![f_sexp(&x.frame)]),
        Instruction::SetScale(x) => tagged("setscale", vec![f_sexp(&x.frame)]),
        Instruction::ShiftFrequency(x) => tagged("shiftfreq", vec![f_sexp(&x.frame)]),
        Instruction::ShiftPhase(x) => tagged("shiftphase", vec![f_sexp(&x.frame)]),
        Instruction::SwapPhases(x) => tagged("swap", vec![f_sexp(&x.frame_1), f_sexp(&x.frame_2)]),
        Instruction::Gate(g) => tagged("gate", g.qubits.iter().map(q_sexp).collect()),
        Instruction::Measurement(m) => tagged("measure", vec![q_sexp(&m.qubit)]),
        Instruction::CalibrationDefinition(c) => tagged(
            "defcal",
            vec![
                list(c.identifier.qubits.iter().map(q_sexp).collect()),
                list(c.instructions.iter().map(proj).collect()),
            ],
        ),
        Instruction::MeasureCalibrationDefinition(c) => tagged(
            "defcalm",
            vec![q_sexp(&c.identifier.qubit), list(c.instructions.iter().map(proj).collect())],
        ),
        Instruction::FrameDefinition(d) => tagged("defframe", vec![f_sexp(&d.identifier)]),
        other => tagged("other", vec![atom(instrgen::variant_name(other))]),
    }
}

fn deffame(f: &FrameIdentifier) -> Instruction {
    Instruction::FrameDefinition(FrameDefinition { identifier: f.clone(), attributes: FrameAttributes::new() })
}

fn sorted_frames<'a>(it: impl Iterator<Item = &'a FrameIdentifier>) -> Sexp {
    let mut v: Vec<(String, Sexp)> = it
        .map(|f| {
            let s = f_sexp(f);
            (s.to_string(), s)
        })
        .collect();
    v.sort_by(|a, b| a.0.cmp(&b.0));
    list(v.into_iter().map(|x| x.1).collect())
}

fn matched_sexp(m: Option<quil_rs::program::MatchedFrames>) -> Sexp {
    match m {
        None => atom("none"),
        Some(m) => tagged(
            "m",
            vec![sorted_frames(m.used.iter().copied()), sorted_frames(m.blocked.iter().copied())],
        ),
    }
}

/// Observe one query on an already built program whose CONTENT is `content` (projected instructions,
/// DEFFRAMEs included): the default handler, and the trait's default method through a handler that overrides
/// nothing — they must coincide.
fn observe(ctx: &mut Ctx, program: &Program, content: Vec<Sexp>, query: &Instruction) {
    let input = tagged(
        "mf",
        vec![sorted_frames(program.frames.get_keys().into_iter()), list(content), proj(query)],
    );
    ctx.case(input, || {
        let a = matched_sexp(DefaultHandler.matching_frames(program, query));
        let b = matched_sexp(PlainHandler.matching_frames(program, query));
        if a == b {
            a
        } else {
            tagged("handler-mismatch", vec![a, b])
        }
    });
}

/// One case: `frames` are added as DEFFRAMEs first, then `added` (which may itself contain DEFFRAMEs).
fn run_case(ctx: &mut Ctx, frames: &[FrameIdentifier], added: &[Instruction], query: &Instruction) {
    PLACEHOLDERS.with(|r| r.borrow_mut().clear());
    let mut program = Program::new();
    for f in frames {
        program.add_instruction(deffame(f));
    }
    for i in added {
        program.add_instruction(i.clone());
    }
    let mut all_added: Vec<Sexp> = frames.iter().map(|f| proj(&deffame(f))).collect();
    all_added.extend(added.iter().map(proj));
    observe(ctx, &program, all_added, query);
}

/// The same content built through every other public route; each resulting program is queried with every
/// instruction of `queries` (content = what `to_instructions` lists, plus API-inserted frames).
fn run_routes(ctx: &mut Ctx, frames: &[FrameIdentifier], added: &[Instruction], queries: &[Instruction]) {
    PLACEHOLDERS.with(|r| r.borrow_mut().clear());
    let mut all: Vec<Instruction> = frames.iter().map(deffame).collect();
    all.extend(added.iter().cloned());
    let content = |p: &Program| -> Vec<Sexp> { p.to_instructions().iter().map(proj).collect() };
    let mut programs: Vec<(&str, Program)> = vec![];
    programs.push(("from_instructions", Program::from_instructions(all.clone())));
    let mut p = Program::new();
    p.add_instructions(all.clone());
    programs.push(("add_instructions", p));
    // frames through the FrameSet API only (no DEFFRAME instruction ever added)
    let mut p = Program::new();
    for f in frames {
        p.frames.insert(f.clone(), FrameAttributes::new());
    }
    p.add_instructions(added.to_vec());
    programs.push(("frames.insert", p));
    // `+` and `+=` of two halves, each half defining some of the frames (so that `FrameSet::merge` really
    // has to merge) and carrying some of the instructions
    let half = added.len() / 2;
    let fhalf = frames.len() / 2;
    let mut left_instrs: Vec<Instruction> = frames[..fhalf].iter().map(deffame).collect();
    left_instrs.extend(added[..half].iter().cloned());
    let left = Program::from_instructions(left_instrs);
    let mut right_instrs: Vec<Instruction> = frames[fhalf..].iter().map(deffame).collect();
    right_instrs.extend(added[half..].iter().cloned());
    let right = Program::from_instructions(right_instrs);
    programs.push(("add", left.clone() + right.clone()));
    let mut p = left.clone();
    p += right;
    programs.push(("add_assign", p));
    programs.push(("clone", programs[0].1.clone()));
    // printed and parsed back (only when the text round-trips to the same instruction list)
    if let Ok(text) = quil_rs::quil::Quil::to_quil(&programs[0].1) {
        if let Ok(parsed) = <Program as std::str::FromStr>::from_str(&text) {
            if parsed.to_instructions() == programs[0].1.to_instructions() {
                programs.push(("from_str", parsed));
            }
        }
    }
    // calibration expansion keeps the definitions and rebuilds the used qubits from the result
    if let Ok(expanded) = programs[0].1.expand_calibrations() {
        programs.push(("expand_calibrations", expanded));
    }
    // The content sent to the model is the GENERATOR's (`all`), so that a route losing or inventing a frame
    // or an instruction shows up in the key cross-check / the used qubits; only calibration expansion
    // legitimately changes the content, there it is read back from the result.
    let generator_content: Vec<Sexp> = all.iter().map(proj).collect();
    for (route, program) in &programs {
        let c = if *route == "expand_calibrations" { content(program) } else { generator_content.clone() };
        for q in queries {
            observe(ctx, program, c.clone(), q);
        }
    }
    // one object, grown step by step: the used-qubit cache is observed after every addition
    let mut p = Program::new();
    let mut c: Vec<Sexp> = vec![];
    for i in &all {
        p.add_instruction(i.clone());
        c.push(proj(i));
        for q in queries {
            observe(ctx, &p, c.clone(), q);
        }
    }
    // program-level sibling: `simplify` keeps exactly the frames some body instruction uses (programs
    // without calibrations, where expansion is the identity)
    let no_cal = all.iter().all(|i| {
        !matches!(i, Instruction::CalibrationDefinition(_) | Instruction::MeasureCalibrationDefinition(_))
    });
    if no_cal {
        let program = &programs[0].1;
        let input = tagged("simp", vec![sorted_frames(program.frames.get_keys().into_iter()), list(content(program))]);
        ctx.case(input, || match program.simplify(&DefaultHandler) {
            Ok(s) => tagged("frames", match sorted_frames(s.frames.get_keys().into_iter()) {
                Sexp::List(v) => v,
                _ => unreachable!(),
            }),
            Err(e) => tagged("err", vec![st(format!("{e} / {e:?}"))]),
        });
    }
}

fn one() -> Expression {
    Expression::Number(num_complex::Complex64::new(1.0, 0.0))
}
fn wf() -> WaveformInvocation {
    WaveformInvocation { name: "w".to_string(), parameters: Default::default() }
}
fn mr() -> MemoryReference {
    MemoryReference { name: "ro".to_string(), index: 0 }
}

/// all lists over `xs` of length in `lo..=hi`
fn lists<T: Clone>(xs: &[T], lo: usize, hi: usize) -> Vec<Vec<T>> {
    let mut out = vec![];
    let mut cur: Vec<Vec<T>> = vec![vec![]];
    for len in 0..=hi {
        if len >= lo {
            out.extend(cur.iter().cloned());
        }
        let mut next = vec![];
        for l in &cur {
            for x in xs {
                let mut l2 = l.clone();
                l2.push(x.clone());
                next.push(l2);
            }
        }
        cur = next;
    }
    out
}

fn frame_universe(qs: &[Qubit], names: &[&str]) -> Vec<FrameIdentifier> {
    let mut u = vec![];
    for n in names {
        for ql in lists(qs, 1, 2) {
            u.push(FrameIdentifier { name: n.to_string(), qubits: ql });
        }
    }
    u
}

/// every frame-related instruction over the alphabet; `with_swap` = include all SWAP-PHASES pairs
fn frame_instructions(qs: &[Qubit], names: &[&str], with_swap: bool) -> Vec<Instruction> {
    let u = frame_universe(qs, names);
    let mut v = vec![];
    for f in &u {
        for blocking in [false, true] {
            v.push(Instruction::Pulse(Pulse { blocking, frame: f.clone(), waveform: wf() }));
            v.push(Instruction::Capture(Capture {
                blocking,
                frame: f.clone(),
                memory_reference: mr(),
                waveform: wf(),
            }));
            v.push(Instruction::RawCapture(RawCapture {
                blocking,
                frame: f.clone(),
                duration: one(),
                memory_reference: mr(),
            }));
        }
        v.push(Instruction::SetFrequency(SetFrequency { frame: f.clone(), frequency: one() }));
        v.push(Instruction::SetPhase(SetPhase { frame: f.clone(), phase: one() }));
        v.push(Instruction::SetScale(SetScale { frame: f.clone(), scale: one() }));
        v.push(Instruction::ShiftFrequency(ShiftFrequency { frame: f.clone(), frequency: one() }));
        v.push(Instruction::ShiftPhase(ShiftPhase { frame: f.clone(), phase: one() }));
    }
    if with_swap {
        for f1 in &u {
            for f2 in &u {
                v.push(Instruction::SwapPhases(SwapPhases { frame_1: f1.clone(), frame_2: f2.clone() }));
            }
        }
    } else {
        // a diagonal + shifted-diagonal sample of the pairs
        for (k, f1) in u.iter().enumerate() {
            v.push(Instruction::SwapPhases(SwapPhases { frame_1: f1.clone(), frame_2: f1.clone() }));
            let f2 = &u[(k * 7 + 3) % u.len()];
            v.push(Instruction::SwapPhases(SwapPhases { frame_1: f1.clone(), frame_2: f2.clone() }));
        }
    }
    for ql in lists(qs, 0, 2) {
        v.push(Instruction::Fence(Fence { qubits: ql.clone() }));
        for nl in lists(names, 0, 2) {
            v.push(Instruction::Delay(Delay {
                duration: one(),
                frame_names: nl.iter().map(|s| s.to_string()).collect(),
                qubits: ql.clone(),
            }));
        }
    }
    for q in qs {
        v.push(Instruction::Reset(Reset { qubit: Some(q.clone()) }));
    }
    v
}

fn xgate(q: &Qubit) -> Instruction {
    Instruction::Gate(Gate { name: "X".to_string(), parameters: vec![], qubits: vec![q.clone()], modifiers: vec![] })
}

/// program bodies that make the used-qubit set range over every subset of `qs`, through different
/// qubit-bearing instruction kinds
fn bodies_for_reset(qs: &[Qubit]) -> Vec<Vec<Instruction>> {
    let mut out = vec![];
    for mask in 0..(1u32 << qs.len()) {
        let sub: Vec<&Qubit> = qs.iter().enumerate().filter(|(k, _)| mask >> k & 1 == 1).map(|x| x.1).collect();
        out.push(sub.iter().map(|q| xgate(q)).collect());
    }
    if let Some(q0) = qs.first() {
        let q1 = qs.last().unwrap();
        let fr = FrameIdentifier { name: "zz".to_string(), qubits: vec![q0.clone(), q1.clone()] };
        out.push(vec![Instruction::Measurement(Measurement { name: None, qubit: q0.clone(), target: None })]);
        out.push(vec![Instruction::Pulse(Pulse { blocking: false, frame: fr.clone(), waveform: wf() })]);
        out.push(vec![Instruction::Fence(Fence { qubits: vec![q1.clone()] })]);
        out.push(vec![Instruction::Delay(Delay { duration: one(), frame_names: vec![], qubits: vec![q1.clone()] })]);
        out.push(vec![Instruction::Reset(Reset { qubit: Some(q0.clone()) })]);
        // frame updates and SWAP-PHASES count too (since fix a86534e; before it they did not)
        out.push(vec![Instruction::SetPhase(SetPhase { frame: fr.clone(), phase: one() })]);
        out.push(vec![Instruction::SwapPhases(SwapPhases { frame_1: fr.clone(), frame_2: fr.clone() })]);
        // calibration definitions count, header and body
        out.push(vec![Instruction::CalibrationDefinition(CalibrationDefinition {
            identifier: CalibrationIdentifier {
                modifiers: vec![],
                name: "X".to_string(),
                parameters: vec![],
                qubits: vec![q0.clone()],
            },
            instructions: vec![Instruction::Capture(Capture {
                blocking: true,
                frame: FrameIdentifier { name: "ro".to_string(), qubits: vec![q1.clone()] },
                memory_reference: mr(),
                waveform: wf(),
            })],
        })]);
        out.push(vec![Instruction::MeasureCalibrationDefinition(MeasureCalibrationDefinition {
            identifier: MeasureCalibrationIdentifier { name: None, qubit: q1.clone(), target: None },
            instructions: vec![xgate(q0)],
        })]);
        // used qubits coming ONLY from a calibration body (header on a variable qubit), two levels deep
        out.push(vec![Instruction::CalibrationDefinition(CalibrationDefinition {
            identifier: CalibrationIdentifier {
                modifiers: vec![],
                name: "X".to_string(),
                parameters: vec![],
                qubits: vec![Qubit::Variable("q".to_string())],
            },
            instructions: vec![
                Instruction::Fence(Fence { qubits: vec![q1.clone()] }),
                Instruction::MeasureCalibrationDefinition(MeasureCalibrationDefinition {
                    identifier: MeasureCalibrationIdentifier { name: None, qubit: q0.clone(), target: None },
                    instructions: vec![],
                }),
            ],
        })]);
        // a circuit definition's body does NOT count
        out.push(vec![Instruction::CircuitDefinition(CircuitDefinition {
            name: "c".to_string(),
            parameters: vec![],
            qubit_variables: vec![],
            instructions: vec![xgate(q0), xgate(q1)],
        })]);
        // nor does a frame definition on these qubits
        out.push(vec![deffame(&fr)]);
    }
    out
}

/// all subsets of `u` of size ≤ k, by increasing size, lexicographic
fn subsets_up_to(n: usize, k: usize) -> Vec<Vec<usize>> {
    let mut out = vec![vec![]];
    let mut cur: Vec<Vec<usize>> = vec![vec![]];
    for _ in 0..k {
        let mut next = vec![];
        for s in &cur {
            let start = s.last().map_or(0, |x| x + 1);
            for j in start..n {
                let mut s2 = s.clone();
                s2.push(j);
                next.push(s2);
            }
        }
        out.extend(next.iter().cloned());
        cur = next;
    }
    out
}

/// `stride`: take every `stride`-th frame set of the enumeration
fn exhaustive(ctx: &mut Ctx, qs: &[Qubit], names: &[&str], max_frames: usize, with_swap: bool, stride: usize) {
    let u = frame_universe(qs, names);
    let instrs = frame_instructions(qs, names, with_swap);
    let bodies = bodies_for_reset(qs);
    let reset_all = Instruction::Reset(Reset { qubit: None });
    let mut rr = 0usize;
    for s in subsets_up_to(u.len(), max_frames).into_iter().step_by(stride) {
        let frames: Vec<FrameIdentifier> = s.iter().map(|&j| u[j].clone()).collect();
        for i in &instrs {
            // the program's used qubits range over every subset of the alphabet (round robin; the first
            // 2^|qs| bodies are the X-gate bodies, body 0 is empty), so that no instruction kind is only ever
            // seen against "no qubit in use"
            let b = &bodies[rr % (1usize << qs.len())];
            rr += 1;
            run_case(ctx, &frames, b, i);
        }
        for b in &bodies {
            run_case(ctx, &frames, b, &reset_all);
        }
    }
}

fn fixed(n: u64) -> Qubit {
    Qubit::Fixed(n)
}

fn main() {
    main_with(run)
}

fn run(ctx: &mut Ctx) {
    // ---- 1. corpus: the shapes the statement names + past surprises
    {
        let f = |n: &str, qs: &[u64]| FrameIdentifier { name: n.to_string(), qubits: qs.iter().map(|&q| fixed(q)).collect() };
        let frames = vec![f("a", &[0]), f("b", &[0, 1]), f("a", &[1]), f("c", &[1, 0]), f("a", &[2]), f("b", &[1, 1])];
        let body = vec![xgate(&fixed(0)), xgate(&fixed(1))];
        let pulse = |blocking, fr: &FrameIdentifier| Instruction::Pulse(Pulse { blocking, frame: fr.clone(), waveform: wf() });
        let delay = |ns: &[&str], qs: &[u64]| {
            Instruction::Delay(Delay {
                duration: one(),
                frame_names: ns.iter().map(|s| s.to_string()).collect(),
                qubits: qs.iter().map(|&q| fixed(q)).collect(),
            })
        };
        let queries = vec![
            pulse(true, &frames[0]),
            pulse(false, &frames[0]),
            pulse(true, &f("zz", &[1])),   // undefined frame, still blocks its neighbours
            pulse(true, &f("b", &[1, 0])), // same name and qubit set, different order: a different frame
            pulse(true, &frames[5]),       // repeated qubit in the identifier
            Instruction::SwapPhases(SwapPhases { frame_1: frames[0].clone(), frame_2: frames[2].clone() }),
            Instruction::SwapPhases(SwapPhases { frame_1: frames[0].clone(), frame_2: frames[0].clone() }),
            Instruction::Fence(Fence { qubits: vec![] }),
            Instruction::Fence(Fence { qubits: vec![fixed(1)] }),
            Instruction::Fence(Fence { qubits: vec![fixed(7)] }),
            delay(&[], &[1, 0]),
            delay(&[], &[0, 0]),
            delay(&["a"], &[0]),
            delay(&["b", "c"], &[0, 1]),
            delay(&["a"], &[]),
            Instruction::Reset(Reset { qubit: Some(fixed(0)) }),
            Instruction::Reset(Reset { qubit: Some(fixed(1)) }),
            Instruction::Reset(Reset { qubit: None }),
            xgate(&fixed(0)),
            Instruction::Halt(),
        ];
        for q in &queries {
            run_case(ctx, &frames, &body, q);
            run_case(ctx, &frames, &[], q);
            run_case(ctx, &[], &body, q);
        }
    }

    // ---- 2. exhaustive enumerations
    let q2 = [fixed(0), fixed(1)];
    let q3 = [fixed(0), fixed(1), fixed(2)];
    if ctx.quick() {
        // {0,1} × {a,b}: all 12 frames, every set of ≤ 4 of them, every instruction incl. all SWAP pairs
        exhaustive(ctx, &q2, &["a", "b"], 4, true, 1);
        // {0,1,2} × {a,b,c}: all 36 frames, sets of ≤ 1, every instruction incl. all 1296 SWAP pairs
        exhaustive(ctx, &q3, &["a", "b", "c"], 1, true, 1);
    } else {
        exhaustive(ctx, &q2, &["a", "b"], 4, true, 1);
        // all sets of ≤ 2 of the 36 frames × every instruction incl. all SWAP pairs
        exhaustive(ctx, &q3, &["a", "b", "c"], 2, true, 1);
        // every 4th set of ≤ 3 frames × every instruction (SWAP pairs sampled)
        exhaustive(ctx, &q3, &["a", "b", "c"], 3, false, 4);
    }

    // ---- 2b. special shapes: boundary qubit indices, names differing only in case / empty, repeated names
    // and qubits, placeholders (identity = Arc address), a frame set with more than 32 entries
    {
        let f = |n: &str, qs: Vec<Qubit>| FrameIdentifier { name: n.to_string(), qubits: qs };
        let big = fixed(u64::MAX);
        let big2 = fixed(1u64 << 63);
        let p1 = Qubit::Placeholder(QubitPlaceholder::default());
        let p2 = Qubit::Placeholder(QubitPlaceholder::default());
        let mut frames = vec![
            f("a", vec![fixed(0)]),
            f("A", vec![fixed(0)]),
            f("", vec![fixed(0)]),
            f("a", vec![big.clone()]),
            f("a", vec![big2.clone(), big.clone()]),
            f("a", vec![p1.clone()]),
            f("b", vec![p1.clone(), p2.clone()]),
            f("b", vec![p2.clone(), p1.clone()]),
            f("c", vec![p2.clone(), p2.clone()]),
            f("a", vec![Qubit::Variable("q".to_string())]),
            f("a", vec![Qubit::Variable("Q".to_string())]),
        ];
        let pulse = |blocking, fr: &FrameIdentifier| Instruction::Pulse(Pulse { blocking, frame: fr.clone(), waveform: wf() });
        let delay = |ns: &[&str], qs: Vec<Qubit>| {
            Instruction::Delay(Delay { duration: one(), frame_names: ns.iter().map(|s| s.to_string()).collect(), qubits: qs })
        };
        let mut queries = vec![
            Instruction::Reset(Reset { qubit: None }),
            Instruction::Fence(Fence { qubits: vec![] }),
            Instruction::Fence(Fence { qubits: vec![p1.clone()] }),
            Instruction::Fence(Fence { qubits: vec![big.clone(), big.clone()] }),
            Instruction::Fence(Fence { qubits: vec![Qubit::Placeholder(QubitPlaceholder::default())] }),
            Instruction::Reset(Reset { qubit: Some(p2.clone()) }),
            Instruction::Reset(Reset { qubit: Some(big.clone()) }),
            delay(&[], vec![p1.clone(), p2.clone()]),
            delay(&["b", "b"], vec![p2.clone(), p1.clone(), p1.clone()]),
            delay(&["A"], vec![fixed(0)]),
            delay(&[""], vec![fixed(0), fixed(0)]),
            delay(&["a", ""], vec![fixed(0)]),
            delay(&[], vec![big.clone(), big2.clone()]),
            delay(&[], vec![Qubit::Variable("Q".to_string())]),
        ];
        for fr in &frames {
            queries.push(pulse(true, fr));
            queries.push(Instruction::SwapPhases(SwapPhases { frame_1: fr.clone(), frame_2: frames[0].clone() }));
        }
        let bodies: Vec<Vec<Instruction>> = vec![
            vec![],
            vec![xgate(&p1)],
            vec![xgate(&p1), xgate(&p2)],
            vec![xgate(&big), xgate(&big2)],
            vec![xgate(&fixed(0)), xgate(&Qubit::Variable("q".to_string()))],
        ];
        for b in &bodies {
            for q in &queries {
                run_case(ctx, &frames, b, q);
            }
        }
        // 40 more frames: the result sets exceed 32 entries
        for k in 0..40u64 {
            frames.push(f(if k % 2 == 0 { "a" } else { "w" }, vec![fixed(k % 5), fixed(100 + k)]));
        }
        for q in &queries {
            run_case(ctx, &frames, &bodies[4], q);
        }
        let wide = Instruction::Fence(Fence { qubits: (0..40).map(|k| fixed(100 + k)).collect() });
        run_case(ctx, &frames, &bodies[3], &wide);
    }

    // ---- 2c. every other public route to the same program content (from_instructions, add_instructions,
    // FrameSet::insert, `+`, `+=`, clone, print + parse, expand_calibrations), one object grown step by step
    // with the used-qubit cache observed after every addition, and the program-level sibling `simplify`
    {
        let f = |n: &str, qs: &[u64]| FrameIdentifier { name: n.to_string(), qubits: qs.iter().map(|&q| fixed(q)).collect() };
        let frame_sets = vec![
            vec![f("a", &[0]), f("b", &[0, 1]), f("a", &[1]), f("c", &[2])],
            vec![f("a", &[0, 1]), f("a", &[1, 0]), f("b", &[2])],
        ];
        let queries = vec![
            Instruction::Reset(Reset { qubit: None }),
            Instruction::Fence(Fence { qubits: vec![fixed(0), fixed(1)] }),
            Instruction::Fence(Fence { qubits: vec![fixed(2)] }),
            Instruction::Delay(Delay { duration: one(), frame_names: vec![], qubits: vec![fixed(1), fixed(0)] }),
            Instruction::Reset(Reset { qubit: Some(fixed(0)) }),
            Instruction::Pulse(Pulse { blocking: true, frame: f("a", &[0]), waveform: wf() }),
        ];
        for frames in &frame_sets {
            for b in bodies_for_reset(&q3) {
                run_routes(ctx, frames, &b, &queries);
            }
        }
        let mut rng = ctx.rng(2600);
        let mut alpha = Alpha::small();
        alpha.expr_depth = 1;
        let n = if ctx.quick() { 120 } else { 4000 };
        for _ in 0..n {
            let frames: Vec<FrameIdentifier> = (0..rng.below(5)).map(|_| instrgen::frame(&mut rng, &alpha)).collect();
            let mut added: Vec<Instruction> = (0..rng.below(5)).map(|_| instrgen::any_instruction(&mut rng, &alpha, 1)).collect();
            // instructions that actually play on defined frames (so that `simplify` has something to keep)
            for _ in 0..rng.below(3) {
                if let Some(fr) = (!frames.is_empty()).then(|| rng.pick(&frames).clone()) {
                    added.push(match rng.below(4) {
                        0 => Instruction::Pulse(Pulse { blocking: rng.chance(1, 2), frame: fr, waveform: wf() }),
                        1 => Instruction::SetPhase(SetPhase { frame: fr, phase: one() }),
                        2 => Instruction::Delay(Delay { duration: one(), frame_names: vec![], qubits: fr.qubits.clone() }),
                        _ => Instruction::Fence(Fence { qubits: fr.qubits[..1].to_vec() }),
                    });
                }
            }
            let mut qs = queries[..3].to_vec();
            qs.push(instrgen::any_instruction(&mut rng, &alpha, 0));
            run_routes(ctx, &frames, &added, &qs);
        }
    }

    // ---- 3. seeded random: larger frame sets, variable qubits, every Instruction variant as query
    // and as program content
    let mut rng = ctx.rng(26);
    let mut alpha = Alpha::small();
    alpha.qubits.push(Qubit::Variable("q".to_string()));
    alpha.qubits.push(Qubit::Placeholder(QubitPlaceholder::default()));
    alpha.qubits.push(Qubit::Placeholder(QubitPlaceholder::default()));
    alpha.frame_names.push("A".to_string());
    alpha.expr_depth = 1;
    let n_random = if ctx.quick() { 12_000 } else { 400_000 };
    for k in 0..n_random {
        let n_frames = rng.below(7);
        let mut frames: Vec<FrameIdentifier> = (0..n_frames).map(|_| instrgen::frame(&mut rng, &alpha)).collect();
        if rng.chance(1, 8) {
            // three-qubit frames and frames without qubits
            frames.push(FrameIdentifier { name: "a".to_string(), qubits: instrgen::qubits(&mut rng, &alpha, 0, 3) });
        }
        let added: Vec<Instruction> = (0..rng.below(4)).map(|_| instrgen::any_instruction(&mut rng, &alpha, 1)).collect();
        // every variant in turn, so that all 40 are exercised evenly
        let variant = instrgen::VARIANTS[k % instrgen::VARIANTS.len()];
        let mut query = instrgen::gen_variant(&mut rng, &alpha, variant, 1);
        // bias frame-carrying queries towards frames that exist
        if !frames.is_empty() && rng.chance(2, 3) {
            let fr = rng.pick(&frames).clone();
            match &mut query {
                Instruction::Pulse(x) => x.frame = fr,
                Instruction::Capture(x) => x.frame = fr,
                Instruction::RawCapture(x) => x.frame = fr,
                Instruction::SetFrequency(x) => x.frame = fr,
                Instruction::SetPhase(x) => x.frame = fr,
                Instruction::SetScale(x) => x.frame = fr,
                Instruction::ShiftFrequency(x) => x.frame = fr,
                Instruction::ShiftPhase(x) => x.frame = fr,
                Instruction::SwapPhases(x) => {
                    x.frame_1 = fr;
                    if rng.chance(1, 2) {
                        x.frame_2 = rng.pick(&frames).clone();
                    }
                }
                Instruction::Delay(x) => {
                    x.qubits = fr.qubits.clone();
                    if rng.chance(1, 2) {
                        x.qubits.reverse();
                    }
                }
                _ => {}
            }
        }
        run_case(ctx, &frames, &added, &query);
    }
}
