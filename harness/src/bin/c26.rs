//! C26 — default frame matching follows the Quil-T frame rules.
//!
//! Every case: build a real `Program` (DEFFRAMEs + "added" instructions through `add_instruction`), ask
//! the public `InstructionHandler::matching_frames` of `DefaultHandler` about one instruction, and print
//! `(mf (frames…) (added…) instr)` ↦ `none | (m (used…) (blocked…))` with both sets sorted.
//! The frame list printed is what the real `FrameSet` holds (`get_keys`), not what the generator meant.
use qvh::instrgen::{self, Alpha};
use qvh::*;
use quil_rs::expression::Expression;
use quil_rs::instruction::*;
use quil_rs::Program;

fn q_sexp(q: &Qubit) -> Sexp {
    match q {
        Qubit::Fixed(n) => nat(*n),
        Qubit::Variable(s) => tagged("v", vec![st(s.clone())]),
        Qubit::Placeholder(_) => panic!("placeholders are not generated"),
    }
}

fn f_sexp(f: &FrameIdentifier) -> Sexp {
    let mut v = vec![st(f.name.clone())];
    v.extend(f.qubits.iter().map(q_sexp));
    tagged("f", v)
}

fn b_sexp(b: bool) -> Sexp {
    atom(if b { "t" } else { "f" })
}

/// Projection of an instruction to what frame matching and `get_qubits` look at (trusted, see meta).
fn proj(i: &Instruction) -> Sexp {
    match i {
        Instruction::Pulse(p) => tagged("pulse", vec![b_sexp(p.blocking), f_sexp(&p.frame)]),
        Instruction::Capture(p) => tagged("capture", vec![b_sexp(p.blocking), f_sexp(&p.frame)]),
        Instruction::RawCapture(p) => tagged("rawcapture", vec![b_sexp(p.blocking), f_sexp(&p.frame)]),
        Instruction::Delay(d) => tagged(
            "delay",
            vec![
                list(d.frame_names.iter().map(|n| st(n.clone())).collect()),
                list(d.qubits.iter().map(q_sexp).collect()),
            ],
        ),
        Instruction::Fence(f) => tagged("fence", f.qubits.iter().map(q_sexp).collect()),
        Instruction::Reset(r) => tagged("reset", r.qubit.iter().map(q_sexp).collect()),
        Instruction::SetFrequency(x) => tagged("setfreq", vec![f_sexp(&x.frame)]),
        Instruction::SetPhase(x) => tagged("setphase", vec![f_sexp(&x.frame)]),
        Instruction::SetScale(x) => tagged("setscale", vec![f_sexp(&x.frame)]),
        Instruction::ShiftFrequency(x) => tagged("shiftfreq", vec![f_sexp(&x.frame)]),
        Instruction::ShiftPhase(x) => tagged("shiftphase", vec![f_sexp(&x.frame)]),
        Instruction::SwapPhases(x) => tagged("swap", vec![f_sexp(&x.frame_1), f_sexp(&x.frame_2)]),
        Instruction::Gate(g) => tagged("gate", g.qubits.iter().map(q_sexp).collect()),
        Instruction::Measurement(m) => tagged("measure", vec![q_sexp(&m.qubit)]),
        Instruction::CalibrationDefinition(c) => tagged(
            "defcal",
            vec![
                list(c.identifier.qubits.iter().map(q_sexp).collect()),
                list(c.instructions.iter().map(proj).collect()),
            ],
        ),
        Instruction::MeasureCalibrationDefinition(c) => tagged(
            "defcalm",
            vec![q_sexp(&c.identifier.qubit), list(c.instructions.iter().map(proj).collect())],
        ),
        other => tagged("other", vec![atom(instrgen::variant_name(other))]),
    }
}

fn deffame(f: &FrameIdentifier) -> Instruction {
    Instruction::FrameDefinition(FrameDefinition { identifier: f.clone(), attributes: FrameAttributes::new() })
}

fn sorted_frames<'a>(it: impl Iterator<Item = &'a FrameIdentifier>) -> Sexp {
    let mut v: Vec<(String, Sexp)> = it
        .map(|f| {
            let s = f_sexp(f);
            (s.to_string(), s)
        })
        .collect();
    v.sort_by(|a, b| a.0.cmp(&b.0));
    list(v.into_iter().map(|x| x.1).collect())
}

/// One case: `frames` are added as DEFFRAMEs first, then `added` (which may itself contain DEFFRAMEs).
fn run_case(ctx: &mut Ctx, frames: &[FrameIdentifier], added: &[Instruction], query: &Instruction) {
    let mut program = Program::new();
    for f in frames {
        program.add_instruction(deffame(f));
    }
    for i in added {
        program.add_instruction(i.clone());
    }
    let mut all_added: Vec<Sexp> = frames.iter().map(|f| proj(&deffame(f))).collect();
    all_added.extend(added.iter().map(proj));
    let input = tagged(
        "mf",
        vec![sorted_frames(program.frames.get_keys().into_iter()), list(all_added), proj(query)],
    );
    ctx.case(input, || match DefaultHandler.matching_frames(&program, query) {
        None => atom("none"),
        Some(m) => tagged(
            "m",
            vec![sorted_frames(m.used.iter().copied()), sorted_frames(m.blocked.iter().copied())],
        ),
    });
}

fn one() -> Expression {
    Expression::Number(num_complex::Complex64::new(1.0, 0.0))
}
fn wf() -> WaveformInvocation {
    WaveformInvocation { name: "w".to_string(), parameters: Default::default() }
}
fn mr() -> MemoryReference {
    MemoryReference { name: "ro".to_string(), index: 0 }
}

/// all lists over `xs` of length in `lo..=hi`
fn lists<T: Clone>(xs: &[T], lo: usize, hi: usize) -> Vec<Vec<T>> {
    let mut out = vec![];
    let mut cur: Vec<Vec<T>> = vec![vec![]];
    for len in 0..=hi {
        if len >= lo {
            out.extend(cur.iter().cloned());
        }
        let mut next = vec![];
        for l in &cur {
            for x in xs {
                let mut l2 = l.clone();
                l2.push(x.clone());
                next.push(l2);
            }
        }
        cur = next;
    }
    out
}

fn frame_universe(qs: &[Qubit], names: &[&str]) -> Vec<FrameIdentifier> {
    let mut u = vec![];
    for n in names {
        for ql in lists(qs, 1, 2) {
            u.push(FrameIdentifier { name: n.to_string(), qubits: ql });
        }
    }
    u
}

/// every frame-related instruction over the alphabet; `with_swap` = include all SWAP-PHASES pairs
fn frame_instructions(qs: &[Qubit], names: &[&str], with_swap: bool) -> Vec<Instruction> {
    let u = frame_universe(qs, names);
    let mut v = vec![];
    for f in &u {
        for blocking in [false, true] {
            v.push(Instruction::Pulse(Pulse { blocking, frame: f.clone(), waveform: wf() }));
            v.push(Instruction::Capture(Capture {
                blocking,
                frame: f.clone(),
                memory_reference: mr(),
                waveform: wf(),
            }));
            v.push(Instruction::RawCapture(RawCapture {
                blocking,
                frame: f.clone(),
                duration: one(),
                memory_reference: mr(),
            }));
        }
        v.push(Instruction::SetFrequency(SetFrequency { frame: f.clone(), frequency: one() }));
        v.push(Instruction::SetPhase(SetPhase { frame: f.clone(), phase: one() }));
        v.push(Instruction::SetScale(SetScale { frame: f.clone(), scale: one() }));
        v.push(Instruction::ShiftFrequency(ShiftFrequency { frame: f.clone(), frequency: one() }));
        v.push(Instruction::ShiftPhase(ShiftPhase { frame: f.clone(), phase: one() }));
    }
    if with_swap {
        for f1 in &u {
            for f2 in &u {
                v.push(Instruction::SwapPhases(SwapPhases { frame_1: f1.clone(), frame_2: f2.clone() }));
            }
        }
    } else {
        // a diagonal + shifted-diagonal sample of the pairs
        for (k, f1) in u.iter().enumerate() {
            v.push(Instruction::SwapPhases(SwapPhases { frame_1: f1.clone(), frame_2: f1.clone() }));
            let f2 = &u[(k * 7 + 3) % u.len()];
            v.push(Instruction::SwapPhases(SwapPhases { frame_1: f1.clone(), frame_2: f2.clone() }));
        }
    }
    for ql in lists(qs, 0, 2) {
        v.push(Instruction::Fence(Fence { qubits: ql.clone() }));
        for nl in lists(names, 0, 2) {
            v.push(Instruction::Delay(Delay {
                duration: one(),
                frame_names: nl.iter().map(|s| s.to_string()).collect(),
                qubits: ql.clone(),
            }));
        }
    }
    for q in qs {
        v.push(Instruction::Reset(Reset { qubit: Some(q.clone()) }));
    }
    v
}

fn xgate(q: &Qubit) -> Instruction {
    Instruction::Gate(Gate { name: "X".to_string(), parameters: vec![], qubits: vec![q.clone()], modifiers: vec![] })
}

/// program bodies that make the used-qubit set range over every subset of `qs`, through different
/// qubit-bearing instruction kinds
fn bodies_for_reset(qs: &[Qubit]) -> Vec<Vec<Instruction>> {
    let mut out = vec![];
    for mask in 0..(1u32 << qs.len()) {
        let sub: Vec<&Qubit> = qs.iter().enumerate().filter(|(k, _)| mask >> k & 1 == 1).map(|x| x.1).collect();
        out.push(sub.iter().map(|q| xgate(q)).collect());
    }
    if let Some(q0) = qs.first() {
        let q1 = qs.last().unwrap();
        let fr = FrameIdentifier { name: "zz".to_string(), qubits: vec![q0.clone(), q1.clone()] };
        out.push(vec![Instruction::Measurement(Measurement { name: None, qubit: q0.clone(), target: None })]);
        out.push(vec![Instruction::Pulse(Pulse { blocking: false, frame: fr.clone(), waveform: wf() })]);
        out.push(vec![Instruction::Fence(Fence { qubits: vec![q1.clone()] })]);
        out.push(vec![Instruction::Delay(Delay { duration: one(), frame_names: vec![], qubits: vec![q1.clone()] })]);
        out.push(vec![Instruction::Reset(Reset { qubit: Some(q0.clone()) })]);
        // frame updates and SWAP-PHASES count too (since fix a86534e; before it they did not)
        out.push(vec![Instruction::SetPhase(SetPhase { frame: fr.clone(), phase: one() })]);
        out.push(vec![Instruction::SwapPhases(SwapPhases { frame_1: fr.clone(), frame_2: fr.clone() })]);
        // calibration definitions count, header and body
        out.push(vec![Instruction::CalibrationDefinition(CalibrationDefinition {
            identifier: CalibrationIdentifier {
                modifiers: vec![],
                name: "X".to_string(),
                parameters: vec![],
                qubits: vec![q0.clone()],
            },
            instructions: vec![Instruction::Capture(Capture {
                blocking: true,
                frame: FrameIdentifier { name: "ro".to_string(), qubits: vec![q1.clone()] },
                memory_reference: mr(),
                waveform: wf(),
            })],
        })]);
        out.push(vec![Instruction::MeasureCalibrationDefinition(MeasureCalibrationDefinition {
            identifier: MeasureCalibrationIdentifier { name: None, qubit: q1.clone(), target: None },
            instructions: vec![xgate(q0)],
        })]);
    }
    out
}

/// all subsets of `u` of size ≤ k, by increasing size, lexicographic
fn subsets_up_to(n: usize, k: usize) -> Vec<Vec<usize>> {
    let mut out = vec![vec![]];
    let mut cur: Vec<Vec<usize>> = vec![vec![]];
    for _ in 0..k {
        let mut next = vec![];
        for s in &cur {
            let start = s.last().map_or(0, |x| x + 1);
            for j in start..n {
                let mut s2 = s.clone();
                s2.push(j);
                next.push(s2);
            }
        }
        out.extend(next.iter().cloned());
        cur = next;
    }
    out
}

/// `stride`: take every `stride`-th frame set of the enumeration
fn exhaustive(ctx: &mut Ctx, qs: &[Qubit], names: &[&str], max_frames: usize, with_swap: bool, stride: usize) {
    let u = frame_universe(qs, names);
    let instrs = frame_instructions(qs, names, with_swap);
    let bodies = bodies_for_reset(qs);
    let reset_all = Instruction::Reset(Reset { qubit: None });
    for s in subsets_up_to(u.len(), max_frames).into_iter().step_by(stride) {
        let frames: Vec<FrameIdentifier> = s.iter().map(|&j| u[j].clone()).collect();
        for i in &instrs {
            run_case(ctx, &frames, &[], i);
        }
        for b in &bodies {
            run_case(ctx, &frames, b, &reset_all);
        }
    }
}

fn fixed(n: u64) -> Qubit {
    Qubit::Fixed(n)
}

fn main() {
    main_with(run)
}

fn run(ctx: &mut Ctx) {
    // ---- 1. corpus: the shapes the statement names + past surprises
    {
        let f = |n: &str, qs: &[u64]| FrameIdentifier { name: n.to_string(), qubits: qs.iter().map(|&q| fixed(q)).collect() };
        let frames = vec![f("a", &[0]), f("b", &[0, 1]), f("a", &[1]), f("c", &[1, 0]), f("a", &[2]), f("b", &[1, 1])];
        let body = vec![xgate(&fixed(0)), xgate(&fixed(1))];
        let pulse = |blocking, fr: &FrameIdentifier| Instruction::Pulse(Pulse { blocking, frame: fr.clone(), waveform: wf() });
        let delay = |ns: &[&str], qs: &[u64]| {
            Instruction::Delay(Delay {
                duration: one(),
                frame_names: ns.iter().map(|s| s.to_string()).collect(),
                qubits: qs.iter().map(|&q| fixed(q)).collect(),
            })
        };
        let queries = vec![
            pulse(true, &frames[0]),
            pulse(false, &frames[0]),
            pulse(true, &f("zz", &[1])),   // undefined frame, still blocks its neighbours
            pulse(true, &f("b", &[1, 0])), // same name and qubit set, different order: a different frame
            pulse(true, &frames[5]),       // repeated qubit in the identifier
            Instruction::SwapPhases(SwapPhases { frame_1: frames[0].clone(), frame_2: frames[2].clone() }),
            Instruction::SwapPhases(SwapPhases { frame_1: frames[0].clone(), frame_2: frames[0].clone() }),
            Instruction::Fence(Fence { qubits: vec![] }),
            Instruction::Fence(Fence { qubits: vec![fixed(1)] }),
            Instruction::Fence(Fence { qubits: vec![fixed(7)] }),
            delay(&[], &[1, 0]),
            delay(&[], &[0, 0]),
            delay(&["a"], &[0]),
            delay(&["b", "c"], &[0, 1]),
            delay(&["a"], &[]),
            Instruction::Reset(Reset { qubit: Some(fixed(0)) }),
            Instruction::Reset(Reset { qubit: Some(fixed(1)) }),
            Instruction::Reset(Reset { qubit: None }),
            xgate(&fixed(0)),
            Instruction::Halt(),
        ];
        for q in &queries {
            run_case(ctx, &frames, &body, q);
            run_case(ctx, &frames, &[], q);
            run_case(ctx, &[], &body, q);
        }
    }

    // ---- 2. exhaustive enumerations
    let q2 = [fixed(0), fixed(1)];
    let q3 = [fixed(0), fixed(1), fixed(2)];
    if ctx.quick() {
        // {0,1} × {a,b}: all 12 frames, every set of ≤ 4 of them, every instruction incl. all SWAP pairs
        exhaustive(ctx, &q2, &["a", "b"], 4, true, 1);
        // {0,1,2} × {a,b,c}: all 36 frames, sets of ≤ 1, every instruction incl. all 1296 SWAP pairs
        exhaustive(ctx, &q3, &["a", "b", "c"], 1, true, 1);
    } else {
        exhaustive(ctx, &q2, &["a", "b"], 4, true, 1);
        // all sets of ≤ 2 of the 36 frames × every instruction incl. all SWAP pairs
        exhaustive(ctx, &q3, &["a", "b", "c"], 2, true, 1);
        // every 4th set of ≤ 3 frames × every instruction (SWAP pairs sampled)
        exhaustive(ctx, &q3, &["a", "b", "c"], 3, false, 4);
    }

    // ---- 3. seeded random: larger frame sets, variable qubits, every Instruction variant as query
    // and as program content
    let mut rng = ctx.rng(26);
    let mut alpha = Alpha::small();
    alpha.qubits.push(Qubit::Variable("q".to_string()));
    alpha.expr_depth = 1;
    let n_random = if ctx.quick() { 12_000 } else { 400_000 };
    for k in 0..n_random {
        let n_frames = rng.below(7);
        let mut frames: Vec<FrameIdentifier> = (0..n_frames).map(|_| instrgen::frame(&mut rng, &alpha)).collect();
        if rng.chance(1, 8) {
            // three-qubit frames and frames without qubits
            frames.push(FrameIdentifier { name: "a".to_string(), qubits: instrgen::qubits(&mut rng, &alpha, 0, 3) });
        }
        let added: Vec<Instruction> = (0..rng.below(4)).map(|_| instrgen::any_instruction(&mut rng, &alpha, 1)).collect();
        // every variant in turn, so that all 40 are exercised evenly
        let variant = instrgen::VARIANTS[k % instrgen::VARIANTS.len()];
        let mut query = instrgen::gen_variant(&mut rng, &alpha, variant, 1);
        // bias frame-carrying queries towards frames that exist
        if !frames.is_empty() && rng.chance(2, 3) {
            let fr = rng.pick(&frames).clone();
            match &mut query {
                Instruction::Pulse(x) => x.frame = fr,
                Instruction::Capture(x) => x.frame = fr,
                Instruction::RawCapture(x) => x.frame = fr,
                Instruction::SetFrequency(x) => x.frame = fr,
                Instruction::SetPhase(x) => x.frame = fr,
                Instruction::SetScale(x) => x.frame = fr,
                Instruction::ShiftFrequency(x) => x.frame = fr,
                Instruction::ShiftPhase(x) => x.frame = fr,
                Instruction::SwapPhases(x) => {
                    x.frame_1 = fr;
                    if rng.chance(1, 2) {
                        x.frame_2 = rng.pick(&frames).clone();
                    }
                }
                Instruction::Delay(x) => {
                    x.qubits = fr.qubits.clone();
                    if rng.chance(1, 2) {
                        x.qubits.reverse();
                    }
                }
                _ => {}
            }
        }
        run_case(ctx, &frames, &added, &query);
    }
}
