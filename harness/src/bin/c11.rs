//! C11 — program concatenation appends bodies and merges definitions.
//! Input: projections of A and B. Output: projections of `A + B` and of `A += B`, plus a flag saying
//! whether the public getters agree with `to_instructions()`.
use quil_rs::instruction::{DefaultHandler, Instruction, MemoryReference, PragmaArgument, Target, RESERVED_PRAGMA_EXTERN};
use quil_rs::quil::Quil;
use quil_rs::Program;
use qvh::progs::{parse_all, text_of, Pools};
use qvh::*;

#[derive(Default)]
struct Proj {
    cal: Vec<(String, String)>,
    mcal: Vec<(String, String)>,
    ext: Vec<(String, String)>,
    frames: Vec<(String, String)>,
    regions: Vec<(String, String)>,
    wf: Vec<(String, String)>,
    gates: Vec<(String, String)>,
    circ: Vec<(String, String)>,
    body: Vec<String>,
    used: Vec<String>,
    getters_ok: bool,
}

fn project(p: &Program) -> Proj {
    let mut r = Proj::default();
    let n_body = p.body_instructions().count();
    let all = p.to_instructions();
    let (defs, body) = all.split_at(all.len() - n_body);
    for d in defs {
        let v = text_of(d);
        match d {
            Instruction::CalibrationDefinition(c) => r.cal.push((format!("{:?}", c.identifier), v)),
            Instruction::MeasureCalibrationDefinition(c) => r.mcal.push((format!("{:?}", c.identifier), v)),
            Instruction::Pragma(pr) if pr.name == RESERVED_PRAGMA_EXTERN => {
                let k = match pr.arguments.first() {
                    Some(PragmaArgument::Identifier(n)) => format!("some:{n}"),
                    _ => "none".to_string(),
                };
                r.ext.push((k, v))
            }
            Instruction::FrameDefinition(f) => r.frames.push((format!("{:?}", f.identifier), v)),
            Instruction::Declaration(x) => r.regions.push((x.name.clone(), v)),
            Instruction::WaveformDefinition(w) => r.wf.push((w.name.clone(), v)),
            Instruction::GateDefinition(g) => r.gates.push((g.name.clone(), v)),
            Instruction::CircuitDefinition(c) => r.circ.push((c.name.clone(), v)),
            other => panic!("unexpected definition instruction {}", text_of(other)),
        }
    }
    r.frames.sort(); // FrameSet is a HashMap: canonical order
    r.body = body.iter().map(text_of).collect();
    r.used = p.get_used_qubits().iter().map(|q| q.to_quil_or_debug()).collect();
    r.used.sort();
    // the public getters must tell the same story as to_instructions()
    let keys = |v: &Vec<(String, String)>| v.iter().map(|kv| kv.0.clone()).collect::<Vec<_>>();
    let mut frame_keys: Vec<String> = p.frames.get_keys().iter().map(|k| format!("{k:?}")).collect();
    frame_keys.sort();
    r.getters_ok = p.memory_regions.keys().cloned().collect::<Vec<_>>() == keys(&r.regions)
        && p.waveforms.keys().cloned().collect::<Vec<_>>() == keys(&r.wf)
        && p.gate_definitions.keys().cloned().collect::<Vec<_>>() == keys(&r.gates)
        && p.circuits.keys().cloned().collect::<Vec<_>>() == keys(&r.circ)
        && p.calibrations.calibrations.iter().map(|c| format!("{:?}", c.identifier)).collect::<Vec<_>>() == keys(&r.cal)
        && p.calibrations.measure_calibrations.iter().map(|c| format!("{:?}", c.identifier)).collect::<Vec<_>>()
            == keys(&r.mcal)
        && frame_keys == keys(&r.frames)
        && p.extern_pragma_map.to_instructions().iter().map(text_of).collect::<Vec<_>>()
            == r.ext.iter().map(|kv| kv.1.clone()).collect::<Vec<_>>()
        && p.body_instructions().map(text_of).collect::<Vec<_>>() == r.body
        // cross-check of the independently computed EXTERN keys (from the AST) against the keys the map holds
        && p.extern_pragma_map.clone().into_iter().map(|(k, _)| match k {
            Some(n) => format!("some:{n}"),
            None => "none".to_string(),
        }).collect::<Vec<_>>() == keys(&r.ext);
    r
}

fn assoc(tag: &str, v: &[(String, String)]) -> Sexp {
    tagged(tag, v.iter().map(|(k, x)| list(vec![st(k.clone()), st(x.clone())])).collect())
}

fn encode(p: &Proj) -> Sexp {
    tagged(
        "prog",
        vec![
            assoc("cal", &p.cal),
            assoc("mcal", &p.mcal),
            assoc("ext", &p.ext),
            assoc("frames", &p.frames),
            assoc("regions", &p.regions),
            assoc("wf", &p.wf),
            assoc("gates", &p.gates),
            assoc("circ", &p.circ),
            tagged("body", p.body.iter().cloned().map(st).collect()),
            tagged("used", p.used.iter().cloned().map(st).collect()),
        ],
    )
}

/// How the operand's cached used-qubit set relates to the qubits `get_qubits` reports for its listing:
/// exact / extra (stale qubits: C10/redefined-calibration…) / missing (C10/clone-without-body…) / both.
/// Only a distribution tag: C11 states union and identity relative to the operands' REPORTED sets.
fn cache_kind(p: &Program) -> &'static str {
    let listing: std::collections::HashSet<_> =
        p.to_instructions().iter().flat_map(|i| i.get_qubits().into_iter().cloned().collect::<Vec<_>>()).collect();
    let used = p.get_used_qubits();
    let extra = used.iter().any(|q| !listing.contains(q));
    let missing = listing.iter().any(|q| !used.contains(q));
    match (extra, missing) {
        (false, false) => "exact",
        (true, false) => "extra",
        (false, true) => "missing",
        (true, true) => "both",
    }
}

/// Operands whose cache is NOT what re-adding their instructions would give, obtained through the public API.
fn derive(p: &Program, how: u64) -> Program {
    match how % 6 {
        0 => p.clone_without_body_instructions(),
        1 => p.wrap_in_loop(MemoryReference { name: "cnt".to_string(), index: 0 }, Target::Fixed("loop".to_string()), 2),
        2 => p.expand_calibrations().unwrap_or_else(|_| p.clone()),
        3 => {
            let mut q = p.clone();
            q.resolve_placeholders();
            q
        }
        4 => p.simplify(&DefaultHandler).unwrap_or_else(|_| p.clone()),
        _ => p.wrap_in_loop(MemoryReference { name: "cnt".to_string(), index: 0 }, Target::Fixed("loop".to_string()), 0),
    }
}

fn add_case(ctx: &mut Ctx, a: &Program, b: &Program) {
    let (pa, pb) = (project(a), project(b));
    let input = tagged("add", vec![encode(&pa), encode(&pb), tagged("caches", vec![atom(cache_kind(a)), atom(cache_kind(b))])]);
    let inputs_ok = pa.getters_ok && pb.getters_ok;
    ctx.case(input, || {
        let sum = a.clone() + b.clone();
        let mut acc = a.clone();
        acc += b.clone();
        let (ps, pacc) = (project(&sum), project(&acc));
        // sibling route: feed B's listing to A instruction by instruction
        let mut via = a.clone();
        via.add_instructions(b.to_instructions());
        let pvia = project(&via);
        tagged(
            "out",
            vec![
                encode(&ps),
                encode(&pacc),
                tagged("eq", vec![boolean(sum == acc)]),
                tagged("getters", vec![boolean(inputs_ok && ps.getters_ok && pacc.getters_ok && pvia.getters_ok)]),
                encode(&pvia),
                // identities under Program's own `==`, for + and +=
                tagged("ident", vec![
                    boolean(Program::new() + b.clone() == *b),
                    boolean(a.clone() + Program::new() == *a),
                    boolean({ let mut e = Program::new(); e += b.clone(); e == *b }),
                    boolean({ let mut x = a.clone(); x += Program::new(); x == *a }),
                ]),
            ],
        )
    });
}

/// (a + b) + c against a + (b + c), with the intermediate sums
fn add3_case(ctx: &mut Ctx, a: &Program, b: &Program, c: &Program) {
    let input = tagged("add3", vec![encode(&project(a)), encode(&project(b)), encode(&project(c))]);
    ctx.case(input, || {
        let ab = a.clone() + b.clone();
        let bc = b.clone() + c.clone();
        let left = ab.clone() + c.clone();
        let mut right = a.clone();
        right += bc.clone();
        tagged(
            "out3",
            vec![encode(&project(&ab)), encode(&project(&bc)), encode(&project(&left)), encode(&project(&right)),
                 tagged("eq", vec![boolean(left == right)])],
        )
    });
}

/// The instructions of a text in SOURCE order, one by one (`parse_all` returns the parsed program's listing, in
/// which a redefinition has already replaced the earlier definition).
fn parse_all_in_order(text: &str) -> Vec<Instruction> {
    // split at top-level lines (a line that does not start with whitespace starts a new instruction)
    let mut chunks: Vec<String> = vec![];
    for line in text.lines() {
        if line.starts_with(char::is_whitespace) && !chunks.is_empty() {
            let last = chunks.last_mut().unwrap();
            last.push('\n');
            last.push_str(line);
        } else {
            chunks.push(line.to_string());
        }
    }
    chunks.iter().flat_map(|c| parse_all(c)).collect()
}

fn program_of(instrs: &[Instruction]) -> Program {
    let mut p = Program::new();
    p.add_instructions(instrs.iter().cloned());
    p
}

/// all sequences over `alphabet` of length ≤ max
fn sequences(alphabet: &[Instruction], max: usize) -> Vec<Vec<Instruction>> {
    let mut out = vec![vec![]];
    let mut last = vec![vec![]];
    for _ in 0..max {
        let mut next = vec![];
        for s in &last {
            for x in alphabet {
                let mut t: Vec<Instruction> = s.clone();
                t.push(x.clone());
                next.push(t);
            }
        }
        out.extend(next.iter().cloned());
        last = next;
    }
    out
}

fn main() {
    main_with(run)
}

fn run(ctx: &mut Ctx) {
    let pools = Pools::new();
    let quick = ctx.quick();

    // 1. corpus
    let corpus: &[(&str, &str)] = &[
        ("", ""),
        ("X 0", ""),
        ("", "X 0"),
        // the crate's own test: disjoint definitions
        (
            "DECLARE ro BIT\nMEASURE q ro\nX q\nDEFCAL I 0:\n\tDELAY 0 1.0\nDEFFRAME 0 \"a\":\n\tHARDWARE-OBJECT: \"hardware\"\nDEFWAVEFORM custom:\n\t1,2\nI 0\n",
            "DECLARE foo REAL\nMEASURE q foo\nY q\nDEFCAL I 1:\n\tDELAY 0 1.0\nDEFFRAME 0 \"b\":\n\tHARDWARE-OBJECT: \"hardware\"\nDEFWAVEFORM custom2:\n\t1,2\nI 1\n",
        ),
        // every kind keyed in both, B's value differs
        (
            "DECLARE ro BIT[2]\nDECLARE theta REAL[1]\nDEFFRAME 0 \"rf\":\n\tINITIAL-FREQUENCY: 1000000000\nDEFWAVEFORM wf:\n\t1, 0.5\nDEFCAL X 0:\n\tPULSE 0 \"rf\" wf\nDEFCAL MEASURE 0 addr:\n\tNOP\nDEFGATE FOO:\n\t1, 0\n\t0, 1\nDEFCIRCUIT BELL a b:\n\tH a\n\tCNOT a b\nPRAGMA EXTERN foo \"INTEGER (x : INTEGER)\"\nX 0",
            "DECLARE acc INTEGER[2]\nDECLARE ro BIT[4]\nDEFFRAME 0 \"rf\":\n\tINITIAL-FREQUENCY: 2000000000\nDEFWAVEFORM wf:\n\t0.5i, 1\nDEFCAL X 0:\n\tDELAY 0 1\nDEFCAL MEASURE 0 addr:\n\tFENCE 0\nDEFGATE FOO:\n\t0, 1\n\t1, 0\nDEFCIRCUIT BELL a b:\n\tH b\n\tCNOT b a\nPRAGMA EXTERN foo \"REAL (x : REAL)\"\nY 1",
        ),
        // same calibration name, different modifiers / parameters / qubits: distinct signatures
        (
            "DEFCAL RX(%t) 0:\n\tNOP\nDEFCAL RX(pi/2) 0:\n\tNOP\nDEFCAL X q:\n\tNOP",
            "DEFCAL RX(pi/2) 0:\n\tDELAY 0 1\nDEFCAL X 0:\n\tNOP\nDEFCAL RX(%t) 1:\n\tNOP",
        ),
        // extern pragma without an identifier: key None
        ("PRAGMA EXTERN \"OCTET\"\nPRAGMA EXTERN foo \"INTEGER\"", "PRAGMA EXTERN \"REAL\""),
        // nameless / integer-first EXTERN on either side, also against the empty program
        ("", "PRAGMA EXTERN \"OCTET\""),
        ("", "PRAGMA EXTERN 5 \"INTEGER\"\nPRAGMA EXTERN foo \"INTEGER\""),
        ("PRAGMA EXTERN foo \"INTEGER\"", "PRAGMA EXTERN 7 \"REAL\""),
        ("DEFCAL X 0:\n\tNOP", "PRAGMA EXTERN \"OCTET\""),
        // calibrations-only programs (Program::is_empty() is true for them)
        ("DEFCAL X 0:\n\tNOP\nDEFCAL MEASURE 0 addr:\n\tNOP", ""),
        ("DEFCAL X 0:\n\tNOP", "DEFCAL X 0:\n\tDELAY 0 1\nDEFCAL MEASURE 1:\n\tFENCE 1"),
        // every flavour of "empty": Program::new(), calibrations only (is_empty() is true), body only, definitions only
        ("DEFCAL X 0:\n\tNOP", "X 1"),
        ("X 1", "DEFCAL X 0:\n\tNOP"),
        ("DECLARE ro BIT", "DEFCAL MEASURE 0 addr:\n\tNOP"),
        ("DEFCAL X 0:\n\tNOP", "DEFCAL DAGGER X 0:\n\tNOP\nDEFCAL X 0:\n\tDELAY 0 1"),
        ("PRAGMA EXTERN foo legacy \"(c : REAL)\"", "PRAGMA EXTERN \"OCTET\""),
        ("PRAGMA EXTERN foo legacy \"(c : REAL)\"\nPRAGMA EXTERN \"OCTET\"", "PRAGMA EXTERN foo 1\nPRAGMA EXTERN bar legacy"),
        // used qubits only through calibrations
        ("DEFCAL X 3:\n\tNOP", "DEFCAL X 4:\n\tNOP\nX 5"),
    ];
    for (ta, tb) in corpus {
        let (a, b) = (program_of(&parse_all(ta)), program_of(&parse_all(tb)));
        add_case(ctx, &a, &b);
        add_case(ctx, &b, &a);
        add_case(ctx, &a, &a);
    }

    // 1b. more than 32 definitions per container, half of them keyed in both
    {
        let mk = |lo: u32, hi: u32, size: u32| {
            let mut t = String::new();
            for i in lo..hi {
                t.push_str(&format!("DECLARE r{i} BIT[{size}]\nDEFWAVEFORM w{i}:\n\t{size}\nDEFCAL G{i} 0:\n\tDELAY 0 {size}\nPRAGMA EXTERN e{i} \"INTEGER\"\n"));
            }
            program_of(&parse_all(&t))
        };
        let (a, b) = (mk(0, 70, 1), mk(35, 105, 2));
        add_case(ctx, &a, &b);
        add_case(ctx, &b, &a);
        add3_case(ctx, &a, &b, &a);
    }
    // 1c. triples from the corpus
    for w in corpus.windows(2) {
        let (a, b) = (program_of(&parse_all(w[0].0)), program_of(&parse_all(w[0].1)));
        let c = program_of(&parse_all(w[1].1));
        add3_case(ctx, &a, &b, &c);
        add3_case(ctx, &c, &a, &a);
    }

    // 1d. operands whose cached used-qubit set is inexact, in both directions, on the left, on the right and on
    //     both sides, for + / += (add_case) and sums of three
    {
        let stale_texts = [
            "DEFCAL X 0:\n\tY 7\nDEFCAL X 0:\n\tY 13",                       // used {0,7,13}, listing {0,13}
            "DEFCAL MEASURE 2 addr:\n\tX 11\nDEFCAL MEASURE 2 addr:\n\tX 2\nX 0", // stale 11
            "DEFCAL Y q:\n\tX q\n\tZ 9\nDEFCAL Y q:\n\tX q\nH 1",
            "DEFCAL X 0:\n\tY 7\nX 3\nDEFCAL X 0:\n\tNOP\nDEFCAL X 5:\n\tNOP",
        ];
        let base_texts = [
            "X 0",
            "DEFCAL X 5:\n\tNOP\nX 0",
            "DEFCAL X 0 1:\n\tFENCE 0 1\nDEFCAL MEASURE 4:\n\tFENCE 4\nMEASURE 0 ro[0]\nDECLARE ro BIT",
            "DEFFRAME 0 \"rf\":\n\tDIRECTION: \"tx\"\nDEFCAL X 0:\n\tPULSE 0 \"rf\" wf\nDEFWAVEFORM wf:\n\t1\nX 0\nX 6",
        ];
        let mut ops: Vec<Program> = vec![Program::new()];
        for t in stale_texts {
            ops.push(program_of(&parse_all_in_order(t)));
        }
        for t in base_texts {
            let p = program_of(&parse_all(t));
            for how in 0..6 {
                ops.push(derive(&p, how));
            }
            ops.push(p);
        }
        for (i, a) in ops.iter().enumerate() {
            for (j, b) in ops.iter().enumerate() {
                // quick: a third of the grid (every operand still appears on each side several times)
                if quick && (i + 2 * j) % 3 != 0 && i != 0 && j != 0 {
                    continue;
                }
                add_case(ctx, a, b);
                if (i + j) % 7 == 0 {
                    add3_case(ctx, a, b, &ops[(i * 5 + j * 3 + 1) % ops.len()]);
                }
            }
        }
    }

    // 2. exhaustive pairs of short programs over an alphabet with two values per key in every kind
    let alphabet: Vec<Instruction> = [
        "DECLARE ro BIT[2]",
        "DECLARE ro BIT[4]",
        "DECLARE theta REAL[1]",
        "DEFFRAME 0 \"rf\":\n\tINITIAL-FREQUENCY: 1000000000",
        "DEFFRAME 0 \"rf\":\n\tINITIAL-FREQUENCY: 2000000000",
        "DEFWAVEFORM wf:\n\t1, 0.5",
        "DEFWAVEFORM wf:\n\t0.5i, 1",
        "DEFCAL X 0:\n\tNOP",
        "DEFCAL X 0:\n\tDELAY 0 1",
        "DEFCAL MEASURE 0 addr:\n\tNOP",
        "DEFCAL MEASURE 0 addr:\n\tFENCE 0",
        "DEFGATE FOO:\n\t1, 0\n\t0, 1",
        "DEFGATE FOO:\n\t0, 1\n\t1, 0",
        "DEFCIRCUIT BELL a b:\n\tH a",
        "DEFCIRCUIT BELL a b:\n\tH b",
        "PRAGMA EXTERN foo \"INTEGER\"",
        "PRAGMA EXTERN foo \"REAL\"",
        "PRAGMA EXTERN \"OCTET\"",
        "PRAGMA EXTERN \"REAL\"",
        "PRAGMA EXTERN 5 \"INTEGER\"",
        "PRAGMA EXTERN foo legacy \"(c : REAL)\"",
        "PRAGMA EXTERN bar legacy \"(c : REAL)\"",
        "DEFCAL DAGGER X 0:\n\tNOP",
    ]
    .iter()
    .map(|t| qvh::progs::parse_one(t))
    .chain(std::iter::once({
        let p = program_of(&parse_all("X 1"));
        p.into_body_instructions().next().unwrap()
    }))
    .collect();
    let (la, lb) = if quick { (2, 1) } else { (2, 2) };
    let sa = sequences(&alphabet, la);
    let sb = sequences(&alphabet, lb);
    let mut pair_index = 0u64;
    for x in &sa {
        for y in &sb {
            let (a, b) = (program_of(x), program_of(y));
            add_case(ctx, &a, &b);
            // the reversed pair (short A, long B): all of them in thorough, every third in quick
            if la != lb && (!quick || pair_index % 3 == 0 || x.len() < 2) {
                add_case(ctx, &b, &a);
            }
            pair_index += 1;
        }
    }

    // 3. seeded random: pools of 38 definitions (overlapping keys in all kinds) and 38 body instructions
    let mut rng = ctx.rng(11);
    let n_random = if quick { 3000 } else { 60_000 };
    for _ in 0..n_random {
        let mk = |rng: &mut Rng| {
            if rng.chance(1, 15) {
                return Program::new();
            }
            let mut v = pools.random_defs(rng, 10);
            if rng.chance(1, 12) {
                v.retain(|d| matches!(d, Instruction::CalibrationDefinition(_) | Instruction::MeasureCalibrationDefinition(_)));
            } else {
                v.extend(pools.random_body(rng, 6));
            }
            // interleave: definitions and body instructions in any order
            for i in (1..v.len()).rev() {
                let j = rng.below(i as u64 + 1) as usize;
                v.swap(i, j);
            }
            program_of(&v)
        };
        let mut a = mk(&mut rng);
        let mut b = if rng.chance(1, 10) { a.clone() } else { mk(&mut rng) };
        // inexact caches: derived through the API (1/6 each side); stale ones arise from the pool's redefinitions
        if rng.chance(1, 6) {
            a = derive(&a, rng.below(6));
        }
        if rng.chance(1, 6) {
            b = derive(&b, rng.below(6));
        }
        add_case(ctx, &a, &b);
        if rng.chance(1, 4) {
            let c = if rng.chance(1, 5) { a.clone() } else { mk(&mut rng) };
            add3_case(ctx, &a, &b, &c);
        }
    }
}
