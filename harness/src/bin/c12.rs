//! C12 — expression simplification preserves the expression's value.
//!
//! One case = (expression e, the numbers alive in this process outside e, a list of assignments).  The
//! implementation's output is `e.into_simplified()` (the real `Expression::simplify`, i.e. by_hand.rs) and, for
//! every assignment, the real `Expression::evaluate` of the original and of the simplified tree.
//!
//!   input   (c12 e (amb (c re im) …) std)      `std` = the fixed table of 8 assignments below (`envs`), which
//!                                               lean/QV/C12/Run.lean holds bit for bit (`stdEnvs`)
//!   output  (out e' (vals xRE xIM xRE' xIM' …) [alt]) per assignment: value of e, value of e' (an evaluation error
//!                                               — impossible with these assignments — is the atom `e`)
//!   alt = (alt same u1 u2 mself mout mrev)      the other entry points, on a subset of the cases:
//!     same   `let mut c = e.clone(); c.simplify()` gives bit for bit the tree of `e.clone().into_simplified()`
//!     u1 u2  entry [1][1] of `Gate PHASE(e) 0 .to_unitary(1)` / of `PHASE(e')` — `(ok xRE xIM)` or `(err)` (the
//!            error is formatted with Display and Debug): Gate::to_unitary folds its parameter with the simplifier
//!     m…     `CalibrationIdentifier RX(a) 0 .matches(Gate RX(b) 0)` for (a,b) = (e,e), (e,e'), (e',e): calibration
//!            parameter matching compares the simplified parameters
//!
//! `amb` matters because expressions are hash-consed with an equality that identifies +0.0 and -0.0: a freshly
//! computed `-1-0i` is replaced by a live `-1+0i` (see lean/QV/C12/Model.lean, `mkNum`).  Whatever this harness
//! keeps alive while the real code runs (the leaf alphabet, the enumerated trees) is therefore reported.
use num_complex::Complex64;
use quil_rs::expression::{Expression, ExpressionFunction, InfixOperator, PrefixOperator};
use quil_rs::instruction::{CalibrationIdentifier, Gate, Qubit};
use qvh::expr::*;
use qvh::*;
use std::collections::HashMap;

type Env = (Vec<(String, Complex64)>, Vec<(String, Vec<f64>)>);

fn c(re: f64, im: f64) -> Complex64 {
    Complex64::new(re, im)
}

/// 4 generic assignments (complex non-real variables, |·| in [0.3, 3], no algebraic coincidences) and 4 special
/// ones (x = 0; x = 1; y = 0 and a[0] = 0; y = 1 and a[0] = 1).
fn envs() -> Vec<Env> {
    let g: [(Complex64, Complex64, f64, f64); 4] = [
        (c(0.7318, 1.2093), c(-1.4142, 0.5773), 0.6931, -1.3247),
        (c(-0.8415, 0.5403), c(0.3679, -2.2361), -1.7725, 0.4812),
        (c(2.0794, -0.9093), c(-0.4161, -0.6536), 2.3026, 1.0986),
        (c(-1.1284, -1.6449), c(1.2021, 0.9159), -0.5772, -2.6651),
    ];
    let mk = |x: Complex64, y: Complex64, a0: f64, a1: f64| -> Env {
        (vec![("x".to_string(), x), ("y".to_string(), y)], vec![("a".to_string(), vec![a0, a1])])
    };
    let mut out: Vec<Env> = g.iter().map(|(x, y, a0, a1)| mk(*x, *y, *a0, *a1)).collect();
    out.push(mk(c(0.0, 0.0), g[0].1, g[0].2, g[0].3));
    out.push(mk(c(1.0, 0.0), g[1].1, g[1].2, g[1].3));
    out.push(mk(g[2].0, c(0.0, 0.0), 0.0, g[2].3));
    out.push(mk(g[3].0, c(1.0, 0.0), 1.0, g[3].3));
    out
}

fn push_val(out: &mut Vec<Sexp>, r: Result<Complex64, quil_rs::expression::EvaluationError>) {
    match r {
        Ok(v) => {
            out.push(f64bits(v.re));
            out.push(f64bits(v.im));
        }
        Err(_) => {
            out.push(atom("e"));
            out.push(atom("e"));
        }
    }
}

struct Emitter {
    maps: Vec<(HashMap<String, Complex64>, HashMap<String, Vec<f64>>)>,
}

impl Emitter {
    fn new() -> Self {
        let maps = envs().iter().map(|(r, m)| (r.iter().cloned().collect(), m.iter().cloned().collect())).collect();
        Emitter { maps }
    }

    /// `ambient`: the numbers alive outside `e` while the real code runs.
    fn emit(&self, ctx: &mut Ctx, e: &Expression, ambient: &[Complex64]) {
        self.emit_opt(ctx, e, ambient, false)
    }

    /// with the other entry points observed as well
    fn emit_alt(&self, ctx: &mut Ctx, e: &Expression, ambient: &[Complex64]) {
        self.emit_opt(ctx, e, ambient, true)
    }

    /// `e`, then — a sequence of two calls — the implementation's result for `e` as the next input, while `e` is
    /// still alive (its interned numbers join the ambient ones)
    fn emit_seq(&self, ctx: &mut Ctx, e: &Expression, ambient: &[Complex64]) {
        self.emit_opt(ctx, e, ambient, true);
        let r1 = match std::panic::catch_unwind(std::panic::AssertUnwindSafe(|| e.clone().into_simplified())) {
            Ok(r) => r,
            Err(_) => return,
        };
        let mut amb2 = ambient.to_vec();
        live_numbers(e, &mut amb2);
        self.emit_opt(ctx, &r1, &amb2, true);
    }

    fn emit_opt(&self, ctx: &mut Ctx, e: &Expression, ambient: &[Complex64], alt: bool) {
        let input = tagged(
            "c12",
            vec![
                expr_to_sexp(e),
                tagged("amb", ambient.iter().map(|z| complex_to_sexp(*z)).collect()),
                atom("std"),
            ],
        );
        ctx.case(input, || {
            // the in-place entry point first; its result is dropped before the consuming one runs
            let in_place = if alt {
                let mut c = e.clone();
                c.simplify();
                Some(expr_to_sexp(&c))
            } else {
                None
            };
            let simplified = e.clone().into_simplified();
            let mut vals: Vec<Sexp> = Vec::with_capacity(4 * self.maps.len());
            for (vars, mem) in &self.maps {
                push_val(&mut vals, e.evaluate(vars, mem));
                push_val(&mut vals, simplified.evaluate(vars, mem));
            }
            let out_sexp = expr_to_sexp(&simplified);
            let mut out = vec![out_sexp.clone(), tagged("vals", vals)];
            if let Some(in_place) = in_place {
                let phase = |p: &Expression| -> Sexp {
                    let mut g = Gate::new("PHASE", vec![p.clone()], vec![Qubit::Fixed(0)], vec![]).expect("gate");
                    match g.to_unitary(1) {
                        Ok(m) => tagged("ok", vec![f64bits(m[[1, 1]].re), f64bits(m[[1, 1]].im)]),
                        Err(err) => {
                            let _ = (format!("{err}"), format!("{err:?}"));
                            tagged("err", vec![])
                        }
                    }
                };
                let matches = |a: &Expression, b: &Expression| -> Sexp {
                    let cal = CalibrationIdentifier::new("RX".to_string(), vec![], vec![a.clone()], vec![Qubit::Fixed(0)])
                        .expect("identifier");
                    let gate = Gate::new("RX", vec![b.clone()], vec![Qubit::Fixed(0)], vec![]).expect("gate");
                    boolean(cal.matches(&gate))
                };
                out.push(tagged(
                    "alt",
                    vec![
                        boolean(in_place == out_sexp),
                        phase(e),
                        phase(&simplified),
                        matches(e, e),
                        matches(e, &simplified),
                        matches(&simplified, e),
                    ],
                ));
            }
            tagged("out", out)
        });
    }
}

/// the numbers `e` keeps alive as interned nodes: all of them, unless `e` itself is a (then owned) number
fn live_numbers(e: &Expression, out: &mut Vec<Complex64>) {
    fn go(e: &Expression, out: &mut Vec<Complex64>) {
        match e {
            Expression::Number(z) => out.push(*z),
            Expression::FunctionCall(f) => go(&f.expression, out),
            Expression::Prefix(p) => go(&p.expression, out),
            Expression::Infix(i) => {
                go(&i.left, out);
                go(&i.right, out);
            }
            _ => {}
        }
    }
    if !matches!(e, Expression::Number(_)) {
        go(e, out);
    }
}

fn numbers_of(leaves: &[Expression]) -> Vec<Complex64> {
    leaves.iter().filter_map(|l| if let Expression::Number(z) = l { Some(*z) } else { None }).collect()
}

use ExpressionFunction::*;
use InfixOperator as I;
use PrefixOperator as P;

fn x() -> Expression {
    var("x")
}
fn y() -> Expression {
    var("y")
}
fn a0() -> Expression {
    addr("a", 0)
}
fn pi() -> Expression {
    Expression::PiConstant()
}
fn neg(e: Expression) -> Expression {
    prefix(P::Minus, e)
}
fn pos(e: Expression) -> Expression {
    prefix(P::Plus, e)
}
fn add(l: Expression, r: Expression) -> Expression {
    infix(l, I::Plus, r)
}
fn sub(l: Expression, r: Expression) -> Expression {
    infix(l, I::Minus, r)
}
fn mul(l: Expression, r: Expression) -> Expression {
    infix(l, I::Star, r)
}
fn div(l: Expression, r: Expression) -> Expression {
    infix(l, I::Slash, r)
}
fn pow(l: Expression, r: Expression) -> Expression {
    infix(l, I::Caret, r)
}
/// `k` nested applications of `f`
fn nest(k: usize, f: impl Fn(Expression) -> Expression, e: Expression) -> Expression {
    (0..k).fold(e, |acc, _| f(acc))
}

/// Hand-written witnesses and past failures.  Every expression is a temporary: nothing but the case's own
/// tree is alive while the real code runs (ambient = []).
fn corpus(ctx: &mut Ctx, em: &Emitter) {
    let mut go = |e: Expression| em.emit_seq(ctx, &e, &[]);
    // --- the three repaired defects (regression witnesses)
    go(div(x(), neg(y()))); // was x * -y
    go(div(neg(x()), y()));
    go(div(x(), neg(add(y(), real(1.0)))));
    go(sub(sub(x(), y()), y())); // was x
    go(div(div(x(), y()), y())); // was x
    go(sub(sub(x(), y()), a0()));
    go(div(div(x(), real(2.0)), y()));
    go(pow(real(0.0), real(0.0))); // was 0
    go(pow(real(0.0), sub(real(1.0), real(1.0))));
    go(pow(sub(x(), x()), sub(y(), y())));
    // --- known finding C12/zero-pow-variable-exponent (pinned by the test infix_exp_0_r)
    go(pow(real(0.0), x()));
    go(pow(real(0.0), y()));
    go(pow(sub(x(), x()), a0()));
    go(mul(real(2.0), pow(real(0.0), x())));
    // --- known finding C12/is-zero-tolerance
    go(mul(real(1e-11), x()));
    go(div(x(), real(1e-11)));
    go(mul(real(1.0 + 1e-11), x()));
    go(mul(call(Sine, pi()), x()));
    // --- every documented test of simplification/mod.rs in spirit
    go(call(Cis, real(0.0)));
    go(call(Exponent, real(1.0)));
    go(call(SquareRoot, real(9.0)));
    go(add(real(0.0), x()));
    go(add(x(), real(0.0)));
    go(sub(real(0.0), x()));
    go(sub(x(), real(0.0)));
    go(sub(x(), x()));
    go(mul(real(0.0), x()));
    go(mul(x(), real(0.0)));
    go(mul(real(1.0), x()));
    go(mul(x(), real(1.0)));
    go(div(real(0.0), x()));
    go(div(x(), real(0.0)));
    go(div(x(), real(1.0)));
    go(div(x(), x()));
    go(pow(x(), real(0.0)));
    go(pow(real(1.0), x()));
    go(pow(x(), real(1.0)));
    go(pow(real(2.0), real(3.0)));
    go(add(x(), neg(y())));
    go(add(neg(x()), y()));
    go(sub(x(), neg(y())));
    go(sub(neg(x()), y()));
    go(mul(neg(x()), neg(y())));
    go(div(neg(x()), neg(y())));
    go(div(x(), neg(x())));
    go(div(neg(x()), x()));
    go(mul(x(), neg(y())));
    go(mul(neg(x()), y()));
    // affine, all four positions of the common factor
    for k in 0..4 {
        // built inside the loop: nothing but the case's own tree may be alive
        let l = || if k < 2 { mul(x(), real(2.0)) } else { mul(real(2.0), x()) };
        let r = || if k % 2 == 0 { mul(x(), real(3.0)) } else { mul(real(3.0), x()) };
        go(add(add(l(), y()), add(r(), a0())));
        go(add(l(), r()));
    }
    go(add(add(x(), y()), add(x(), a0())));
    go(add(x(), add(y(), a0())));
    go(mul(x(), mul(y(), a0())));
    go(sub(x(), sub(y(), a0())));
    go(div(x(), div(y(), a0())));
    go(add(add(x(), y()), a0()));
    go(mul(mul(x(), y()), a0()));
    go(mul(x(), add(y(), a0())));
    go(mul(add(x(), y()), a0()));
    go(div(mul(x(), y()), x()));
    go(div(mul(y(), x()), x()));
    go(div(x(), mul(x(), y())));
    go(div(x(), mul(y(), x())));
    go(div(mul(x(), y()), a0()));
    go(div(a0(), mul(x(), y())));
    go(mul(div(y(), x()), x()));
    go(mul(x(), div(y(), x())));
    go(mul(div(y(), x()), a0()));
    go(pow(add(x(), real(0.0)), y()));
    go(pos(x()));
    go(neg(neg(x())));
    go(neg(real(2.0)));
    go(neg(pi()));
    go(call(Cosine, mul(real(2.0), pi())));
    // --- signed zero / hash-consing
    go(call(SquareRoot, sub(real(0.0), a0())));
    go(call(SquareRoot, sub(real(0.0), real(2.0))));
    go(mul(real(-1.0), call(SquareRoot, neg(real(1.0))))); // -1-0i is replaced by the live -1+0i
    go(add(call(SquareRoot, neg(real(1.0))), real(-1.0))); // … but not when it is created first
    go(pow(neg(real(2.0)), real(0.5)));
    go(add(pow(neg(real(2.0)), real(0.5)), real(-2.0)));
    go(div(real(1.0), neg(real(0.0))));
    go(add(num(f64::NAN, 0.0), div(x(), real(0.0))));
    go(sub(div(x(), real(0.0)), div(y(), real(0.0))));
    // --- the limit: depth 9, 10, 11, 12 … around the node where the limit reaches 0
    for k in 7..=12 {
        go(nest(k, pos, div(mul(pi(), x()), x())));
        go(nest(k, pos, div(mul(x(), pi()), x())));
        go(nest(k, neg, add(x(), real(0.0))));
        go(nest(k, |e| call(Sine, e), add(pi(), real(0.0))));
        go(nest(k, |e| add(e, y()), mul(x(), real(1.0))));
        go(nest(k, |e| mul(real(2.0), e), sub(x(), x())));
    }
    // --- the memo table ignores the limit: the deep occurrence is simplified first (limit 0) and its entry is
    // reused for the shallow occurrence
    for k in 6..=10 {
        let deep = |core: Expression| nest(k, pos, core);
        go(add(mul(real(0.0), deep(mul(pi(), x()))), div(mul(pi(), x()), x())));
        go(add(deep(add(x(), real(0.0))), add(x(), real(0.0))));
        go(add(add(x(), real(0.0)), deep(add(x(), real(0.0)))));
        go(mul(deep(sub(add(x(), y()), add(x(), y()))), sub(add(x(), y()), add(x(), y()))));
    }
    // an expression is re-derived from itself at a lower limit: (-x)*y -> x*(-y) -> (-x)*y
    go(mul(neg(x()), y()));
    go(nest(6, pos, mul(neg(x()), y())));
}

/// Exhaustive enumeration of the trees of depth exactly `depth` (≥ 1) over the alphabet, in the order of
/// `qvh::expr::all_exprs`, keeping every `stride`-th; only the trees of depth < `depth` are materialised (and
/// alive: the numbers in them are the `ambient` ones), a tree of the last level is built only when it is kept.
fn enumerate(ctx: &mut Ctx, em: &Emitter, alphabet: &Alphabet, depth: usize, stride: usize) {
    // Only *interned* numbers are visible to hash-consing: the leaves themselves are owned `Expression`s, but the
    // materialised trees of depth 1 … depth-1 hold every leaf as an interned child.
    let ambient = if depth >= 2 { numbers_of(&alphabet.leaves) } else { vec![] };
    let all = all_exprs(alphabet, depth - 1);
    let prev_len = if depth >= 2 { all_exprs(alphabet, depth - 2).len() } else { 0 };
    let mut i = 0usize;
    let mut keep = || {
        i += 1;
        (i - 1) % stride == 0
    };
    for child in &all[prev_len..] {
        for f in &alphabet.functions {
            if keep() {
                em.emit(ctx, &call(*f, child.clone()), &ambient);
            }
        }
        for o in &alphabet.prefix {
            if keep() {
                em.emit(ctx, &prefix(*o, child.clone()), &ambient);
            }
        }
    }
    for (li, l) in all.iter().enumerate() {
        for (ri, r) in all.iter().enumerate() {
            if li < prev_len && ri < prev_len {
                continue;
            }
            for o in &alphabet.infix {
                if keep() {
                    em.emit(ctx, &infix(l.clone(), *o, r.clone()), &ambient);
                }
            }
        }
    }
}

fn full_leaves() -> Vec<Expression> {
    vec![real(0.0), real(1.0), real(2.0), real(-1.0), real(0.5), num(0.0, 1.0), pi(), x(), y(), a0()]
}

fn random_stream(ctx: &mut Ctx, em: &Emitter, n: usize, stream: u64, max_depth: usize) {
    let mut rng = ctx.rng(stream);
    let alphabet = Alphabet::full(full_leaves());
    // the alphabet's leaves are owned `Expression`s, not interned nodes: nothing outside the case's tree is alive
    let ambient: Vec<Complex64> = vec![];
    for k in 0..n {
        let d = 2 + rng.below(max_depth as u64 - 1) as usize;
        let e = random_expr(&mut rng, &alphabet, d);
        if k % 5 == 0 {
            em.emit_seq(ctx, &e, &ambient);
        } else {
            em.emit(ctx, &e, &ambient);
        }
    }
}

/// arithmetic-only random trees (no functions, no `^`): the rewrite arms fire much more often
fn random_arith(ctx: &mut Ctx, em: &Emitter, n: usize, stream: u64) {
    let mut rng = ctx.rng(stream);
    let alphabet = Alphabet {
        leaves: vec![real(0.0), real(1.0), real(2.0), real(-1.0), x(), x(), y(), y(), a0(), a0()],
        functions: vec![],
        prefix: vec![P::Minus],
        infix: vec![I::Plus, I::Minus, I::Star, I::Slash],
    };
    let ambient: Vec<Complex64> = vec![];
    for k in 0..n {
        let d = 2 + rng.below(5) as usize;
        let e = random_expr(&mut rng, &alphabet, d);
        if k % 5 == 0 {
            em.emit_seq(ctx, &e, &ambient);
            continue;
        }
        em.emit(ctx, &e, &ambient);
    }
}

/// deep trees: a random core wrapped in 6–14 random layers, so that the limit runs out inside
fn deep_stream(ctx: &mut Ctx, em: &Emitter, n: usize, stream: u64) {
    let mut rng = ctx.rng(stream);
    let alphabet = Alphabet::full(full_leaves());
    let ambient: Vec<Complex64> = vec![];
    for k in 0..n {
        let mut e = random_expr(&mut rng, &alphabet, 3);
        let layers = 6 + rng.below(9);
        for _ in 0..layers {
            e = match rng.below(6) {
                0 => pos(e),
                1 => neg(e),
                2 => call(*rng.pick(&ALL_FUNCTIONS), e),
                3 => infix(e, *rng.pick(&ALL_INFIX), random_expr(&mut rng, &alphabet, 2)),
                4 => infix(random_expr(&mut rng, &alphabet, 2), *rng.pick(&ALL_INFIX), e),
                _ => {
                    // the same subtree twice, at different depths (the memo table is keyed without the limit)
                    let o = *rng.pick(&ALL_INFIX);
                    let shallow = random_expr(&mut rng, &alphabet, 2);
                    infix(infix(e.clone(), o, shallow), *rng.pick(&ALL_INFIX), e)
                }
            };
        }
        let _ = k;
        em.emit_seq(ctx, &e, &ambient);
    }
}

/// One small expression per rewrite arm (built on demand: nothing stays alive between cases).
fn redex(i: usize) -> Option<Expression> {
    Some(match i {
        0 => add(real(0.0), x()),
        1 => add(x(), real(0.0)),
        2 => sub(real(0.0), x()),
        3 => sub(x(), real(0.0)),
        4 => sub(add(x(), y()), add(x(), y())),
        5 => mul(real(0.0), x()),
        6 => mul(x(), real(0.0)),
        7 => mul(real(1.0), x()),
        8 => mul(x(), real(1.0)),
        9 => div(real(0.0), x()),
        10 => div(x(), real(0.0)),
        11 => div(x(), real(1.0)),
        12 => div(add(x(), y()), add(x(), y())),
        13 => pow(x(), real(0.0)),
        14 => pow(real(0.0), x()),
        15 => pow(real(1.0), x()),
        16 => pow(x(), real(1.0)),
        17 => pow(real(2.0), real(3.0)),
        18 => add(x(), neg(y())),
        19 => add(neg(x()), y()),
        20 => sub(x(), neg(y())),
        21 => sub(neg(x()), y()),
        22 => mul(neg(x()), neg(y())),
        23 => div(neg(x()), neg(y())),
        24 => div(x(), neg(x())),
        25 => div(neg(x()), x()),
        26 => mul(x(), neg(y())),
        27 => div(x(), neg(y())),
        28 => mul(neg(x()), y()),
        29 => div(neg(x()), y()),
        30 => add(add(mul(x(), real(2.0)), y()), add(mul(real(3.0), x()), a0())),
        31 => add(mul(real(2.0), x()), mul(real(3.0), x())),
        32 => add(add(x(), y()), add(x(), a0())),
        33 => add(x(), add(y(), a0())),
        34 => mul(x(), mul(y(), a0())),
        35 => sub(x(), sub(y(), a0())),
        36 => div(x(), div(y(), a0())),
        37 => add(add(x(), y()), a0()),
        38 => sub(sub(x(), y()), a0()),
        39 => div(div(x(), y()), a0()),
        40 => mul(x(), add(y(), a0())),
        41 => mul(add(x(), y()), a0()),
        42 => div(mul(x(), y()), x()),
        43 => div(mul(pi(), x()), x()),
        44 => div(x(), mul(y(), x())),
        45 => div(mul(x(), y()), a0()),
        46 => div(a0(), mul(x(), y())),
        47 => mul(div(y(), x()), x()),
        48 => mul(x(), div(y(), x())),
        49 => call(Sine, real(2.0)),
        50 => call(SquareRoot, neg(real(2.0))),
        51 => neg(pos(x())),
        52 => neg(neg(x())),
        53 => neg(real(2.0)),
        54 => pos(pi()),
        55 => mul(div(pi(), x()), x()),
        56 => mul(x(), div(pi(), x())),
        _ => return None,
    })
}

/// the `w`-th wrapper: one more level of nesting around `e`
fn wrap(w: usize, e: Expression) -> Expression {
    match w % 8 {
        0 => pos(e),
        1 => neg(e),
        2 => call(Sine, e),
        3 => add(e, y()),
        4 => add(y(), e),
        5 => mul(real(2.0), e),
        6 => div(e, a0()),
        _ => pow(e, y()),
    }
}

/// Every rewrite arm placed at every distance 5 … 12 from the root (the limit is 10: the arm's node is reached with
/// limit 5 … 0 and beyond), under uniform and under alternating wrappers.
fn arm_at_limit(ctx: &mut Ctx, em: &Emitter) {
    let mut i = 0;
    while redex(i).is_some() {
        for w in 0..8usize {
            for k in 5..=12usize {
                let uniform = (0..k).fold(redex(i).unwrap(), |acc, _| wrap(w, acc));
                em.emit_alt(ctx, &uniform, &[]);
                let mixed = (0..k).fold(redex(i).unwrap(), |acc, j| wrap(w + j * (1 + w % 3), acc));
                em.emit(ctx, &mixed, &[]);
            }
        }
        i += 1;
    }
}

/// The same subtree twice, at a shallow and at a deep position (either order): the memo table, which ignores the
/// limit, serves the second occurrence with the result computed for the first.
fn memo_two_limits(ctx: &mut Ctx, em: &Emitter) {
    let mut i = 0;
    while redex(i).is_some() {
        for d1 in 0..3usize {
            for d2 in 6..=11usize {
                let w = (i + d2) % 3; // +, -, sin: wrappers that keep the subtree intact
                let shallow = || (0..d1).fold(redex(i).unwrap(), |acc, _| wrap(w, acc));
                let deep = || (0..d2).fold(redex(i).unwrap(), |acc, _| wrap(w, acc));
                if (i + d1 + d2) % 2 == 0 {
                    em.emit(ctx, &add(deep(), shallow()), &[]);
                    em.emit(ctx, &mul(shallow(), deep()), &[]);
                } else {
                    em.emit(ctx, &mul(deep(), shallow()), &[]);
                    em.emit(ctx, &add(shallow(), deep()), &[]);
                }
            }
        }
        i += 1;
    }
}

/// Numeric boundary constants (powers of two around the integer widths, the largest and smallest doubles,
/// subnormals, the `is_zero` threshold and its neighbours, signed zeros, non-finite values, a few complex ones).
fn boundary_constants() -> Vec<Complex64> {
    let p = |k: i32| 2f64.powi(k);
    let tol = 1e-10f64;
    let mut v: Vec<Complex64> = [
        0.0,
        -0.0,
        1.0,
        -1.0,
        2.0,
        -2.0,
        3.0,
        -3.0,
        4.0,
        0.5,
        -0.5,
        p(31),
        -p(31),
        p(31) - 1.0,
        p(31) + 1.0,
        p(32),
        -p(32),
        p(32) + 2.0,
        p(53),
        p(53) + 2.0,
        -p(53),
        p(63),
        p(64),
        1e308,
        f64::MAX,
        -f64::MAX,
        f64::MIN_POSITIVE,
        5e-324,
        -5e-324,
        1e-300,
        tol,
        f64::from_bits(tol.to_bits() - 1),
        f64::from_bits(tol.to_bits() + 1),
        1e-11,
        1e-9,
        1.0 + 1e-11,
        1.0 - 1e-11,
        1.0 + 2e-10,
        1e10,
        1e16,
        std::f64::consts::PI,
        -std::f64::consts::PI,
        std::f64::consts::FRAC_PI_2,
        f64::INFINITY,
        f64::NEG_INFINITY,
        f64::NAN,
    ]
    .iter()
    .map(|r| c(*r, 0.0))
    .collect();
    v.extend([
        c(0.0, 1.0),
        c(0.0, -1.0),
        c(1.0, 1.0),
        c(-1.0, -0.0),
        c(0.0, -0.0),
        c(1.0, 1e-11),
        c(7e-11, 7e-11),
        c(8e-11, 8e-11),
        c(0.0, 1e-10),
        c(2.0, p(31)),
        c(0.0, f64::INFINITY),
    ]);
    v
}

/// Every boundary constant in every operand position of every operator, against every other constant (the
/// constant-folding arm and every `is_zero` / `is_one` guard) and against a variable; under every function and prefix.
fn boundary_stream(ctx: &mut Ctx, em: &Emitter, stride: usize) {
    let cs = boundary_constants();
    let n = |z: &Complex64| Expression::Number(*z);
    let mut i = 0usize;
    let mut keep = |always: bool| {
        i += 1;
        always || (i - 1) % stride == 0
    };
    for a in &cs {
        for f in ALL_FUNCTIONS {
            if keep(true) {
                em.emit_alt(ctx, &call(f, n(a)), &[]);
            }
        }
        for o in ALL_PREFIX {
            if keep(true) {
                em.emit(ctx, &prefix(o, n(a)), &[]);
            }
        }
        for o in ALL_INFIX {
            if keep(true) {
                em.emit(ctx, &infix(n(a), o, x()), &[]);
                em.emit(ctx, &infix(x(), o, n(a)), &[]);
                em.emit(ctx, &infix(infix(n(a), o, x()), o, n(a)), &[]);
            }
        }
    }
    for a in &cs {
        for b in &cs {
            for o in ALL_INFIX {
                if keep(false) {
                    em.emit(ctx, &infix(n(a), o, n(b)), &[]);
                }
            }
        }
    }
    // negative bases with integral exponents of every size
    for base in [-1.0, -2.0, -0.5, -3.0] {
        for k in [2, 3, 4, 31, 32, 33, 52, 53, 54, 62, 63, 64, 100, 1023] {
            for d in [-2.0, -1.0, 0.0, 1.0, 2.0] {
                let e = 2f64.powi(k) + d;
                em.emit(ctx, &pow(real(base), real(e)), &[]);
                em.emit(ctx, &pow(real(base), neg(real(e))), &[]);
                em.emit(ctx, &pow(neg(real(-base)), real(e)), &[]);
            }
        }
    }
}

/// random trees whose numeric leaves are boundary constants
fn random_boundary(ctx: &mut Ctx, em: &Emitter, n: usize, stream: u64) {
    let mut rng = ctx.rng(stream);
    let cs = boundary_constants();
    for _ in 0..n {
        let mut leaves = vec![x(), y(), a0(), pi()];
        for _ in 0..4 {
            leaves.push(Expression::Number(*rng.pick(&cs)));
        }
        let alphabet = Alphabet::full(leaves);
        let d = 2 + rng.below(3) as usize;
        let e = random_expr(&mut rng, &alphabet, d);
        drop(alphabet);
        em.emit(ctx, &e, &[]);
    }
}

fn main() {
    main_with(run)
}

fn run(ctx: &mut Ctx) {
    let em = Emitter::new();
    let quick = ctx.quick();
    // 1. corpus
    corpus(ctx, &em);

    // 2. exhaustive
    let full = Alphabet::full(full_leaves());
    // (a) every tree of depth 0 and 1 over the full alphabet (10 + 570)
    for e in &full.leaves {
        em.emit(ctx, e, &[]);
    }
    enumerate(ctx, &em, &full, 1, 1);
    // (b) the trees of depth exactly 2 over the full alphabet (1.68·10^6): every 2nd / every 97th
    enumerate(ctx, &em, &full, 2, if quick { 97 } else { 2 });
    // (c) depth exactly 3 over pruned alphabets, all trees / a subsample
    let fam = |leaves: Vec<Expression>, prefix: Vec<PrefixOperator>, infix: Vec<InfixOperator>| Alphabet {
        leaves,
        functions: vec![],
        prefix,
        infix,
    };
    // {x, y} × {+, *, unary -}: 182 714 trees
    enumerate(ctx, &em, &fam(vec![x(), y()], vec![P::Minus], vec![I::Plus, I::Star]), 3, if quick { 23 } else { 1 });
    // {x, y} × {-, /, unary -}
    enumerate(ctx, &em, &fam(vec![x(), y()], vec![P::Minus], vec![I::Minus, I::Slash]), 3, if quick { 23 } else { 1 });
    // {x, 2} × {*, /}: 81 810 trees
    enumerate(ctx, &em, &fam(vec![x(), real(2.0)], vec![], vec![I::Star, I::Slash]), 3, if quick { 11 } else { 1 });
    // {x, 1} × {+, -}
    enumerate(ctx, &em, &fam(vec![x(), real(1.0)], vec![], vec![I::Plus, I::Minus]), 3, if quick { 11 } else { 1 });
    // {0, x} × {^, *, +}: 3 operators, 2 leaves: n1 = 14, n2 = 590, n3 = 1.04·10^6
    enumerate(ctx, &em, &fam(vec![real(0.0), x()], vec![], vec![I::Caret, I::Star, I::Plus]), 3, if quick { 211 } else { 3 });
    // {x} × all five operators: n1 = 6, n2 = 186, n3 = 173 166
    enumerate(ctx, &em, &fam(vec![x()], vec![], ALL_INFIX.to_vec()), 3, if quick { 29 } else { 1 });

    // 3. seeded random
    random_stream(ctx, &em, if quick { 8_000 } else { 200_000 }, 12, 6);
    random_arith(ctx, &em, if quick { 8_000 } else { 200_000 }, 1212);
    deep_stream(ctx, &em, if quick { 1_500 } else { 30_000 }, 121212);
    random_boundary(ctx, &em, if quick { 4_000 } else { 100_000 }, 12121212);

    // 4. boundaries: numeric constants, the limit, the memo table
    boundary_stream(ctx, &em, if quick { 3 } else { 1 });
    arm_at_limit(ctx, &em);
    memo_two_limits(ctx, &em);
}
