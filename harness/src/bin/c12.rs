//! C12 — expression simplification preserves the expression's value.
//!
//! One case = (expression e, the numbers alive in this process outside e, a list of assignments).  The
//! implementation's output is `e.into_simplified()` (the real `Expression::simplify`, i.e. by_hand.rs) and, for
//! every assignment, the real `Expression::evaluate` of the original and of the simplified tree.
//!
//!   input   (c12 e (amb (c re im) …) std)      `std` = the fixed table of 8 assignments below (`envs`), which
//!                                               lean/QV/C12/Run.lean holds bit for bit (`stdEnvs`)
//!   output  (out e' (vals xRE xIM xRE' xIM' …)) per assignment: value of e, value of e' (an evaluation error
//!                                               — impossible with these assignments — is the atom `e`)
//!
//! `amb` matters because expressions are hash-consed with an equality that identifies +0.0 and -0.0: a freshly
//! computed `-1-0i` is replaced by a live `-1+0i` (see lean/QV/C12/Model.lean, `mkNum`).  Whatever this harness
//! keeps alive while the real code runs (the leaf alphabet, the enumerated trees) is therefore reported.
use num_complex::Complex64;
use quil_rs::expression::{Expression, ExpressionFunction, InfixOperator, PrefixOperator};
use qvh::expr::*;
use qvh::*;
use std::collections::HashMap;

type Env = (Vec<(String, Complex64)>, Vec<(String, Vec<f64>)>);

fn c(re: f64, im: f64) -> Complex64 {
    Complex64::new(re, im)
}

/// 4 generic assignments (complex non-real variables, |·| in [0.3, 3], no algebraic coincidences) and 4 special
/// ones (x = 0; x = 1; y = 0 and a[0] = 0; y = 1 and a[0] = 1).
fn envs() -> Vec<Env> {
    let g: [(Complex64, Complex64, f64, f64); 4] = [
        (c(0.7318, 1.2093), c(-1.4142, 0.5773), 0.6931, -1.3247),
        (c(-0.8415, 0.5403), c(0.3679, -2.2361), -1.7725, 0.4812),
        (c(2.0794, -0.9093), c(-0.4161, -0.6536), 2.3026, 1.0986),
        (c(-1.1284, -1.6449), c(1.2021, 0.9159), -0.5772, -2.6651),
    ];
    let mk = |x: Complex64, y: Complex64, a0: f64, a1: f64| -> Env {
        (vec![("x".to_string(), x), ("y".to_string(), y)], vec![("a".to_string(), vec![a0, a1])])
    };
    let mut out: Vec<Env> = g.iter().map(|(x, y, a0, a1)| mk(*x, *y, *a0, *a1)).collect();
    out.push(mk(c(0.0, 0.0), g[0].1, g[0].2, g[0].3));
    out.push(mk(c(1.0, 0.0), g[1].1, g[1].2, g[1].3));
    out.push(mk(g[2].0, c(0.0, 0.0), 0.0, g[2].3));
    out.push(mk(g[3].0, c(1.0, 0.0), 1.0, g[3].3));
    out
}

fn push_val(out: &mut Vec<Sexp>, r: Result<Complex64, quil_rs::expression::EvaluationError>) {
    match r {
        Ok(v) => {
            out.push(f64bits(v.re));
            out.push(f64bits(v.im));
        }
        Err(_) => {
            out.push(atom("e"));
            out.push(atom("e"));
        }
    }
}

struct Emitter {
    maps: Vec<(HashMap<String, Complex64>, HashMap<String, Vec<f64>>)>,
}

impl Emitter {
    fn new() -> Self {
        let maps = envs().iter().map(|(r, m)| (r.iter().cloned().collect(), m.iter().cloned().collect())).collect();
        Emitter { maps }
    }

    /// `ambient`: the numbers alive outside `e` while the real code runs.
    fn emit(&self, ctx: &mut Ctx, e: &Expression, ambient: &[Complex64]) {
        let input = tagged(
            "c12",
            vec![
                expr_to_sexp(e),
                tagged("amb", ambient.iter().map(|z| complex_to_sexp(*z)).collect()),
                atom("std"),
            ],
        );
        ctx.case(input, || {
            let simplified = e.clone().into_simplified();
            let mut vals: Vec<Sexp> = Vec::with_capacity(4 * self.maps.len());
            for (vars, mem) in &self.maps {
                push_val(&mut vals, e.evaluate(vars, mem));
                push_val(&mut vals, simplified.evaluate(vars, mem));
            }
            tagged("out", vec![expr_to_sexp(&simplified), tagged("vals", vals)])
        });
    }
}

fn numbers_of(leaves: &[Expression]) -> Vec<Complex64> {
    leaves.iter().filter_map(|l| if let Expression::Number(z) = l { Some(*z) } else { None }).collect()
}

use ExpressionFunction::*;
use InfixOperator as I;
use PrefixOperator as P;

fn x() -> Expression {
    var("x")
}
fn y() -> Expression {
    var("y")
}
fn a0() -> Expression {
    addr("a", 0)
}
fn pi() -> Expression {
    Expression::PiConstant()
}
fn neg(e: Expression) -> Expression {
    prefix(P::Minus, e)
}
fn pos(e: Expression) -> Expression {
    prefix(P::Plus, e)
}
fn add(l: Expression, r: Expression) -> Expression {
    infix(l, I::Plus, r)
}
fn sub(l: Expression, r: Expression) -> Expression {
    infix(l, I::Minus, r)
}
fn mul(l: Expression, r: Expression) -> Expression {
    infix(l, I::Star, r)
}
fn div(l: Expression, r: Expression) -> Expression {
    infix(l, I::Slash, r)
}
fn pow(l: Expression, r: Expression) -> Expression {
    infix(l, I::Caret, r)
}
/// `k` nested applications of `f`
fn nest(k: usize, f: impl Fn(Expression) -> Expression, e: Expression) -> Expression {
    (0..k).fold(e, |acc, _| f(acc))
}

/// Hand-written witnesses and past failures.  Every expression is a temporary: nothing but the case's own
/// tree is alive while the real code runs (ambient = []).
fn corpus(ctx: &mut Ctx, em: &Emitter) {
    let mut go = |e: Expression| em.emit(ctx, &e, &[]);
    // --- the three repaired defects (regression witnesses)
    go(div(x(), neg(y()))); // was x * -y
    go(div(neg(x()), y()));
    go(div(x(), neg(add(y(), real(1.0)))));
    go(sub(sub(x(), y()), y())); // was x
    go(div(div(x(), y()), y())); // was x
    go(sub(sub(x(), y()), a0()));
    go(div(div(x(), real(2.0)), y()));
    go(pow(real(0.0), real(0.0))); // was 0
    go(pow(real(0.0), sub(real(1.0), real(1.0))));
    go(pow(sub(x(), x()), sub(y(), y())));
    // --- known finding C12/zero-pow-variable-exponent (pinned by the test infix_exp_0_r)
    go(pow(real(0.0), x()));
    go(pow(real(0.0), y()));
    go(pow(sub(x(), x()), a0()));
    go(mul(real(2.0), pow(real(0.0), x())));
    // --- known finding C12/is-zero-tolerance
    go(mul(real(1e-11), x()));
    go(div(x(), real(1e-11)));
    go(mul(real(1.0 + 1e-11), x()));
    go(mul(call(Sine, pi()), x()));
    // --- every documented test of simplification/mod.rs in spirit
    go(call(Cis, real(0.0)));
    go(call(Exponent, real(1.0)));
    go(call(SquareRoot, real(9.0)));
    go(add(real(0.0), x()));
    go(add(x(), real(0.0)));
    go(sub(real(0.0), x()));
    go(sub(x(), real(0.0)));
    go(sub(x(), x()));
    go(mul(real(0.0), x()));
    go(mul(x(), real(0.0)));
    go(mul(real(1.0), x()));
    go(mul(x(), real(1.0)));
    go(div(real(0.0), x()));
    go(div(x(), real(0.0)));
    go(div(x(), real(1.0)));
    go(div(x(), x()));
    go(pow(x(), real(0.0)));
    go(pow(real(1.0), x()));
    go(pow(x(), real(1.0)));
    go(pow(real(2.0), real(3.0)));
    go(add(x(), neg(y())));
    go(add(neg(x()), y()));
    go(sub(x(), neg(y())));
    go(sub(neg(x()), y()));
    go(mul(neg(x()), neg(y())));
    go(div(neg(x()), neg(y())));
    go(div(x(), neg(x())));
    go(div(neg(x()), x()));
    go(mul(x(), neg(y())));
    go(mul(neg(x()), y()));
    // affine, all four positions of the common factor
    for k in 0..4 {
        // built inside the loop: nothing but the case's own tree may be alive
        let l = || if k < 2 { mul(x(), real(2.0)) } else { mul(real(2.0), x()) };
        let r = || if k % 2 == 0 { mul(x(), real(3.0)) } else { mul(real(3.0), x()) };
        go(add(add(l(), y()), add(r(), a0())));
        go(add(l(), r()));
    }
    go(add(add(x(), y()), add(x(), a0())));
    go(add(x(), add(y(), a0())));
    go(mul(x(), mul(y(), a0())));
    go(sub(x(), sub(y(), a0())));
    go(div(x(), div(y(), a0())));
    go(add(add(x(), y()), a0()));
    go(mul(mul(x(), y()), a0()));
    go(mul(x(), add(y(), a0())));
    go(mul(add(x(), y()), a0()));
    go(div(mul(x(), y()), x()));
    go(div(mul(y(), x()), x()));
    go(div(x(), mul(x(), y())));
    go(div(x(), mul(y(), x())));
    go(div(mul(x(), y()), a0()));
    go(div(a0(), mul(x(), y())));
    go(mul(div(y(), x()), x()));
    go(mul(x(), div(y(), x())));
    go(mul(div(y(), x()), a0()));
    go(pow(add(x(), real(0.0)), y()));
    go(pos(x()));
    go(neg(neg(x())));
    go(neg(real(2.0)));
    go(neg(pi()));
    go(call(Cosine, mul(real(2.0), pi())));
    // --- signed zero / hash-consing
    go(call(SquareRoot, sub(real(0.0), a0())));
    go(call(SquareRoot, sub(real(0.0), real(2.0))));
    go(mul(real(-1.0), call(SquareRoot, neg(real(1.0))))); // -1-0i is replaced by the live -1+0i
    go(add(call(SquareRoot, neg(real(1.0))), real(-1.0))); // … but not when it is created first
    go(pow(neg(real(2.0)), real(0.5)));
    go(add(pow(neg(real(2.0)), real(0.5)), real(-2.0)));
    go(div(real(1.0), neg(real(0.0))));
    go(add(num(f64::NAN, 0.0), div(x(), real(0.0))));
    go(sub(div(x(), real(0.0)), div(y(), real(0.0))));
    // --- the limit: depth 9, 10, 11, 12 … around the node where the limit reaches 0
    for k in 7..=12 {
        go(nest(k, pos, div(mul(pi(), x()), x())));
        go(nest(k, pos, div(mul(x(), pi()), x())));
        go(nest(k, neg, add(x(), real(0.0))));
        go(nest(k, |e| call(Sine, e), add(pi(), real(0.0))));
        go(nest(k, |e| add(e, y()), mul(x(), real(1.0))));
        go(nest(k, |e| mul(real(2.0), e), sub(x(), x())));
    }
    // --- the memo table ignores the limit: the deep occurrence is simplified first (limit 0) and its entry is
    // reused for the shallow occurrence
    for k in 6..=10 {
        let deep = |core: Expression| nest(k, pos, core);
        go(add(mul(real(0.0), deep(mul(pi(), x()))), div(mul(pi(), x()), x())));
        go(add(deep(add(x(), real(0.0))), add(x(), real(0.0))));
        go(add(add(x(), real(0.0)), deep(add(x(), real(0.0)))));
        go(mul(deep(sub(add(x(), y()), add(x(), y()))), sub(add(x(), y()), add(x(), y()))));
    }
    // an expression is re-derived from itself at a lower limit: (-x)*y -> x*(-y) -> (-x)*y
    go(mul(neg(x()), y()));
    go(nest(6, pos, mul(neg(x()), y())));
}

/// Exhaustive enumeration of the trees of depth exactly `depth` (≥ 1) over the alphabet, in the order of
/// `qvh::expr::all_exprs`, keeping every `stride`-th; only the trees of depth < `depth` are materialised (and
/// alive: the numbers in them are the `ambient` ones), a tree of the last level is built only when it is kept.
fn enumerate(ctx: &mut Ctx, em: &Emitter, alphabet: &Alphabet, depth: usize, stride: usize) {
    // Only *interned* numbers are visible to hash-consing: the leaves themselves are owned `Expression`s, but the
    // materialised trees of depth 1 … depth-1 hold every leaf as an interned child.
    let ambient = if depth >= 2 { numbers_of(&alphabet.leaves) } else { vec![] };
    let all = all_exprs(alphabet, depth - 1);
    let prev_len = if depth >= 2 { all_exprs(alphabet, depth - 2).len() } else { 0 };
    let mut i = 0usize;
    let mut keep = || {
        i += 1;
        (i - 1) % stride == 0
    };
    for child in &all[prev_len..] {
        for f in &alphabet.functions {
            if keep() {
                em.emit(ctx, &call(*f, child.clone()), &ambient);
            }
        }
        for o in &alphabet.prefix {
            if keep() {
                em.emit(ctx, &prefix(*o, child.clone()), &ambient);
            }
        }
    }
    for (li, l) in all.iter().enumerate() {
        for (ri, r) in all.iter().enumerate() {
            if li < prev_len && ri < prev_len {
                continue;
            }
            for o in &alphabet.infix {
                if keep() {
                    em.emit(ctx, &infix(l.clone(), *o, r.clone()), &ambient);
                }
            }
        }
    }
}

fn full_leaves() -> Vec<Expression> {
    vec![real(0.0), real(1.0), real(2.0), real(-1.0), real(0.5), num(0.0, 1.0), pi(), x(), y(), a0()]
}

fn random_stream(ctx: &mut Ctx, em: &Emitter, n: usize, stream: u64, max_depth: usize) {
    let mut rng = ctx.rng(stream);
    let alphabet = Alphabet::full(full_leaves());
    // the alphabet's leaves are owned `Expression`s, not interned nodes: nothing outside the case's tree is alive
    let ambient: Vec<Complex64> = vec![];
    for _ in 0..n {
        let d = 2 + rng.below(max_depth as u64 - 1) as usize;
        let e = random_expr(&mut rng, &alphabet, d);
        em.emit(ctx, &e, &ambient);
    }
}

/// arithmetic-only random trees (no functions, no `^`): the rewrite arms fire much more often
fn random_arith(ctx: &mut Ctx, em: &Emitter, n: usize, stream: u64) {
    let mut rng = ctx.rng(stream);
    let alphabet = Alphabet {
        leaves: vec![real(0.0), real(1.0), real(2.0), real(-1.0), x(), x(), y(), y(), a0(), a0()],
        functions: vec![],
        prefix: vec![P::Minus],
        infix: vec![I::Plus, I::Minus, I::Star, I::Slash],
    };
    let ambient: Vec<Complex64> = vec![];
    for _ in 0..n {
        let d = 2 + rng.below(5) as usize;
        let e = random_expr(&mut rng, &alphabet, d);
        em.emit(ctx, &e, &ambient);
    }
}

/// deep trees: a random core wrapped in 6–14 random layers, so that the limit runs out inside
fn deep_stream(ctx: &mut Ctx, em: &Emitter, n: usize, stream: u64) {
    let mut rng = ctx.rng(stream);
    let alphabet = Alphabet::full(full_leaves());
    let ambient: Vec<Complex64> = vec![];
    for _ in 0..n {
        let mut e = random_expr(&mut rng, &alphabet, 3);
        let layers = 6 + rng.below(9);
        for _ in 0..layers {
            e = match rng.below(6) {
                0 => pos(e),
                1 => neg(e),
                2 => call(*rng.pick(&ALL_FUNCTIONS), e),
                3 => infix(e, *rng.pick(&ALL_INFIX), random_expr(&mut rng, &alphabet, 2)),
                4 => infix(random_expr(&mut rng, &alphabet, 2), *rng.pick(&ALL_INFIX), e),
                _ => {
                    // the same subtree twice, at different depths (the memo table is keyed without the limit)
                    let o = *rng.pick(&ALL_INFIX);
                    let shallow = random_expr(&mut rng, &alphabet, 2);
                    infix(infix(e.clone(), o, shallow), *rng.pick(&ALL_INFIX), e)
                }
            };
        }
        em.emit(ctx, &e, &ambient);
    }
}

fn main() {
    main_with(run)
}

fn run(ctx: &mut Ctx) {
    let em = Emitter::new();
    let quick = ctx.quick();
    // 1. corpus
    corpus(ctx, &em);

    // 2. exhaustive
    let full = Alphabet::full(full_leaves());
    // (a) every tree of depth 0 and 1 over the full alphabet (10 + 570)
    for e in &full.leaves {
        em.emit(ctx, e, &[]);
    }
    enumerate(ctx, &em, &full, 1, 1);
    // (b) the trees of depth exactly 2 over the full alphabet (1.68·10^6): every 2nd / every 97th
    enumerate(ctx, &em, &full, 2, if quick { 97 } else { 2 });
    // (c) depth exactly 3 over pruned alphabets, all trees / a subsample
    let fam = |leaves: Vec<Expression>, prefix: Vec<PrefixOperator>, infix: Vec<InfixOperator>| Alphabet {
        leaves,
        functions: vec![],
        prefix,
        infix,
    };
    // {x, y} × {+, *, unary -}: 182 714 trees
    enumerate(ctx, &em, &fam(vec![x(), y()], vec![P::Minus], vec![I::Plus, I::Star]), 3, if quick { 23 } else { 1 });
    // {x, y} × {-, /, unary -}
    enumerate(ctx, &em, &fam(vec![x(), y()], vec![P::Minus], vec![I::Minus, I::Slash]), 3, if quick { 23 } else { 1 });
    // {x, 2} × {*, /}: 81 810 trees
    enumerate(ctx, &em, &fam(vec![x(), real(2.0)], vec![], vec![I::Star, I::Slash]), 3, if quick { 11 } else { 1 });
    // {x, 1} × {+, -}
    enumerate(ctx, &em, &fam(vec![x(), real(1.0)], vec![], vec![I::Plus, I::Minus]), 3, if quick { 11 } else { 1 });
    // {0, x} × {^, *, +}: 3 operators, 2 leaves: n1 = 14, n2 = 590, n3 = 1.04·10^6
    enumerate(ctx, &em, &fam(vec![real(0.0), x()], vec![], vec![I::Caret, I::Star, I::Plus]), 3, if quick { 211 } else { 3 });
    // {x} × all five operators: n1 = 6, n2 = 186, n3 = 173 166
    enumerate(ctx, &em, &fam(vec![x()], vec![], ALL_INFIX.to_vec()), 3, if quick { 29 } else { 1 });

    // 3. seeded random
    random_stream(ctx, &em, if quick { 8_000 } else { 200_000 }, 12, 6);
    random_arith(ctx, &em, if quick { 8_000 } else { 200_000 }, 1212);
    deep_stream(ctx, &em, if quick { 1_500 } else { 30_000 }, 121212);
}
