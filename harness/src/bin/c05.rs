//! C05 — numeric literals are parsed to their exact value or rejected.
//!
//! Streams (in this order; the case index is the replay key):
//!  1. corpus of hand-written witnesses (past failures first) in every operand position;
//!  2. lexer: exhaustive short strings over two number-centred alphabets, full token list compared;
//!  3. literal spellings (all radices x lengths x separator placements x signs x boundary values, floats
//!     with/without exponent, denormals, overflow) in EVERY operand position, through
//!     `Program::from_str`, operand read back from the AST;
//!  4. seeded random spellings (valid and mutated) in random positions and through the lexer.
use num_complex::Complex64;
use quil_rs::expression::{Expression, PrefixOperator};
use quil_rs::instruction::{
    ArithmeticOperand, AttributeValue, BinaryOperand, ComparisonOperand, ExternParameterType, ExternSignature,
    FrameIdentifier, GateSpecification, Instruction, MemoryReference, PragmaArgument, Qubit, UnresolvedCallArgument,
};
use quil_rs::Program;
use qvh::lexwire::{all_strings, lex_case};
use qvh::*;
use std::str::FromStr;

const A1: [char; 10] = ['0', '1', '9', '_', '.', 'e', 'E', '+', '-', ' '];
const A2: [char; 14] = ['0', '1', '7', '8', 'x', 'X', 'b', 'o', '_', '.', 'a', 'f', 'g', 'i'];

/// (position name, operand kind, text before the literal, text after it)
/// kind: arith | cmp | logic | imm | expr | nat
const POSITIONS: &[(&str, &str, &str, &str)] = &[
    ("move", "arith", "MOVE ro[0] ", ""),
    ("add", "arith", "ADD ro ", ""),
    ("sub", "arith", "SUB ro[1] ", ""),
    ("mul", "arith", "MUL ro ", ""),
    ("div", "arith", "DIV ro ", ""),
    ("store", "arith", "STORE a b[0] ", ""),
    ("eq", "cmp", "EQ a b ", ""),
    ("gt", "cmp", "GT a b[1] ", ""),
    ("ge", "cmp", "GE a b ", ""),
    ("lt", "cmp", "LT a b ", ""),
    ("le", "cmp", "LE a b ", ""),
    ("and", "logic", "AND a ", ""),
    ("ior", "logic", "IOR a ", ""),
    ("xor", "logic", "XOR a ", ""),
    ("shl", "logic", "SHL a ", ""),
    ("shr", "logic", "SHR a ", ""),
    ("ashr", "logic", "ASHR a ", ""),
    ("call", "imm", "CALL f ", ""),
    ("gateparam", "expr", "RX(", ") 0"),
    ("gateparam2", "expr", "U(pi, ", ") 0 1"),
    ("setfreq", "expr", "SET-FREQUENCY 0 \"f\" ", ""),
    ("shiftphase", "expr", "SHIFT-PHASE 0 \"f\" ", ""),
    ("rawcapture", "expr", "RAW-CAPTURE 0 \"f\" ", " ro"),
    ("delay", "expr", "DELAY 0 \"f\" ", ""),
    ("wfparam", "expr", "PULSE 0 \"f\" w(a: ", ")"),
    ("frameattr", "expr", "DEFFRAME 0 \"f\":\n\tSAMPLE-RATE: ", ""),
    ("defwaveform", "expr", "DEFWAVEFORM w:\n\t", ", 0"),
    ("defgatematrix", "expr", "DEFGATE G AS MATRIX:\n\t", ", 0\n\t0, 1"),
    ("defcalparam", "expr", "DEFCAL RX(", ") 0:\n\tNOP"),
    ("permutation", "nat", "DEFGATE P AS PERMUTATION:\n\t", ", 0"),
    ("permutation2", "nat", "DEFGATE P AS PERMUTATION:\n\t1, ", ""),
    ("pragmaarg", "nat", "PRAGMA name ", ""),
    ("pragmaarg2", "nat", "PRAGMA name a ", " \"data\""),
    ("declarelen", "nat", "DECLARE x REAL[", "]"),
    ("qubit", "nat", "X ", ""),
    ("qubit2", "nat", "CNOT 1 ", ""),
    ("measurequbit", "nat", "MEASURE ", " ro"),
    ("memindex", "nat", "MOVE ro[", "] 1"),
    ("memindexexpr", "nat", "RX(theta[", "]) 0"),
    ("measuretarget", "nat", "MEASURE 0 ro[", "]"),
    ("sharingoffset", "nat", "DECLARE x BIT[2] SHARING y OFFSET ", " BIT"),
    // rarer instruction kinds and further syntactic variants
    ("setscale", "expr", "SET-SCALE 0 \"f\" ", ""),
    ("setphase", "expr", "SET-PHASE 0 1 \"f\" ", ""),
    ("shiftfreq", "expr", "SHIFT-FREQUENCY 0 \"f\" ", ""),
    ("delaynoframe", "expr", "DELAY 0 ", ""),
    ("delay2q", "expr", "DELAY 0 1 \"f\" \"g\" ", ""),
    ("nbrawcapture", "expr", "NONBLOCKING RAW-CAPTURE 0 \"f\" ", " ro[1]"),
    ("capturewfparam", "expr", "CAPTURE 0 \"f\" w(a: 1, b: ", ") ro"),
    ("forkedparam", "expr", "FORKED DAGGER RX(1, ", ") 0 1"),
    ("defgatematrix11", "expr", "DEFGATE G(%a) AS MATRIX:\n\t1, 0\n\t0, ", ""),
    ("paulitermcoeff", "expr", "DEFGATE G(%t) q AS PAULI-SUM:\n\tX(", ") q"),
    ("seqgateparam", "expr", "DEFGATE G q AS SEQUENCE:\n\tRX(", ") q"),
    ("declarelenbit", "nat", "DECLARE x BIT[", "]"),
    ("declarelenoctet", "nat", "DECLARE x OCTET[", "] SHARING y"),
    ("declarelenint", "nat", "DECLARE x INTEGER[", "]"),
    ("sharingoffset2", "nat", "DECLARE x BIT[2] SHARING y OFFSET 1 REAL ", " OCTET"),
    ("pulsequbit", "nat", "PULSE ", " \"f\" w"),
    ("pulsequbit2", "nat", "NONBLOCKING PULSE 0 ", " \"f\" w"),
    ("fencequbit", "nat", "FENCE 0 ", ""),
    ("resetqubit", "nat", "RESET ", ""),
    ("defcalqubit", "nat", "DEFCAL X ", ":\n\tNOP"),
    ("defcalmeasurequbit", "nat", "DEFCAL MEASURE ", " t:\n\tNOP"),
    ("defframequbit", "nat", "DEFFRAME ", " \"f\":\n\tDIRECTION: \"tx\""),
    ("swapphasesqubit", "nat", "SWAP-PHASES 0 \"f\" ", " \"g\""),
    ("loadoffsetindex", "nat", "LOAD a b c[", "]"),
    ("jumpwhenindex", "nat", "JUMP-WHEN @l ro[", "]"),
    ("convertindex", "nat", "CONVERT a[", "] b"),
    ("exchangeindex", "nat", "EXCHANGE a b[", "]"),
    ("callmemindex", "nat", "CALL f x[", "]"),
    ("pragmaarg3", "nat", "PRAGMA name 1 a ", " b 2"),
    ("permutation4", "nat", "DEFGATE P AS PERMUTATION:\n\t0, 1, 2, ", ""),
    // operands inside definition bodies (name = in-<container>-<base position>)
    ("in-defcal-move", "arith", "DEFCAL X 0:\n\tMOVE ro[0] ", ""),
    ("in-defcircuit-add", "arith", "DEFCIRCUIT C:\n\tADD ro ", ""),
    ("in-defcalmeasure-and", "logic", "DEFCAL MEASURE 0 t:\n\tAND t ", ""),
    ("in-defcal-eq", "cmp", "DEFCAL X 0:\n\tEQ a b ", ""),
    ("in-defcircuit-gateparam", "expr", "DEFCIRCUIT C q:\n\tRX(", ") 0"),
    ("in-defcal-call", "imm", "DEFCAL X 0:\n\tCALL f ", ""),
    ("in-defcal-pragmaarg", "nat", "DEFCAL X 0:\n\tPRAGMA name ", ""),
    // the other public FromStr entry points
    ("fromstr-expression", "expr", "", ""),
    ("fromstr-memref", "nat", "ro[", "]"),
    ("fromstr-frameid", "nat", "0 ", " \"f\""),
    ("fromstr-externsig", "nat", "(a : REAL[", "])"),
];

fn arith(op: &ArithmeticOperand) -> Sexp {
    match op {
        ArithmeticOperand::LiteralInteger(z) => tagged("int", vec![int(*z)]),
        ArithmeticOperand::LiteralReal(x) => tagged("real", vec![f64bits(*x)]),
        ArithmeticOperand::MemoryReference(_) => tagged("other", vec![]),
    }
}
fn cmp(op: &ComparisonOperand) -> Sexp {
    match op {
        ComparisonOperand::LiteralInteger(z) => tagged("int", vec![int(*z)]),
        ComparisonOperand::LiteralReal(x) => tagged("real", vec![f64bits(*x)]),
        ComparisonOperand::MemoryReference(_) => tagged("other", vec![]),
    }
}
fn logic(op: &BinaryOperand) -> Sexp {
    match op {
        BinaryOperand::LiteralInteger(z) => tagged("int", vec![int(*z)]),
        BinaryOperand::MemoryReference(_) => tagged("other", vec![]),
    }
}
fn cplx(z: &Complex64) -> Sexp {
    tagged("num", vec![f64bits(z.re), f64bits(z.im)])
}
fn expr(e: &Expression) -> Sexp {
    match e {
        Expression::Number(z) => cplx(z),
        Expression::Prefix(p) if p.operator == PrefixOperator::Minus => match &*p.expression {
            Expression::Number(z) => tagged("neg", vec![cplx(z)]),
            _ => tagged("other", vec![]),
        },
        _ => tagged("other", vec![]),
    }
}
fn addr_index(e: &Expression) -> Sexp {
    match e {
        Expression::Address(m) => tagged("nat", vec![nat(m.index)]),
        _ => tagged("other", vec![]),
    }
}
fn qubit(q: &Qubit) -> Sexp {
    match q {
        Qubit::Fixed(n) => tagged("nat", vec![nat(*n)]),
        _ => tagged("other", vec![]),
    }
}

/// Read the operand back from the parsed program; `(other)` when the program does not have the
/// template's shape (extra instructions, a different operand kind, …).
fn extract(pos: &str, is: &[Instruction]) -> Sexp {
    let other = || tagged("other", vec![]);
    if is.len() != 1 {
        return other();
    }
    // positions inside a definition body: look at the body's single instruction
    let inner: Vec<Instruction>;
    let (pos, is): (&str, &[Instruction]) = match (pos.strip_prefix("in-"), &is[0]) {
        (Some(rest), Instruction::CalibrationDefinition(c)) => {
            inner = c.instructions.clone();
            (rest.split_once('-').map(|x| x.1).unwrap_or(rest), &inner[..])
        }
        (Some(rest), Instruction::MeasureCalibrationDefinition(c)) => {
            inner = c.instructions.clone();
            (rest.split_once('-').map(|x| x.1).unwrap_or(rest), &inner[..])
        }
        (Some(rest), Instruction::CircuitDefinition(c)) => {
            inner = c.instructions.clone();
            (rest.split_once('-').map(|x| x.1).unwrap_or(rest), &inner[..])
        }
        (Some(_), _) => return other(),
        (None, _) => (pos, is),
    };
    if is.len() != 1 {
        return other();
    }
    match (pos, &is[0]) {
        ("move", Instruction::Move(m)) => arith(&m.source),
        ("add" | "sub" | "mul" | "div", Instruction::Arithmetic(a)) => arith(&a.source),
        ("store", Instruction::Store(s)) => arith(&s.source),
        ("eq" | "gt" | "ge" | "lt" | "le", Instruction::Comparison(c)) => cmp(&c.rhs),
        ("and" | "ior" | "xor" | "shl" | "shr" | "ashr", Instruction::BinaryLogic(b)) => logic(&b.source),
        ("call", Instruction::Call(c)) if c.arguments.len() == 1 => match &c.arguments[0] {
            UnresolvedCallArgument::Immediate(z) => cplx(z),
            _ => other(),
        },
        ("gateparam", Instruction::Gate(g)) if g.parameters.len() == 1 && g.qubits.len() == 1 => {
            expr(&g.parameters[0])
        }
        ("gateparam2", Instruction::Gate(g)) if g.parameters.len() == 2 && g.qubits.len() == 2 => {
            expr(&g.parameters[1])
        }
        ("setfreq", Instruction::SetFrequency(s)) => expr(&s.frequency),
        ("shiftphase", Instruction::ShiftPhase(s)) => expr(&s.phase),
        ("rawcapture", Instruction::RawCapture(r)) => expr(&r.duration),
        ("delay", Instruction::Delay(d)) if d.qubits.len() == 1 && d.frame_names.len() == 1 => expr(&d.duration),
        ("wfparam", Instruction::Pulse(pl)) if pl.waveform.parameters.len() == 1 => {
            pl.waveform.parameters.get("a").map(expr).unwrap_or_else(other)
        }
        ("frameattr", Instruction::FrameDefinition(f)) if f.attributes.len() == 1 => {
            match f.attributes.get("SAMPLE-RATE") {
                Some(AttributeValue::Expression(e)) => expr(e),
                _ => other(),
            }
        }
        ("defwaveform", Instruction::WaveformDefinition(w)) if w.definition.matrix.len() == 2 => {
            expr(&w.definition.matrix[0])
        }
        ("defgatematrix", Instruction::GateDefinition(g)) => match &g.specification {
            GateSpecification::Matrix(m) if m.len() == 2 && m[0].len() == 2 && m[1].len() == 2 => expr(&m[0][0]),
            _ => other(),
        },
        ("defcalparam", Instruction::CalibrationDefinition(c))
            if c.identifier.parameters.len() == 1 && c.identifier.qubits.len() == 1 =>
        {
            expr(&c.identifier.parameters[0])
        }
        ("permutation", Instruction::GateDefinition(g)) => match &g.specification {
            GateSpecification::Permutation(v) if v.len() == 2 => tagged("nat", vec![nat(v[0])]),
            _ => other(),
        },
        ("permutation2", Instruction::GateDefinition(g)) => match &g.specification {
            GateSpecification::Permutation(v) if v.len() == 2 => tagged("nat", vec![nat(v[1])]),
            _ => other(),
        },
        ("pragmaarg", Instruction::Pragma(pr)) if pr.arguments.len() == 1 && pr.data.is_none() => {
            match &pr.arguments[0] {
                PragmaArgument::Integer(n) => tagged("nat", vec![nat(*n)]),
                _ => other(),
            }
        }
        ("pragmaarg2", Instruction::Pragma(pr)) if pr.arguments.len() == 2 && pr.data.is_some() => {
            match &pr.arguments[1] {
                PragmaArgument::Integer(n) => tagged("nat", vec![nat(*n)]),
                _ => other(),
            }
        }
        ("declarelen", Instruction::Declaration(d)) => tagged("nat", vec![nat(d.size.length)]),
        ("qubit", Instruction::Gate(g)) if g.qubits.len() == 1 => qubit(&g.qubits[0]),
        ("qubit2", Instruction::Gate(g)) if g.qubits.len() == 2 => qubit(&g.qubits[1]),
        ("measurequbit", Instruction::Measurement(m)) if m.target.is_some() => qubit(&m.qubit),
        ("memindex", Instruction::Move(m)) => tagged("nat", vec![nat(m.destination.index)]),
        ("memindexexpr", Instruction::Gate(g)) if g.parameters.len() == 1 && g.qubits.len() == 1 => {
            addr_index(&g.parameters[0])
        }
        ("measuretarget", Instruction::Measurement(m)) => match &m.target {
            Some(t) => tagged("nat", vec![nat(t.index)]),
            None => other(),
        },
        ("setscale", Instruction::SetScale(x)) => expr(&x.scale),
        ("setphase", Instruction::SetPhase(x)) => expr(&x.phase),
        ("shiftfreq", Instruction::ShiftFrequency(x)) => expr(&x.frequency),
        ("delaynoframe", Instruction::Delay(d)) if d.qubits.len() == 1 && d.frame_names.is_empty() => expr(&d.duration),
        ("delay2q", Instruction::Delay(d)) if d.qubits.len() == 2 && d.frame_names.len() == 2 => expr(&d.duration),
        ("nbrawcapture", Instruction::RawCapture(r)) if !r.blocking => expr(&r.duration),
        ("capturewfparam", Instruction::Capture(c)) if c.waveform.parameters.len() == 2 => {
            c.waveform.parameters.get("b").map(expr).unwrap_or_else(other)
        }
        ("forkedparam", Instruction::Gate(g)) if g.parameters.len() == 2 && g.modifiers.len() == 2 => expr(&g.parameters[1]),
        ("defgatematrix11", Instruction::GateDefinition(g)) => match &g.specification {
            GateSpecification::Matrix(m) if m.len() == 2 && m[1].len() == 2 => expr(&m[1][1]),
            _ => other(),
        },
        ("paulitermcoeff", Instruction::GateDefinition(g)) => match &g.specification {
            GateSpecification::PauliSum(p) if p.terms.len() == 1 => expr(&p.terms[0].expression),
            _ => other(),
        },
        ("seqgateparam", Instruction::GateDefinition(g)) => match &g.specification {
            GateSpecification::Sequence(seq) => {
                let (_, gates) = quil_rs::verif_hooks::c01::def_gate_sequence_parts(seq);
                match gates {
                    [g1] if g1.parameters.len() == 1 => expr(&g1.parameters[0]),
                    _ => other(),
                }
            }
            _ => other(),
        },
        ("declarelenbit" | "declarelenoctet" | "declarelenint", Instruction::Declaration(d)) => {
            tagged("nat", vec![nat(d.size.length)])
        }
        ("sharingoffset2", Instruction::Declaration(d)) => match &d.sharing {
            Some(s) if s.offsets.len() == 2 => tagged("nat", vec![nat(s.offsets[1].offset)]),
            _ => other(),
        },
        ("pulsequbit", Instruction::Pulse(p)) if p.frame.qubits.len() == 1 => qubit(&p.frame.qubits[0]),
        ("pulsequbit2", Instruction::Pulse(p)) if p.frame.qubits.len() == 2 => qubit(&p.frame.qubits[1]),
        ("fencequbit", Instruction::Fence(f)) if f.qubits.len() == 2 => qubit(&f.qubits[1]),
        ("resetqubit", Instruction::Reset(r)) => r.qubit.as_ref().map(qubit).unwrap_or_else(other),
        ("defcalqubit", Instruction::CalibrationDefinition(c)) if c.identifier.qubits.len() == 1 => {
            qubit(&c.identifier.qubits[0])
        }
        ("defcalmeasurequbit", Instruction::MeasureCalibrationDefinition(c)) => qubit(&c.identifier.qubit),
        ("defframequbit", Instruction::FrameDefinition(f)) if f.identifier.qubits.len() == 1 => {
            qubit(&f.identifier.qubits[0])
        }
        ("swapphasesqubit", Instruction::SwapPhases(sw)) if sw.frame_2.qubits.len() == 1 => qubit(&sw.frame_2.qubits[0]),
        ("loadoffsetindex", Instruction::Load(l)) => tagged("nat", vec![nat(l.offset.index)]),
        ("jumpwhenindex", Instruction::JumpWhen(j)) => tagged("nat", vec![nat(j.condition.index)]),
        ("convertindex", Instruction::Convert(c)) => tagged("nat", vec![nat(c.destination.index)]),
        ("exchangeindex", Instruction::Exchange(e)) => tagged("nat", vec![nat(e.right.index)]),
        ("callmemindex", Instruction::Call(c)) if c.arguments.len() == 1 => match &c.arguments[0] {
            UnresolvedCallArgument::MemoryReference(m) => tagged("nat", vec![nat(m.index)]),
            _ => other(),
        },
        ("pragmaarg3", Instruction::Pragma(pr)) if pr.arguments.len() == 5 => match &pr.arguments[2] {
            PragmaArgument::Integer(n) => tagged("nat", vec![nat(*n)]),
            _ => other(),
        },
        ("permutation4", Instruction::GateDefinition(g)) => match &g.specification {
            GateSpecification::Permutation(v) if v.len() == 4 => tagged("nat", vec![nat(v[3])]),
            _ => other(),
        },
        ("sharingoffset", Instruction::Declaration(d)) => match &d.sharing {
            Some(s) if s.offsets.len() == 1 => tagged("nat", vec![nat(s.offsets[0].offset)]),
            _ => other(),
        },
        _ => other(),
    }
}

/// What Rust's std (an implementation independent of `lexical`) makes of the spelling as a real
/// literal: sign and `_` stripped, an optional trailing `i` dropped.  `-` when std rejects it.
fn std_bits(spelling: &str) -> Sexp {
    let s = spelling.strip_prefix('-').unwrap_or(spelling);
    let s = s.strip_suffix('i').unwrap_or(s);
    let stripped: String = s.chars().filter(|&c| c != '_').collect();
    let plausible = !stripped.is_empty()
        && stripped.chars().all(|c| c.is_ascii_digit() || matches!(c, '.' | 'e' | 'E' | '+' | '-'))
        && stripped.chars().any(|c| c.is_ascii_digit())
        && !stripped.starts_with(['+', '-']);
    if !plausible {
        return atom("-");
    }
    match stripped.parse::<f64>() {
        Ok(x) => f64bits(x),
        Err(_) => atom("-"),
    }
}

fn pos_case(ctx: &mut Ctx, pos: &'static (&'static str, &'static str, &'static str, &'static str), spelling: &str) {
    let (name, kind, pre, post) = *pos;
    let text = format!("{pre}{spelling}{post}");
    let input = tagged("pos", vec![atom(name), atom(kind), st(spelling), std_bits(spelling)]);
    ctx.case(input, move || {
        if let Some(entry) = name.strip_prefix("fromstr-") {
            return from_str_entry(entry, &text);
        }
        // program-level entry point
        let prog = Program::from_str(&text);
        if let Err(e) = &prog {
            format_error(e);
        }
        let out1 = match &prog {
            Ok(p) => extract(name, &p.to_instructions()),
            Err(_) => tagged("err", vec![]),
        };
        // sibling entry point: a single instruction
        let instr = Instruction::from_str(&text);
        if let Err(e) = &instr {
            format_error(e);
        }
        let consistent = match (&prog, &instr) {
            (Ok(p), Ok(i)) => {
                let is = p.to_instructions();
                is.len() == 1 && is[0] == *i && format!("{:?}", is[0]) == format!("{i:?}")
            }
            (Ok(p), Err(_)) => p.to_instructions().len() != 1,
            (Err(_), Ok(_)) => false,
            (Err(_), Err(_)) => true,
        };
        if consistent {
            out1
        } else {
            tagged("mismatch", vec![out1, st(format!("{instr:?}"))])
        }
    });
}

/// Format an error every way a caller might: a panic in there is a crash.
fn format_error<E: std::error::Error>(e: &E) {
    let _ = e.to_string();
    let _ = format!("{e:#}");
    let _ = format!("{e:?}");
    let mut src = e.source();
    while let Some(s) = src {
        let _ = s.to_string();
        src = s.source();
    }
}

/// The other public `FromStr` entry points that read a numeric literal.
fn from_str_entry(entry: &str, text: &str) -> Sexp {
    let err = || tagged("err", vec![]);
    match entry {
        "expression" => match Expression::from_str(text) {
            Ok(e) => expr(&e),
            Err(e) => {
                format_error(&e);
                err()
            }
        },
        "memref" => match MemoryReference::from_str(text) {
            Ok(m) => tagged("nat", vec![nat(m.index)]),
            Err(e) => {
                format_error(&e);
                err()
            }
        },
        "frameid" => match FrameIdentifier::from_str(text) {
            Ok(f) if f.qubits.len() == 2 => qubit(&f.qubits[1]),
            Ok(_) => tagged("other", vec![]),
            Err(e) => {
                format_error(&e);
                err()
            }
        },
        "externsig" => match ExternSignature::from_str(text) {
            Ok(sig) => match sig.parameters().first().map(|p| p.data_type()) {
                Some(ExternParameterType::FixedLengthVector(v)) => tagged("nat", vec![nat(v.length)]),
                _ => tagged("other", vec![]),
            },
            Err(e) => {
                format_error(&e);
                err()
            }
        },
        _ => unreachable!(),
    }
}

fn all_positions(ctx: &mut Ctx, spelling: &str) {
    for pos in POSITIONS {
        pos_case(ctx, pos, spelling);
    }
}

// ---------------------------------------------------------------- spelling generators

fn to_radix(mut v: u128, radix: u32, upper: bool) -> String {
    if v == 0 {
        return "0".to_string();
    }
    let mut out = Vec::new();
    while v > 0 {
        let d = (v % radix as u128) as u32;
        let c = char::from_digit(d, radix).unwrap();
        out.push(if upper { c.to_ascii_uppercase() } else { c });
        v /= radix as u128;
    }
    out.iter().rev().collect()
}

fn prefix(radix: u32, upper: bool) -> &'static str {
    match (radix, upper) {
        (2, false) => "0b",
        (2, true) => "0B",
        (8, false) => "0o",
        (8, true) => "0O",
        (16, false) => "0x",
        (16, true) => "0X",
        _ => "",
    }
}

/// Separator placements of a digit string: none, one internal, doubled internal, trailing, every gap.
fn separator_variants(digits: &str) -> Vec<String> {
    let mut v = vec![digits.to_string()];
    let n = digits.len();
    if n >= 2 {
        let mid = n / 2;
        v.push(format!("{}_{}", &digits[..mid], &digits[mid..]));
        v.push(format!("{}__{}", &digits[..1], &digits[1..]));
        v.push(digits.chars().map(|c| c.to_string()).collect::<Vec<_>>().join("_"));
    }
    v.push(format!("{digits}_"));
    v.push(format!("{digits}__"));
    v
}

const BOUNDARY: &[u128] = &[
    0,
    1,
    7,
    (1 << 31) - 1,
    1 << 31,
    (1 << 32) - 1,
    1 << 32,
    (1 << 53) - 1,
    1 << 53,
    (1 << 53) + 1,
    (1 << 63) - 1,
    1 << 63,
    (1 << 63) + 1,
    (1 << 64) - 1,
    1 << 64,
    (1 << 64) + 1,
    10_000_000_000_000_000_000,
    100_000_000_000_000_000_000,
    (1 << 64) * 16 + 5,
];

const SIGNS: &[&str] = &["", "-", "+"];

fn integer_spellings(quick: bool) -> Vec<String> {
    let mut out = Vec::new();
    // boundary values in every radix, prefix case, leading zeros, separator placements, signs
    for &v in BOUNDARY {
        for radix in [2u32, 8, 10, 16] {
            for upper in [false, true] {
                if radix == 10 && upper {
                    continue;
                }
                let digits = to_radix(v, radix, upper && radix == 16);
                let variants = if quick { vec![digits.clone(), format!("{digits}_")] } else { separator_variants(&digits) };
                for d in variants {
                    for sign in SIGNS {
                        if quick && *sign == "+" && v > 7 {
                            continue;
                        }
                        out.push(format!("{sign}{}{d}", prefix(radix, upper)));
                    }
                }
                if !quick || v == (1 << 64) - 1 || v == 1 << 63 {
                    out.push(format!("{}000{digits}", prefix(radix, upper)));
                    if radix != 10 {
                        out.push(format!("{}_{digits}", prefix(radix, upper)));
                        out.push(format!("-{}__{digits}", prefix(radix, upper)));
                    }
                }
            }
        }
    }
    // every length 1..=22 digits, all-max digit and 1-then-zeros, every radix
    for radix in [2u32, 8, 10, 16] {
        let maxd = char::from_digit(radix - 1, radix).unwrap();
        let lens: Vec<usize> = if radix == 2 { vec![1, 2, 31, 32, 53, 62, 63, 64, 65, 66] } else { (1..=22).collect() };
        for len in lens {
            let all_max: String = std::iter::repeat(maxd).take(len).collect();
            let one_zeros: String = std::iter::once('1').chain(std::iter::repeat('0').take(len - 1)).collect();
            for d in [all_max, one_zeros] {
                out.push(format!("{}{d}", prefix(radix, false)));
                out.push(format!("-{}{d}", prefix(radix, false)));
                if !quick {
                    for s in separator_variants(&d).into_iter().skip(1) {
                        out.push(format!("{}{s}", prefix(radix, false)));
                    }
                }
            }
        }
    }
    // malformed / odd
    for s in [
        "0x", "0b", "0o", "0x_", "0b__", "0xg", "0b2", "0o8", "0b12", "0o78", "0x1g", "_1", "1_", "1__", "00", "007",
        "0_0", "0x0_", "1i", "0x1i", "1_i", "--1", "- 1", "-_1", "-0", "-0x0", "+0", "0X_fF", "0xe5", "0b1e5", "1e", "0e0",
    ] {
        out.push(s.to_string());
    }
    out
}

fn float_spellings(quick: bool) -> Vec<String> {
    let base: Vec<&str> = vec![
        "0.", ".0", "0.0", "1.", ".1", "1.1", "1.0", "2.5", "1e5", "1E5", "1.e5", ".1e5", "1.1e5", "1e+5", "1e-5", "1E+5",
        "1e05", "1e0", "0e0", "0.0e0", "1.5e-3", "00.5", "007.25", "3.14159", "6.02214076e23", "1e22", "1e23", "8.5e-1",
        // halfway / boundary cases
        "9007199254740992.0", "9007199254740993.0", "9007199254740993.0000000000000000001", "9007199254740994.0",
        "9007199254740995.0", "1.00000000000000011102230246251565404236316680908203125",
        "1.00000000000000011102230246251565404236316680908203124", "1.00000000000000011102230246251565404236316680908203126",
        "0.1", "0.2", "0.3", "0.30000000000000004", "123456789012345678901234567890.0", "0.000000000000000000000000000001",
        // denormals and underflow
        "4.9e-324", "5e-324", "2.4703282292062327e-324", "2.4703282292062328e-324", "2.4703282292062327208e-324",
        "2.4703282292062327209e-324", "1e-323", "2.2250738585072014e-308", "2.2250738585072011e-308", "1e-400", "1e-330",
        "0.0e-999", "1e-99999",
        // overflow boundary
        "1e308", "1.7976931348623157e308", "1.7976931348623158e308", "1.797693134862315807e308",
        "1.797693134862315808e308", "1.7976931348623159e308", "1e309", "1e400", "1e99999", "1e1_000_000", "2e308",
        "179769313486231570000000000000000000000000000000000000000000000000000000000000000000000000000000000000000000000000000000000000000000000000000000000000000000000000000000000000000000000000000000000000000000000000000000000000000000000000000000000000000000000000000000000000000000000000000000000000000000000000000000.0",
        // integer part beyond u64 (the integer pre-pass fails)
        "18446744073709551615.0", "18446744073709551616.0", "99999999999999999999.5", "18446744073709551616e0",
        // separators
        "1_0.5", "1__0.5_", "1_.5", "1._5", "._5", "1._", "1.5_e3", "1.5e_3", "1.5e3_", "1.5e+_3_", "1.5e-__3", "1_e5",
        "1__2__.3__4__e+__1__5__", "1__2__.3__4__e-__1__5__", "1__2__.3__4__e__1__5__", "1._e5", "1.e_", "1e_", "1.5e+",
        "1.5e-", ".", ".e5", "._", "1..5", "1.5.5", "1.5e5.5", "1.5e5e5", "1e5i", "1.5i", ".5i", "1.i", "1e+5i", "1.5ei",
        "1.5 i", "1.5_i",
    ];
    let mut out: Vec<String> = Vec::new();
    for b in &base {
        out.push(b.to_string());
        out.push(format!("-{b}"));
        if !quick {
            out.push(format!("+{b}"));
        }
    }
    out
}

/// sign forms the grammar rejects or lexes apart, and imaginary forms of every boundary integer
fn sign_and_imaginary_spellings() -> Vec<String> {
    let mut out = Vec::new();
    for body in ["1", "1.5", "0x10", "9223372036854775808", "1e5", "1i", "2.5i"] {
        for sign in ["--", "-+", "+-", "++", "- ", "-  ", "+ ", "-\t"] {
            out.push(format!("{sign}{body}"));
        }
    }
    for &v in BOUNDARY {
        for radix in [10u32, 16, 2] {
            let d = format!("{}{}", prefix(radix, false), to_radix(v, radix, false));
            out.push(format!("{d}i"));
            out.push(format!("-{d}i"));
            out.push(format!("{d} i"));
            out.push(format!("{d}_i"));
        }
    }
    for f in ["1.5i", "-1.5i", "1e308i", "1e309i", "4.9e-324i", "9007199254740993.0i", ".5i", "5.i", "1_0.2_5i", "1e1_0i", "1ii", "1.5ii", "1i2", "1.5i.5"] {
        out.push(f.to_string());
    }
    out
}

/// exact halfway points between adjacent doubles at the subnormal / normal / overflow borders, written
/// with 17..25 significant digits (truncated = just below or exactly the tie, +1 in the last place = above)
fn halfway_spellings(quick: bool) -> Vec<String> {
    // (bits of the lower neighbour)
    let lows: &[u64] = &[
        0x0000_0000_0000_0000, // 0 .. min subnormal
        0x0000_0000_0000_0001,
        0x000F_FFFF_FFFF_FFFE, // around the largest subnormal
        0x000F_FFFF_FFFF_FFFF, // largest subnormal .. smallest normal
        0x0010_0000_0000_0000,
        0x3FEF_FFFF_FFFF_FFFF, // just below 1
        0x3FF0_0000_0000_0000,
        0x4330_0000_0000_0000, // 2^52
        0x433F_FFFF_FFFF_FFFF, // below 2^53
        0x4340_0000_0000_0000, // 2^53 (ulp 2)
        0x43E0_0000_0000_0000, // 2^63
        0x43EF_FFFF_FFFF_FFFF,
        0x7FEF_FFFF_FFFF_FFFE,
        0x7FEF_FFFF_FFFF_FFFF, // max .. 2^1024 (the overflow border)
    ];
    let mut out = Vec::new();
    for &lo in lows {
        // value of the tie = (2*m + 1) * 2^(e-1) with lo = m * 2^e; computed as an exact decimal string
        let tie = exact_tie_decimal(lo);
        let (digits, exp10) = tie; // digits without point, value = 0.d1d2... * 10^exp10
        let lens: Vec<usize> = if quick { vec![17, 19, 20, 25] } else { (17..=25).collect() };
        for len in lens {
            let mut d: Vec<u8> = digits.bytes().take(len).collect();
            while d.len() < len {
                d.push(b'0');
            }
            let base = String::from_utf8(d.clone()).unwrap();
            // bump the last digit (no carry handling needed when it is < 9)
            let mut up = d.clone();
            if let Some(l) = up.last_mut() {
                if *l < b'9' {
                    *l += 1;
                }
            }
            let up = String::from_utf8(up).unwrap();
            for m in [base, up] {
                out.push(format!("0.{m}e{exp10}"));
                out.push(format!("{}.{}e{}", &m[..1], &m[1..], exp10 - 1));
                out.push(format!("{}.{}e{}_", &m[..1], &m[1..], exp10 - 1));
            }
        }
        // the full exact tie (hundreds of digits): must round to even
        out.push(format!("0.{digits}e{exp10}"));
        out.push(format!("0.{digits}1e{exp10}"));
    }
    out
}

/// exact decimal expansion of the midpoint between the double with bits `lo` and its successor:
/// (digits, exp10) with value = 0.digits * 10^exp10
fn exact_tie_decimal(lo: u64) -> (String, i32) {
    let exp_field = ((lo >> 52) & 0x7FF) as i32;
    let frac = lo & 0x000F_FFFF_FFFF_FFFF;
    let (m, e) = if exp_field == 0 { (frac, -1074) } else { (frac | (1 << 52), exp_field - 1075) };
    // tie = (2m + 1) * 2^(e - 1)
    let mut num: Vec<u32> = to_base1e9((2 * m + 1) as u128);
    let e2 = e - 1;
    let mut dec_shift = 0i32;
    if e2 >= 0 {
        for _ in 0..e2 {
            mul_small(&mut num, 2);
        }
    } else {
        // multiply by 5^(-e2) and shift the decimal point by -e2 places
        for _ in 0..(-e2) {
            mul_small(&mut num, 5);
        }
        dec_shift = e2;
    }
    let s = big_to_string(&num);
    let exp10 = s.len() as i32 + dec_shift;
    (s.trim_end_matches('0').to_string(), exp10)
}
fn to_base1e9(mut v: u128) -> Vec<u32> {
    let mut out = Vec::new();
    while v > 0 {
        out.push((v % 1_000_000_000) as u32);
        v /= 1_000_000_000;
    }
    if out.is_empty() {
        out.push(0);
    }
    out
}
fn mul_small(n: &mut Vec<u32>, k: u32) {
    let mut carry = 0u64;
    for limb in n.iter_mut() {
        let v = *limb as u64 * k as u64 + carry;
        *limb = (v % 1_000_000_000) as u32;
        carry = v / 1_000_000_000;
    }
    if carry > 0 {
        n.push(carry as u32);
    }
}
fn big_to_string(n: &[u32]) -> String {
    let mut s = String::new();
    for (k, limb) in n.iter().rev().enumerate() {
        if k == 0 {
            s.push_str(&limb.to_string());
        } else {
            s.push_str(&format!("{limb:09}"));
        }
    }
    s
}

fn random_digits(rng: &mut Rng, radix: u32, len: u64) -> String {
    (0..len).map(|_| char::from_digit(rng.below(radix as u64) as u32, radix).unwrap()).collect()
}

fn sprinkle_separators(rng: &mut Rng, s: &str) -> String {
    let mut out = String::new();
    for c in s.chars() {
        out.push(c);
        if c.is_ascii_hexdigit() && rng.chance(1, 6) {
            out.push('_');
            if rng.chance(1, 4) {
                out.push('_');
            }
        }
    }
    out
}

fn random_spelling(rng: &mut Rng) -> String {
    let sign = if rng.chance(1, 3) { "-" } else { "" };
    let body = match rng.below(8) {
        0 => {
            // random u64 (biased to the top of the range) in a random radix
            let v = match rng.below(3) {
                0 => rng.next(),
                1 => u64::MAX - rng.below(1000),
                _ => (1u64 << 63).wrapping_add(rng.below(2000)).wrapping_sub(1000),
            };
            let radix = *rng.pick(&[2u32, 8, 10, 16]);
            let upper = rng.chance(1, 2);
            format!("{}{}", prefix(radix, upper), to_radix(v as u128, radix, rng.chance(1, 2)))
        }
        1 => {
            let radix = *rng.pick(&[2u32, 8, 10, 16]);
            let len = 1 + rng.below(if radix == 2 { 70 } else { 24 });
            format!("{}{}", prefix(radix, false), random_digits(rng, radix, len))
        }
        2 => {
            // random f64 bits, shortest round-trip rendering
            let x = f64::from_bits(rng.next() & 0x7fff_ffff_ffff_ffff);
            if x.is_finite() {
                format!("{x:e}")
            } else {
                "1.5".to_string()
            }
        }
        3 => {
            let x = f64::from_bits(rng.next() & 0x7fff_ffff_ffff_ffff);
            if x.is_finite() && x < 1e40 && x > 1e-40 {
                format!("{x:?}")
            } else {
                let (a, b) = (1 + rng.below(5), rng.below(6));
                format!("{}.{}", random_digits(rng, 10, a), random_digits(rng, 10, b))
            }
        }
        4 => {
            // many digits (beyond 19 significant) with exponent: exercises lexical's slow path
            let a = 1 + rng.below(30);
            let b = rng.below(30);
            let e = rng.range(-340, 320);
            format!("{}.{}e{}", random_digits(rng, 10, a), random_digits(rng, 10, b), e)
        }
        5 => {
            // halfway neighbourhoods: exact decimal expansion of (m + 1/2) ulp, nudged
            let m = (1u64 << 52) | (rng.next() >> 12);
            let v = (m as u128) * 2 + 1; // odd => exactly between two doubles at scale 2^-1
            let digits = v.to_string();
            let nudge = match rng.below(3) {
                0 => "",
                1 => "0000000000000000000001",
                _ => "",
            };
            // v / 2 = digits * 5 / 10
            let times5 = (v * 5).to_string();
            let (ip, fp) = times5.split_at(times5.len() - 1);
            let _ = digits;
            format!("{ip}.{fp}{nudge}")
        }
        6 => {
            let (a, e) = (1 + rng.below(4), rng.range(-30, 30));
            format!("{}e{}", random_digits(rng, 10, a), e)
        }
        _ => {
            let a = 1 + rng.below(20);
            format!(".{}", random_digits(rng, 10, a))
        }
    };
    let body = if rng.chance(1, 3) { sprinkle_separators(rng, &body) } else { body };
    let body = if rng.chance(1, 12) { format!("{body}i") } else { body };
    format!("{sign}{body}")
}

fn mutate(rng: &mut Rng, s: &str) -> String {
    const INS: [char; 14] = ['_', '.', 'e', 'E', '+', '-', '0', '9', 'x', 'b', 'o', 'i', ' ', 'f'];
    let mut cs: Vec<char> = s.chars().collect();
    match rng.below(3) {
        0 if !cs.is_empty() => {
            let i = rng.below(cs.len() as u64) as usize;
            cs.remove(i);
        }
        1 if !cs.is_empty() => {
            let i = rng.below(cs.len() as u64) as usize;
            cs[i] = *rng.pick(&INS);
        }
        _ => {
            let i = rng.below(cs.len() as u64 + 1) as usize;
            cs.insert(i, *rng.pick(&INS));
        }
    }
    cs.into_iter().collect()
}

// ---------------------------------------------------------------- literal SEQUENCES
// Positions that take several numeric operands, or where adjacent literals can be merged by the parser:
// the whole operand LIST (count, order, values) is read back.

const SEQ_KINDS: &[&str] = &["call", "gateparams", "matrixrow", "defwaveform", "wfargs", "permutation", "pragma", "qubits"];

fn seq_text(kind: &str, items: &[String]) -> String {
    match kind {
        "call" => format!("CALL f {}", items.join(" ")),
        "gateparams" => format!("G({}) 0", items.join(", ")),
        "matrixrow" => format!("DEFGATE G AS MATRIX:\n\t{}\n\t0, 1", items.join(", ")),
        "defwaveform" => format!("DEFWAVEFORM w:\n\t{}", items.join(", ")),
        "wfargs" => format!(
            "PULSE 0 \"f\" w({})",
            items.iter().enumerate().map(|(k, x)| format!("k{k}: {x}")).collect::<Vec<_>>().join(", ")
        ),
        "permutation" => format!("DEFGATE P AS PERMUTATION:\n\t{}", items.join(", ")),
        "pragma" => format!("PRAGMA name {}", items.join(" ")),
        "qubits" => format!("FENCE {}", items.join(" ")),
        _ => unreachable!(),
    }
}

fn seq_extract(kind: &str, is: &[Instruction]) -> Sexp {
    let other = || tagged("other", vec![]);
    if is.len() != 1 {
        return other();
    }
    let items: Option<Vec<Sexp>> = match (kind, &is[0]) {
        ("call", Instruction::Call(c)) => Some(
            c.arguments()
                .iter()
                .map(|a| match a {
                    UnresolvedCallArgument::Immediate(z) => cplx(z),
                    _ => other(),
                })
                .collect(),
        ),
        ("gateparams", Instruction::Gate(g)) if g.qubits.len() == 1 => Some(g.parameters.iter().map(expr).collect()),
        ("matrixrow", Instruction::GateDefinition(g)) => match &g.specification {
            GateSpecification::Matrix(m) if m.len() == 2 && m[1].len() == 2 => Some(m[0].iter().map(expr).collect()),
            _ => None,
        },
        ("defwaveform", Instruction::WaveformDefinition(w)) => Some(w.definition.matrix.iter().map(expr).collect()),
        ("wfargs", Instruction::Pulse(p)) => {
            // IndexMap keeps insertion order; the keys must be k0, k1, … in order
            let ok = p.waveform.parameters.keys().enumerate().all(|(k, key)| *key == format!("k{k}"));
            if ok {
                Some(p.waveform.parameters.values().map(expr).collect())
            } else {
                None
            }
        }
        ("permutation", Instruction::GateDefinition(g)) => match &g.specification {
            GateSpecification::Permutation(v) => Some(v.iter().map(|n| tagged("nat", vec![nat(*n)])).collect()),
            _ => None,
        },
        ("pragma", Instruction::Pragma(pr)) if pr.data.is_none() => Some(
            pr.arguments
                .iter()
                .map(|a| match a {
                    PragmaArgument::Integer(n) => tagged("nat", vec![nat(*n)]),
                    _ => other(),
                })
                .collect(),
        ),
        ("qubits", Instruction::Fence(f)) => Some(f.qubits.iter().map(qubit).collect()),
        _ => None,
    };
    match items {
        Some(v) => tagged("items", v),
        None => other(),
    }
}

fn seq_case(ctx: &mut Ctx, kind: &'static str, items: &[String]) {
    let text = seq_text(kind, items);
    let mut input = vec![atom(kind)];
    input.extend(items.iter().map(|x| st(x.clone())));
    ctx.case(tagged("seq", input), move || {
        let prog = Program::from_str(&text);
        if let Err(e) = &prog {
            format_error(e);
        }
        let out1 = match &prog {
            Ok(p) => seq_extract(kind, &p.to_instructions()),
            Err(_) => tagged("err", vec![]),
        };
        let instr = Instruction::from_str(&text);
        if let Err(e) = &instr {
            format_error(e);
        }
        let consistent = match (&prog, &instr) {
            (Ok(p), Ok(i)) => {
                let is = p.to_instructions();
                is.len() == 1 && is[0] == *i && format!("{:?}", is[0]) == format!("{i:?}")
            }
            (Ok(p), Err(_)) => p.to_instructions().len() != 1,
            (Err(_), Ok(_)) => false,
            (Err(_), Err(_)) => true,
        };
        if consistent {
            out1
        } else {
            tagged("mismatch", vec![out1, st(format!("{instr:?}"))])
        }
    });
}

/// literals whose adjacency matters: every spelling of zero with every sign, imaginary forms, signed reals
const SEQ_POOL: &[&str] = &[
    "0", "-0", "+0", "0.0", "-0.0", "+0.0", "0x0", "-0x0", "0e5", "-0e5", "0i", "-0i", "+0i", "0.0i", "-0.0i", "1", "-1",
    "+1", "5", "2.5", "-2.5", "+2.5", "1e3", "2i", "-2i", "+2i", "1.5i", "-1.5i", "+1.5i", "-0x10", "0b1", "-1e-3i",
    "1e-400i", "-1e-400i", "18446744073709551615", "-18446744073709551615i", "18446744073709551616", "1_0", "1e1_0",
    "9007199254740993", "1e309",
];

fn seq_stream(ctx: &mut Ctx, quick: bool) {
    let pool: Vec<String> = SEQ_POOL.iter().map(|s| s.to_string()).collect();
    // corpus: the witnesses of seeded change C05-3 (a signed zero after a real immediate must not vanish)
    for items in [
        vec!["5", "-0"],
        vec!["2.5", "-0.0", "7"],
        vec!["1e3", "-0x0", "-0e5"],
        vec!["3", "+0"],
        vec!["1", "+2i"],
        vec!["1", "-0i"],
        vec!["1", "-2i", "-0", "3"],
    ] {
        let v: Vec<String> = items.iter().map(|s| s.to_string()).collect();
        for kind in SEQ_KINDS {
            seq_case(ctx, kind, &v);
        }
    }
    // every ordered pair of the pool in the CALL position; a spread of pairs in the other kinds
    for a in &pool {
        for b in &pool {
            seq_case(ctx, "call", &[a.clone(), b.clone()]);
        }
    }
    let mut rng = ctx.rng(11);
    let n_pairs = if quick { 150 } else { 1700 };
    for kind in &SEQ_KINDS[1..] {
        for _ in 0..n_pairs {
            let a = rng.pick(&pool).clone();
            let b = rng.pick(&pool).clone();
            seq_case(ctx, kind, &[a, b]);
        }
    }
    // longer sequences (1..=5 items) everywhere
    let n_long = if quick { 250 } else { 20_000 };
    for _ in 0..n_long {
        let kind = *rng.pick(SEQ_KINDS);
        let len = 1 + rng.below(5);
        let items: Vec<String> = (0..len)
            .map(|_| if rng.chance(1, 5) { random_spelling(&mut rng) } else { rng.pick(&pool).clone() })
            .collect();
        seq_case(ctx, kind, &items);
        if kind != "call" && rng.chance(1, 2) {
            seq_case(ctx, "call", &items);
        }
    }
}

fn main() {
    main_with(run)
}

fn run(ctx: &mut Ctx) {
    let quick = ctx.quick();
    // 1. corpus: past failures and hand-written witnesses, in every position
    for s in [
        "18446744073709551615", // used to become -1 (`v as i64`)
        "-9223372036854775808", // i64::MIN: representable, used to overflow-panic in debug builds
        "9223372036854775808",
        "-9223372036854775809",
        "9223372036854775807",
        "0xFFFFFFFFFFFFFFFF",
        "-0x8000000000000000",
        "+1",
        "1.0",
        "-1.0",
        "1",
        "-1",
        "0x_",
    ] {
        all_positions(ctx, s);
    }
    // regression witnesses of the lexical debug-assertion panic (fixed in /repo c330f06)
    for s in ["1._0000000000000000001", "45._13920674617104288926664e272", "0o7._777777777777777777_30", "1._e5"] {
        lex_case(ctx, s);
        all_positions(ctx, s);
    }
    // 2. lexer, exhaustive short strings
    let (l1, l2) = if quick { (4, 3) } else { (6, 5) };
    for len in 0..=l1 {
        all_strings(&A1, len, &mut |s| lex_case(ctx, s));
    }
    for len in 1..=l2 {
        all_strings(&A2, len, &mut |s| lex_case(ctx, s));
    }
    // 3. literal spellings in every operand position
    let ints = integer_spellings(quick);
    let floats = float_spellings(quick);
    let extra = sign_and_imaginary_spellings();
    for s in ints.iter().chain(floats.iter()).chain(extra.iter()) {
        lex_case(ctx, s);
        all_positions(ctx, s);
    }
    // halfway cases at the subnormal / normal / overflow borders: lexer + a few positions of each kind
    for s in halfway_spellings(quick) {
        lex_case(ctx, &s);
        for name in ["move", "eq", "fromstr-expression", "gateparam", "call", "frameattr", "delaynoframe"] {
            let pos = POSITIONS.iter().find(|p| p.0 == name).unwrap();
            pos_case(ctx, pos, &s);
            pos_case(ctx, pos, &format!("-{s}"));
        }
    }
    // 3b. literal sequences: operand lists (count, order, values)
    seq_stream(ctx, quick);
    // 4. seeded random spellings, valid and mutated, random positions + lexer
    let mut rng = ctx.rng(5);
    let n = if quick { 3000 } else { 150_000 };
    for _ in 0..n {
        let mut s = random_spelling(&mut rng);
        if rng.chance(1, 4) {
            s = mutate(&mut rng, &s);
        }
        lex_case(ctx, &s);
        for _ in 0..3 {
            let pos = &POSITIONS[rng.below(POSITIONS.len() as u64) as usize];
            pos_case(ctx, pos, &s);
        }
        // the same literal followed by something else on the line / embedded in a bigger expression
        if rng.chance(1, 4) {
            lex_case(ctx, &format!("MOVE ro {s} # c\nRX({s}*2) 0"));
        }
    }
}
