//! temporary probe
use quil_rs::verif_hooks;
fn main() {
    let args: Vec<String> = std::env::args().collect();
    for a in &args[1..] {
        let a = a.replace("\\n", "\n").replace("\\t", "\t").replace("\\r", "\r");
        println!("{:?} => {:?}", a, verif_hooks::lex_tokens(&a));
    }
}
