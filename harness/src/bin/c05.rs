//! C05 — numeric literals are parsed to their exact value or rejected.
use qvh::lexwire::{all_strings, lex_case};
use qvh::*;

const A1: [char; 10] = ['0', '1', '9', '_', '.', 'e', 'E', '+', '-', ' '];
const A2: [char; 14] = ['0', '1', '7', '8', 'x', 'X', 'b', 'o', '_', '.', 'a', 'f', 'g', 'i'];

fn main() {
    main_with(run)
}

fn run(ctx: &mut Ctx) {
    let (l1, l2) = if ctx.quick() { (4, 3) } else { (6, 5) };
    for len in 0..=l1 {
        all_strings(&A1, len, &mut |s| lex_case(ctx, s));
    }
    for len in 1..=l2 {
        all_strings(&A2, len, &mut |s| lex_case(ctx, s));
    }
}
