//! C21 — the gate-sequence source map matches the expansion.
//! Same input and observation as C20 (`seqgate::observe`: both entry points, the full source map tree,
//! `list_sources` / `list_targets` lookups, repeated calls), own random streams.
use qvh::seqgate::run_streams;
use qvh::*;

fn main() {
    main_with(|ctx| run_streams(ctx, 40))
}
