//! C21 — the gate-sequence source map matches the expansion.
//! Input `(prog (defs …) (body …) (sel …))` as for C20; output of the real
//! `Program::expand_defgate_sequences_with_source_map`, compared with `Program::expand_defgate_sequences`:
//!   (ok (body instr…) (kept "name"…) (intact b) (same b) (map entry…))   entry = (u src idx) | (r src "name" start stop (entry…))
//!   (err <error> (same b))
//! `same` = the other entry point returned an equal program / an equal error.
use quil_rs::program::{DefGateSequenceExpansion, ExpansionResult, InstructionIndex, SourceMap};
use quil_rs::quil::Quil;
use quil_rs::verif_hooks;
use quil_rs::Program;
use qvh::seqgate::*;
use qvh::*;

type Map<'a> = SourceMap<InstructionIndex, ExpansionResult<DefGateSequenceExpansion<'a>>>;

fn map_to_sexp(m: &Map<'_>, original: &Program) -> Vec<Sexp> {
    m.entries()
        .iter()
        .map(|e| {
            let src = nat(e.source_location().0 as u64);
            match e.target_location() {
                ExpansionResult::Unmodified(i) => tagged("u", vec![src, nat(i.0 as u64)]),
                ExpansionResult::Rewritten(x) => {
                    let (name, text) = verif_hooks::c21::expansion_source_signature(x);
                    // the recorded signature must be that of the program's definition of that name
                    let sig_ok = original
                        .gate_definitions
                        .get(&name)
                        .map(|d| d.to_quil_or_debug().starts_with(&format!("{text}:")))
                        .unwrap_or(false);
                    tagged(
                        "r",
                        vec![
                            src,
                            st(if sig_ok { name } else { format!("<bad-signature {text}>") }),
                            nat(x.range().start.0 as u64),
                            nat(x.range().end.0 as u64),
                            list(map_to_sexp(x.nested_expansions(), original)),
                        ],
                    )
                }
            }
        })
        .collect()
}

fn emit(ctx: &mut Ctx, c: &Case) {
    let Some(program) = c.build() else { return };
    let mut table = PhTable::default();
    let input = case_to_sexp(c, &mut table);
    let sel = c.sel.clone();
    ctx.case(input, move || {
        let plain = program.clone().expand_defgate_sequences(filter_of(&sel));
        match program.expand_defgate_sequences_with_source_map(filter_of(&sel)) {
            Ok((result, map)) => {
                let (kept, intact) = kept_to_sexp(&program, &result);
                let same = matches!(&plain, Ok(p) if *p == result);
                tagged(
                    "ok",
                    vec![
                        body_to_sexp(&result, &mut table),
                        kept,
                        intact,
                        tagged("same", vec![boolean(same)]),
                        tagged("map", map_to_sexp(&map, &program)),
                    ],
                )
            }
            Err(e) => {
                let same = matches!(&plain, Err(p) if *p == e);
                tagged("err", vec![program_error_to_sexp(&e, &mut table), tagged("same", vec![boolean(same)])])
            }
        }
    });
}

fn run(ctx: &mut Ctx) {
    for c in corpus() {
        emit(ctx, &c);
    }
    let mut cases = vec![];
    exhaustive(if ctx.quick() { 1 } else { 2 }, &mut |c| cases.push(c));
    for c in &cases {
        emit(ctx, c);
    }
    drop(cases);
    let mut rng = ctx.rng(21);
    let n = if ctx.quick() { 20_000 } else { 300_000 };
    for i in 0..n {
        let c = if i % 4 == 3 { random_case(&mut rng, 5, 10) } else { random_case(&mut rng, 4, 6) };
        emit(ctx, &c);
    }
    let mut rng = ctx.rng(22);
    let n = if ctx.quick() { 3_000 } else { 40_000 };
    for _ in 0..n {
        let c = random_unchecked_case(&mut rng);
        emit(ctx, &c);
    }
}

fn main() {
    main_with(run)
}
