//! C25 — computed schedules are as-soon-as-possible and frame-exclusive.
//!
//! For a single-block program the harness (a) expands every body instruction with the program's calibrations
//! (as `BasicBlock::as_schedule` does), builds the real dependency graph of the expanded block and the real
//! `ScheduledBasicBlock::as_schedule_seconds` of it, and (b) calls the real `BasicBlock::as_schedule_seconds`
//! on the source block. All durations are dyadic (multiples of 2^-10 s, exact in f64 including every sum), so
//! times cross the wire as exact integers; a non-dyadic time would abort the harness.
//!
//! Streams: (1) corpus (schedule.rs / control_flow_graph.rs test programs with dyadic durations, witnesses);
//! (2) every block up to a length over a small alphabet of timed instructions on 2-3 frames (with and
//! without a calibrated gate); (3) seeded random single-block Quil-T programs with pulses (template and
//! DEFWAVEFORM waveforms), captures, delays, fences, phase/frequency updates, calibrated gates (nested), and
//! instructions without a duration.
use std::str::FromStr;

use qvh::sched::*;
use qvh::*;
use quil_rs::expression::Expression;
use quil_rs::instruction::{
    AttributeValue, Capture, DefaultHandler, Delay, Instruction, InstructionHandler, Pulse, RawCapture,
    WaveformInvocation,
};
use quil_rs::program::analysis::{BasicBlock, BasicBlockScheduleError, ControlFlowGraph};
use quil_rs::program::scheduling::{ComputedScheduleError, ScheduleSeconds, ScheduledBasicBlock};
use quil_rs::Program;

const UNITS: f64 = 1024.0;

fn units(x: f64) -> i64 {
    let y = x * UNITS;
    assert!(y.fract() == 0.0 && y.abs() < 1e15, "non-dyadic time {x}");
    y as i64
}

fn opt_units(e: Option<&Expression>) -> Sexp {
    match e.and_then(|e| e.to_real().ok()) {
        Some(x) => int(units(x)),
        None => atom("none"),
    }
}

/// `(wf samples dur padl padr rates) | (lit d) | (zero) | (nodur)` — what instruction_duration_seconds looks at
fn dur_desc(program: &Program, instruction: &Instruction) -> Sexp {
    let wf = |w: &WaveformInvocation| {
        let samples = match program.waveforms.get(&w.name) {
            Some(def) => nat(def.matrix.len() as u64),
            None => atom("none"),
        };
        let rates = match DefaultHandler.matching_frames(program, instruction) {
            None => atom("none"),
            Some(m) => {
                let mut v: Vec<i64> = m
                    .used
                    .iter()
                    .filter_map(|f| {
                        program.frames.get(f).and_then(|a| a.get("SAMPLE-RATE")).and_then(|v| match v {
                            AttributeValue::String(_) => None,
                            AttributeValue::Expression(e) => e.to_real().ok(),
                        })
                    })
                    .map(|r| {
                        assert!(r.fract() == 0.0, "non-integral sample rate");
                        r as i64
                    })
                    .collect();
                v.sort();
                list(v.into_iter().map(int).collect())
            }
        };
        tagged(
            "wf",
            vec![
                samples,
                opt_units(w.parameters.get("duration")),
                opt_units(w.parameters.get("pad_left")),
                opt_units(w.parameters.get("pad_right")),
                rates,
            ],
        )
    };
    match instruction {
        Instruction::Pulse(Pulse { waveform, .. }) | Instruction::Capture(Capture { waveform, .. }) => wf(waveform),
        Instruction::Delay(Delay { duration, .. }) | Instruction::RawCapture(RawCapture { duration, .. }) => {
            tagged("lit", vec![opt_units(Some(duration))])
        }
        Instruction::Fence(_)
        | Instruction::SetFrequency(_)
        | Instruction::SetPhase(_)
        | Instruction::SetScale(_)
        | Instruction::ShiftFrequency(_)
        | Instruction::ShiftPhase(_)
        | Instruction::SwapPhases(_) => tagged("zero", vec![]),
        _ => tagged("nodur", vec![]),
    }
}

fn schedule_sexp(s: &ScheduleSeconds) -> Sexp {
    let mut items: Vec<(u64, i64, i64)> = s
        .items()
        .iter()
        .map(|i| (i.instruction_index as u64, units(i.time_span.start_time().0), units(i.time_span.duration().0)))
        .collect();
    items.sort();
    tagged(
        "ok",
        vec![
            list(items.into_iter().map(|(i, s, d)| list(vec![nat(i), int(s), int(d)])).collect()),
            int(units(s.duration().0)),
        ],
    )
}

fn computed_err(e: &ComputedScheduleError) -> Sexp {
    match e {
        ComputedScheduleError::UnknownDuration { .. } => tagged("unknown", vec![]),
        ComputedScheduleError::InvalidDependencyGraph => tagged("invalid", vec![]),
    }
}

fn case(ctx: &mut Ctx, tag: &str, text: &str) {
    // the program is built by `add_instruction` calls from a known instruction list (the "ast" stream sends it)
    let added = Program::from_str(text)
        .unwrap_or_else(|e| panic!("program does not parse: {text:?}: {e}"))
        .to_instructions();
    case_instructions(ctx, tag, added);
}

/// API-only shape: DELAY / RAW-CAPTURE with a NEGATIVE literal duration (the parser yields a prefix expression,
/// which has no duration). The ASAP clauses must still hold; exclusivity is only claimed for durations >= 0.
fn case_negated(ctx: &mut Ctx, tag: &str, text: &str) {
    let mut added = Program::from_str(text).expect("parses").to_instructions();
    let neg = |e: &mut Expression| {
        if let Expression::Number(z) = e {
            *z = num_complex::Complex64::new(-z.re, z.im);
        }
    };
    for i in added.iter_mut() {
        match i {
            Instruction::Delay(d) => neg(&mut d.duration),
            Instruction::RawCapture(r) => neg(&mut r.duration),
            _ => {}
        }
    }
    case_instructions(ctx, tag, added);
}

fn case_instructions(ctx: &mut Ctx, tag: &str, added: Vec<Instruction>) {
    let program = Program::from_instructions(added.clone());
    let handler = DefaultHandler;
    let source_block: BasicBlock = match BasicBlock::try_from(&program) {
        Ok(b) => b,
        Err(_) => return, // not a single block: not in this property's domain
    };
    // (a) expansion, exactly as control_flow_graph.rs:253-264
    let mut flat: Vec<Instruction> = Vec::new();
    let mut lens: Vec<u64> = Vec::new();
    let mut expansion_failed = false;
    for instruction in source_block.instructions() {
        match program.calibrations.expand(instruction, &[]) {
            Ok(Some(v)) => {
                lens.push(v.len() as u64);
                flat.extend(v);
            }
            Ok(None) => {
                lens.push(1);
                flat.push((*instruction).clone());
            }
            Err(_) => {
                expansion_failed = true;
                break;
            }
        }
    }
    if expansion_failed {
        return; // calibration expansion errors are C17/C18's subject
    }
    let mut expanded = Program::new();
    expanded.add_instructions(flat.clone());
    if let Some(t) = source_block.terminator().clone().into_instruction() {
        expanded.add_instruction(t);
    }
    let expanded_blocks = ControlFlowGraph::from(&expanded).into_blocks();
    if expanded_blocks.len() != 1 || expanded_blocks[0].instructions().len() != flat.len() {
        return; // control flow inside a calibration body (or nothing at all): outside the domain
    }
    // projection of the expanded block w.r.t. the ORIGINAL program (what build is given)
    let input_prog = {
        // reuse the shared projection through a block-level call
        let externs = quil_rs::instruction::ExternSignatureMap::try_from(program.extern_pragma_map.clone())
            .unwrap_or_default();
        let numbering = numbering_for(&program, &handler, &externs, &expanded_blocks);
        project_block(&program, &handler, &externs, &numbering, &expanded_blocks[0])
    };
    let durs: Vec<Sexp> = flat.iter().map(|i| dur_desc(&program, i)).collect();
    let lens_sexp = list(lens.iter().map(|&l| nat(l)).collect());
    let input = tagged(tag, vec![input_prog, list(durs.clone()), lens_sexp.clone()]);
    // "ast" twin of the case: the whole program and the expanded block as full ASTs; the driver derives the
    // handler's answers and the duration ingredients itself (HandlerFromAst); `durs` is only cross-checked
    let ast_input = tagged(
        "ast",
        vec![
            qvh::ast::instructions_to_sexp(&added),
            sigs_sexp(&program),
            qvh::ast::instructions_to_sexp(&flat),
            match source_block.terminator().clone().into_instruction() {
                Some(t) => qvh::ast::instruction_to_sexp(&t),
                None => atom("none"),
            },
            lens_sexp,
            list(durs),
        ],
    );
    let mut result: Option<Sexp> = None;
    ctx.case(input, || {
        let r = compute(&expanded_blocks, &program, &handler, &flat, &source_block);
        result = Some(r.clone());
        r
    });
    ctx.case(ast_input, || match result.take() {
        Some(r) => r,
        None => compute(&expanded_blocks, &program, &handler, &flat, &source_block),
    });
}

/// Sibling entry points of the flat schedule: the generic `as_schedule` with a caller-supplied duration
/// closure (same durations), `into_items` vs `items`, `TimeSpan::end`.
fn flat_siblings(sb: &ScheduledBasicBlock<'_>, program: &Program, s: &ScheduleSeconds) -> Option<&'static str> {
    let table: Vec<(*const Instruction, f64)> = s
        .items()
        .iter()
        .map(|it| (sb.instructions()[it.instruction_index] as *const Instruction, it.time_span.duration().0))
        .collect();
    let generic = sb.as_schedule(program, |_, i| {
        table.iter().find(|(p, _)| std::ptr::eq(*p, i)).map(|(_, d)| quil_rs::program::scheduling::Seconds(*d))
    });
    match generic {
        Ok(g) if schedule_sexp(&g) == schedule_sexp(s) => {}
        _ => return Some("as_schedule"),
    }
    for it in s.items() {
        if it.time_span.end().0 != it.time_span.start_time().0 + it.time_span.duration().0 {
            return Some("end");
        }
    }
    let d = s.duration().0;
    let items = s.clone().into_items();
    if items.len() != s.items().len() || items.iter().zip(s.items()).any(|(a, b)| a != b) || d != s.duration().0 {
        return Some("into_items");
    }
    None
}

/// Sibling entry points of the block-level schedule: generic `BasicBlock::as_schedule` with a duration closure,
/// and the `BasicBlockOwned` round trip.
fn block_siblings(
    source_block: &BasicBlock<'_>,
    program: &Program,
    handler: &DefaultHandler,
    flat: &[Instruction],
    s: &ScheduleSeconds,
) -> Option<&'static str> {
    // durations of the expanded instructions, looked up structurally (the closure sees clones)
    let expanded = {
        let mut p = Program::new();
        p.add_instructions(flat.to_vec());
        if let Some(t) = source_block.terminator().clone().into_instruction() {
            p.add_instruction(t);
        }
        p
    };
    let blocks = ControlFlowGraph::from(&expanded).into_blocks();
    let sb = ScheduledBasicBlock::build(blocks[0].clone(), program, handler).ok()?;
    let flat_schedule = sb.as_schedule_seconds(program, handler).ok()?;
    let table: Vec<(&Instruction, f64)> = flat_schedule
        .items()
        .iter()
        .map(|it| (sb.instructions()[it.instruction_index], it.time_span.duration().0))
        .collect();
    let generic = source_block.as_schedule(
        program,
        |_, i| table.iter().find(|(j, _)| *j == i).map(|(_, d)| quil_rs::program::scheduling::Seconds(*d)),
        handler,
    );
    match generic {
        Ok(g) if schedule_sexp(&g) == schedule_sexp(s) => {}
        _ => return Some("block-as_schedule"),
    }
    let owned = quil_rs::program::analysis::BasicBlockOwned::from(source_block.clone());
    let back: BasicBlock = (&owned).into();
    match back.as_schedule_seconds(program, handler) {
        Ok(g) if schedule_sexp(&g) == schedule_sexp(s) => {}
        _ => return Some("owned"),
    }
    None
}

fn compute(
    expanded_blocks: &[BasicBlock<'_>],
    program: &Program,
    handler: &DefaultHandler,
    flat: &[Instruction],
    source_block: &BasicBlock<'_>,
) -> Sexp {
    {
        let block = expanded_blocks[0].clone();
        let (graph, flat_schedule) = match ScheduledBasicBlock::build(block, program, handler) {
            Ok(sb) => {
                let g = encode_graph(&sb);
                let s = match sb.as_schedule_seconds(program, handler) {
                    Ok(s) => {
                        if let Some(which) = flat_siblings(&sb, program, &s) {
                            return tagged("sibling-mismatch", vec![atom(which)]);
                        }
                        schedule_sexp(&s)
                    }
                    Err(e) => {
                        format_error(&e);
                        computed_err(&e)
                    }
                };
                (g, s)
            }
            Err(e) => (
                tagged(
                    "err",
                    vec![atom(error_variant(e.variant)), nat(e.instruction_node.map_or(0, |x| node_code(flat.len(), x)))],
                ),
                tagged("skip", vec![]),
            ),
        };
        let block_schedule = match source_block.as_schedule_seconds(program, handler) {
            Ok(s) => {
                if let Some(which) = block_siblings(source_block, program, handler, flat, &s) {
                    return tagged("sibling-mismatch", vec![atom(which)]);
                }
                schedule_sexp(&s)
            }
            Err(e) => {
                format_error(&e);
                match e {
                    BasicBlockScheduleError::ScheduleError(_) => tagged("err", vec![atom("sched")]),
                    BasicBlockScheduleError::ComputedScheduleError(e) => computed_err(&e),
                    BasicBlockScheduleError::ProgramError(_) => tagged("err", vec![atom("program")]),
                }
            }
        };
        tagged("res", vec![graph, flat_schedule, block_schedule])
    }
}

const HDR: &str = "DEFFRAME 0 \"x\":\n    SAMPLE-RATE: 4.0\nDEFFRAME 0 \"y\":\n    SAMPLE-RATE: 8.0\nDEFFRAME 1 \"x\":\n    SAMPLE-RATE: 4.0\nDEFFRAME 0 1 \"z\":\n    SAMPLE-RATE: 4.0\nDEFFRAME 1 0 \"z\":\n    SAMPLE-RATE: 4.0\nDEFFRAME 2 \"n\":\n    INITIAL-FREQUENCY: 1.0\nDEFFRAME 2 \"s\":\n    SAMPLE-RATE: \"4.0\"\nDEFFRAME 2 \"l\":\n    sample-rate: 4.0\nDEFWAVEFORM w4:\n    1, 1, 1, 1\nDEFWAVEFORM w2:\n    1, 1\nDEFWAVEFORM ramp(%duration):\n    1, 1, 1, 1\nDEFWAVEFORM padded(%pad_left, %pad_right, %amp):\n    1, 1\nDEFCAL A 0:\n    PULSE 0 \"x\" flat(duration: 1.0, iq: 1.0)\nDEFCAL B 0 1:\n    FENCE 1\n    PULSE 0 1 \"z\" flat(duration: 1.0, iq: 1.0)\nDEFCAL C q:\n    DELAY q 0.5\n    A q\n    SHIFT-PHASE q \"x\" 1.0\nDEFCAL RX(%t) 0:\n    SHIFT-PHASE 0 \"x\" %t\n    PULSE 0 \"x\" w4\n    NONBLOCKING PULSE 0 \"y\" w4\nDEFCAL MEASURE 0 addr:\n    CAPTURE 0 \"y\" flat(duration: 0.25, iq: 1.0) addr\nDEFCAL G 0:\n    NONBLOCKING PULSE 0 \"y\" flat(duration: 1.0, iq: 1.0)\n    NONBLOCKING PULSE 0 \"x\" flat(duration: 10.0, iq: 1.0)\nDEFCAL H 0:\n    NONBLOCKING PULSE 0 \"x\" flat(duration: 4.0, iq: 1.0)\n    NONBLOCKING PULSE 0 \"y\" flat(duration: 0.5, iq: 1.0)\nDEFCAL KF 0 1:\n    NONBLOCKING PULSE 1 \"x\" flat(duration: 0.5, iq: 1.0)\n    NONBLOCKING PULSE 0 \"x\" flat(duration: 3.0, iq: 1.0)\n    NONBLOCKING CAPTURE 0 \"y\" flat(duration: 1.5, iq: 1.0) ro[0]\n    FENCE 0 1\nDEFCAL K3 0 1:\n    NONBLOCKING PULSE 0 \"x\" flat(duration: 2.0, iq: 1.0)\n    NONBLOCKING PULSE 1 \"x\" flat(duration: 5.0, iq: 1.0)\n    NONBLOCKING PULSE 0 \"y\" flat(duration: 0.25, iq: 1.0)\nDEFCAL N 0:\n    G 0\n    H 0\nDEFCAL D 0 1:\n    DELAY 0 \"x\" 2.0\n    DELAY 1 \"x\" 0.25\n    DELAY 0 \"y\" 1.0\n";

const CORPUS: &[&str] = &[
    // schedule.rs tests (durations made dyadic)
    "FENCE\nFENCE\nFENCE\n",
    "PULSE 0 \"x\" flat(duration: 1.0)\nPULSE 0 \"x\" flat(duration: 1.0)\nPULSE 0 \"x\" flat(duration: 1.0)\n",
    "PULSE 0 \"x\" erf_square(duration: 1.0, pad_left: 0.25, pad_right: 0.25)\nPULSE 0 \"x\" erf_square(duration: 0.125, pad_left: 0.75, pad_right: 0.75)\nPULSE 0 \"x\" erf_square(duration: 0.5, pad_left: 0.5, pad_right: 0.5)\nFENCE\n",
    "NONBLOCKING PULSE 0 \"x\" flat(duration: 1.0)\nNONBLOCKING PULSE 0 \"y\" flat(duration: 10.0)\nFENCE\nPULSE 0 \"x\" flat(duration: 1.0)\nFENCE\nPULSE 0 \"x\" flat(duration: 1.0)\n",
    "DELAY 0 \"x\" 1.0\nSET-PHASE 0 \"x\" 1.0\nSHIFT-PHASE 0 \"x\" 1.0\nSWAP-PHASES 0 \"x\" 0 \"y\"\nSET-FREQUENCY 0 \"x\" 1.0\nSHIFT-FREQUENCY 0 \"x\" 1.0\nSET-SCALE 0 \"x\" 1.0\nFENCE\nPULSE 0 \"x\" flat(duration: 1.0)\n",
    "RESET\n",
    // control_flow_graph.rs doc example: B is scheduled from 0 to 2
    "A 0\nB 0 1\n",
    // defined waveforms: 4 samples at 4 Hz = 1 s; on the 8 Hz frame 0.5 s; on the two-qubit frame
    "PULSE 0 \"x\" w4\nPULSE 0 \"y\" w4\nPULSE 0 1 \"z\" w2\n",
    // defined waveform on a frame without a sample rate / an undefined frame: unknown duration
    "PULSE 2 \"n\" w4\n",
    "PULSE 3 \"u\" w4\n",
    "PULSE 3 \"u\" flat(duration: 1.0)\nPULSE 0 \"x\" flat(duration: 1.0)\n",
    // no duration parameter
    "PULSE 0 \"x\" flat(iq: 1.0)\n",
    // nested calibration, parametric calibration, measure calibration
    "C 0\nPULSE 0 \"x\" flat(duration: 0.25)\n",
    "RX(0.5) 0\nRX(0.25) 0\nFENCE 0\n",
    "DECLARE ro BIT\nMEASURE 0 ro\nPULSE 0 \"y\" flat(duration: 1.0)\n",
    // classical instruction: no duration
    "DECLARE a INTEGER\nMOVE a 1\nPULSE 0 \"x\" flat(duration: 1.0)\n",
    // uncalibrated gate: unschedulable
    "X 0\n",
    "PULSE 0 \"x\" flat(duration: 1.0)\nHALT\n",
    "CAPTURE 0 \"y\" flat(duration: 0.5) ro[0]\nRAW-CAPTURE 0 \"x\" 0.75 ro[0]\nDELAY 0 0.125\n",
    "DELAY 0 1 \"x\" 2.0\nPULSE 1 \"x\" flat(duration: 1.0)\nPULSE 0 \"x\" flat(duration: 1.0)\n",
    // calibrations whose expansion holds CONCURRENT items with nested spans (missed by an earlier version of this
    // stream: `TimeSpan::union` returning [first.start, second.end] is wrong exactly when one span contains the other)
    "CAPTURE 0 \"y\" flat(duration: 0.5, iq: ro[1]) ro[0]\nMOVE ro[1] 1\n",
    "CAPTURE 0 \"y\" flat(duration: 0.5, iq: ro[1]) ro[0]\nPULSE 0 \"y\" flat(duration: 1.0, iq: ro[0])\n",
    // a DEFINED waveform's duration is sample count / sample rate whatever its arguments, also arguments named
    // duration / pad_left / pad_right (missed by an earlier version of this stream)
    "PULSE 0 \"x\" ramp(duration: 0.5)\nPULSE 0 \"x\" flat(duration: 1.0)\n",
    "PULSE 0 \"y\" ramp(duration: 8.0, pad_left: 0.25)\nFENCE\nPULSE 0 \"x\" padded(pad_left: 1.0, pad_right: 0.5, amp: 1.0)\n",
    "CAPTURE 0 \"x\" ramp(duration: 0.25) ro[0]\nPULSE 0 \"x\" w4(duration: 2.0)\n",
    "PULSE 2 \"n\" ramp(duration: 0.5)\n",
    // SAMPLE-RATE given as a string / under a lower-case key: not a sample rate
    "PULSE 2 \"s\" w4\n",
    "PULSE 2 \"l\" w4\nPULSE 2 \"l\" flat(duration: 1.0)\n",
    "PULSE 3 \"u\" ramp(duration: 0.5)\n",
    // a user-defined waveform named like a template: the definition wins (program.waveforms is looked up first)
    "DEFWAVEFORM flat(%duration, %iq):\n    1, 1\nPULSE 0 \"x\" flat(duration: 3.0, iq: 1.0)\nPULSE 0 \"x\" flat(duration: 1.0, iq: 1.0)\n",
    // template waveforms without a constant duration; expression durations: no duration
    "PULSE 0 \"x\" flat(duration: 2*0.5, iq: 1.0)\n",
    "PULSE 0 \"x\" flat(duration: ro[0], iq: 1.0)\n",
    "DELAY 0 \"x\" 2*0.5\n",
    "RAW-CAPTURE 0 \"x\" 2*0.25 ro[0]\n",
    "PULSE 0 \"x\" erf_square(duration: 1.0, pad_left: 2*0.25, pad_right: 0.5)\nPULSE 0 \"x\" flat(duration: 1.0)\n",
    // two frames equal up to qubit order are distinct: a blocking pulse on one uses it and blocks the twin
    "PULSE 0 1 \"z\" flat(duration: 1.0)\nPULSE 1 0 \"z\" flat(duration: 0.5)\nDELAY 0 1 0.25\nSWAP-PHASES 0 1 \"z\" 1 0 \"z\"\nFENCE 0\n",
    "G 0\n",
    "H 0\n",
    "G 0\nH 0\n",
    "N 0\n",
    "KF 0 1\n",
    "K3 0 1\n",
    "D 0 1\n",
    "K3 0 1\nG 0\nD 0 1\n",
];

const ALPHABET: &[&str] = &[
    "PULSE 0 \"x\" flat(duration: 1.0)",
    "NONBLOCKING PULSE 0 \"y\" flat(duration: 0.5)",
    "PULSE 1 \"x\" w4",
    "PULSE 1 0 \"z\" flat(duration: 0.5)",
    "NONBLOCKING PULSE 0 1 \"z\" flat(duration: 2.0)",
    "DELAY 0 \"x\" 0.25",
    "FENCE 0",
    "FENCE",
    "SHIFT-PHASE 0 \"x\" 1.0",
    "A 0",
    "B 0 1",
    "CAPTURE 0 \"y\" flat(duration: 0.75) ro[0]",
    "NONBLOCKING CAPTURE 0 \"x\" flat(duration: 0.5, iq: ro[1]) ro[0]",
    "PULSE 0 \"x\" ramp(duration: 0.5)",
    "NONBLOCKING CAPTURE 0 \"y\" ramp(duration: 8.0, pad_right: 1.0) ro[0]",
    "G 0",
    "H 0",
    "K3 0 1",
    "KF 0 1",
    "N 0",
    "D 0 1",
];

fn all_seqs(len: usize, base: u64, f: &mut impl FnMut(&[u64])) {
    let mut idx = vec![0u64; len];
    loop {
        f(&idx);
        let mut k = len;
        loop {
            if k == 0 {
                return;
            }
            k -= 1;
            idx[k] += 1;
            if idx[k] < base {
                break;
            }
            idx[k] = 0;
        }
    }
}

fn random_line(rng: &mut Rng) -> String {
    const D: [&str; 7] = ["0.5", "1.0", "0.25", "2.0", "1.5", "0.0", "0.125"];
    const FR: [&str; 9] = [
        "0 \"x\"", "0 \"y\"", "1 \"x\"", "0 1 \"z\"", "2 \"n\"", "3 \"u\"", "2 \"s\"", "2 \"l\"", "1 0 \"z\"",
    ];
    let d = *rng.pick(&D);
    let f = *rng.pick(&FR);
    let nb = if rng.chance(1, 3) { "NONBLOCKING " } else { "" };
    match rng.below(25) {
        0 | 1 | 2 => format!("{nb}PULSE {f} flat(duration: {d}, iq: 1.0)"),
        3 => {
            let pr = *rng.pick(&D);
            format!("{nb}PULSE {f} erf_square(duration: {d}, pad_left: 0.25, pad_right: {pr})")
        }
        4 | 5 => {
            // defined waveforms, bare or with arguments (also arguments named like the template parameters)
            let pr = *rng.pick(&D);
            let w = match rng.below(8) {
                0 => "w4".to_string(),
                1 => "w2".to_string(),
                2 => format!("ramp(duration: {d})"),
                3 => format!("ramp(duration: {d}, pad_left: {pr})"),
                4 => format!("padded(pad_left: {d}, pad_right: {pr}, amp: 1.0)"),
                5 => format!("w4(duration: {d})"),
                6 => format!("w2(scale: {d}, pad_right: {pr})"),
                _ => "ramp".to_string(),
            };
            if rng.chance(1, 4) {
                format!("{nb}CAPTURE {f} {w} ro[0]")
            } else {
                format!("{nb}PULSE {f} {w}")
            }
        }
        6 => {
            if rng.chance(1, 2) {
                format!("{nb}CAPTURE {f} flat(duration: {d}, iq: 1.0) ro[0]")
            } else {
                format!("{nb}CAPTURE {f} flat(duration: {d}, iq: ro[1]) ro[0]")
            }
        }
        7 => format!("{nb}RAW-CAPTURE {f} {d} ro[0]"),
        8 => format!("DELAY {} {d}", rng.below(3)),
        9 => format!("DELAY {f} {d}"),
        10 => "FENCE".to_string(),
        11 => format!("FENCE {}", rng.below(3)),
        12 => format!("FENCE 0 1"),
        13 => format!("SHIFT-PHASE {f} 0.5"),
        14 => format!("SET-FREQUENCY {f} 1.0"),
        15 => {
            let g = *rng.pick(&FR);
            format!("SWAP-PHASES {f} {g}")
        }
        16 => "A 0".to_string(),
        17 => "B 0 1".to_string(),
        18 => format!("C {}", rng.below(2)),
        19 => "RX(0.5) 0".to_string(),
        20 => match rng.below(8) {
            0 => "G 0".to_string(),
            1 => "H 0".to_string(),
            2 => "K3 0 1".to_string(),
            3 => "KF 0 1".to_string(),
            4 => "N 0".to_string(),
            5 => "D 0 1".to_string(),
            6 | 7 => "R 0 1".to_string(),
            _ => unreachable!(),
        },
        24 => "MEASURE 0 ro[0]".to_string(),
        21 => format!("SET-SCALE {f} 1.0"),
        22 => match rng.below(5) {
            0 => format!("PULSE {f} flat(iq: 1.0)"),
            1 => format!("PULSE {f} flat(duration: 2*{d}, iq: 1.0)"),
            2 => format!("DELAY {f} 2*{d}"),
            3 => format!("RAW-CAPTURE {f} {d}+{d} ro[0]"),
            _ => format!("CAPTURE {f} erf_square(duration: {d}, pad_left: ro[1]) ro[0]"),
        },
        _ => match rng.below(6) {
            0 => "RESET 0".to_string(),
            1 => "MOVE ro[0] 1".to_string(),
            2 => "X 1".to_string(),
            _ => format!("SHIFT-FREQUENCY {f} 1.0"),
        },
    }
}

/// `DEFCAL R 0 1:` with 2-3 concurrent items (non-blocking pulses / captures, delays) on pairwise distinct frames
/// with pairwise distinct dyadic durations in a random order, optionally followed by a FENCE, optionally nested.
fn random_calibration(rng: &mut Rng) -> String {
    const FRAMES: [&str; 4] = ["0 \"x\"", "0 \"y\"", "1 \"x\"", "0 1 \"z\""];
    const DUR: [&str; 6] = ["0.25", "0.5", "1.0", "2.0", "3.0", "8.0"];
    let n = 2 + rng.below(2) as usize;
    let mut frames: Vec<&str> = FRAMES.to_vec();
    let mut durs: Vec<&str> = DUR.to_vec();
    let mut body = String::new();
    for _ in 0..n {
        let f = frames.remove(rng.below(frames.len() as u64) as usize);
        let d = durs.remove(rng.below(durs.len() as u64) as usize);
        match rng.below(4) {
            0 | 1 => body.push_str(&format!("    NONBLOCKING PULSE {f} flat(duration: {d}, iq: 1.0)\n")),
            2 => body.push_str(&format!("    NONBLOCKING CAPTURE {f} flat(duration: {d}, iq: 1.0) ro[0]\n")),
            _ => body.push_str(&format!("    DELAY {f} {d}\n")),
        }
    }
    if rng.chance(1, 3) {
        body.push_str("    FENCE 0 1\n");
    }
    if rng.chance(1, 4) {
        body.push_str(if rng.chance(1, 2) { "    G 0\n" } else { "    H 0\n" });
    }
    format!("DEFCAL R 0 1:\n{body}")
}

fn main() {
    main_with(run)
}

fn run(ctx: &mut Ctx) {
    let quick = ctx.quick();
    for text in CORPUS {
        case(ctx, "corpus", &format!("{HDR}{text}"));
        if text.contains("DELAY") || text.contains("RAW-CAPTURE") {
            case_negated(ctx, "corpus", &format!("{HDR}{text}"));
        }
    }
    let max_len = if quick { 3 } else { 4 };
    for len in 0..=max_len {
        all_seqs(len, ALPHABET.len() as u64, &mut |s| {
            let body: String = s.iter().map(|&k| format!("{}\n", ALPHABET[k as usize])).collect();
            case(ctx, "enum", &format!("{HDR}{body}"));
        });
    }
    let n_random = if quick { 6000 } else { 250_000 };
    let mut rng = ctx.rng(25);
    for _ in 0..n_random {
        let bound = if rng.chance(1, 4) { 16 } else { 8 };
        let len = rng.below(bound) + 1;
        let mut body = String::new();
        for _ in 0..len {
            body.push_str(&random_line(&mut rng));
            body.push('\n');
        }
        if rng.chance(1, 8) {
            body.push_str("HALT\n");
        }
        let cal = random_calibration(&mut rng);
        // sometimes the user DEFINES a waveform named like a template: the definition wins for every `flat(...)`
        let user_flat = if rng.chance(1, 8) { "DEFWAVEFORM flat(%duration, %iq):\n    1, 1\n" } else { "" };
        let text = format!("{HDR}{user_flat}{cal}{body}");
        case(ctx, "random", &text);
        if rng.chance(1, 25) {
            case_negated(ctx, "random", &text);
        }
    }
}
