//! C22 — every block's dependency graph is a well-formed DAG.
//!
//! Streams: (1) corpus of single- and multi-block Quil programs; (2) every block up to a length over a
//! mixed alphabet of handler answers (classical memory accesses, RF instructions using / blocking frames,
//! RF instructions matching no frame, captures) x 3 terminators, and every two-block program made of two
//! such blocks up to a shorter length, through `ScheduledProgram::from_program` with a table-driven
//! handler; (3) seeded random Quil programs with classical, RF and control-flow instructions (many blocks).
use qvh::sched::*;
use qvh::*;
use quil_rs::instruction::DefaultHandler;

const HDR: &str = "DEFFRAME 0 \"a\":\n    SAMPLE-RATE: 1e9\nDEFFRAME 0 \"b\":\n    SAMPLE-RATE: 1e9\nDEFFRAME 1 \"a\":\n    SAMPLE-RATE: 1e9\nDEFFRAME 0 1 \"c\":\n    SAMPLE-RATE: 1e9\n";

const CORPUS: &[&str] = &[
    "",
    "LABEL @a\n",
    "LABEL @a\nLABEL @b\nJUMP @a\n",
    "HALT\n",
    "NOP\n",
    "PRAGMA example\n",
    "MOVE x[0] 1\nMOVE y[0] x[0]\nMOVE x[0] 2\n",
    "PULSE 0 \"a\" flat(duration: 1.0)\nMOVE x[0] 1\nPULSE 0 \"a\" flat(duration: 1.0)\nJUMP-WHEN @l x[0]\nLABEL @l\nFENCE\nHALT\n",
    // RF instruction on an undefined frame: isolated node, no BlockEnd node at all
    "PULSE 3 \"zz\" flat(duration: 1.0)\n",
    "SHIFT-PHASE 3 \"zz\" x[0]\nMOVE x[0] 1\n",
    "MOVE x[0] 1\nSHIFT-PHASE 3 \"zz\" x[0]\n",
    "CAPTURE 0 \"a\" flat(duration: 1.0) ro[0]\nMOVE x[0] ro[0]\nJUMP-UNLESS @e x[0]\nPULSE 0 \"a\" flat(duration: 1.0)\nLABEL @e\nRESET\n",
    "RESET\nRESET 0\nFENCE 0\nDELAY 0 1.0\n",
    "NONBLOCKING PULSE 0 \"a\" flat(duration: 1.0)\nNONBLOCKING PULSE 0 \"b\" flat(duration: 1.0)\nPULSE 0 1 \"c\" flat(duration: 1.0)\n",
    "X 0\n",
    "MOVE x[0] 1\nWAIT\n",
    // read set overlapping the capture set of one instruction
    "CAPTURE 0 \"a\" flat(duration: 1.0, iq: ro[1]) ro[0]\n",
    "RAW-CAPTURE 0 \"a\" ro[0] ro\n",
    "MOVE ro[0] 1\nNONBLOCKING CAPTURE 0 \"b\" flat(duration: 1.0, iq: ro[1], scale: x[0]) ro[0]\nRAW-CAPTURE 0 \"a\" x[0] ro[2]\nJUMP-WHEN @l ro[0]\nLABEL @l\n",
];

fn ast_case(ctx: &mut Ctx, text: &str) {
    let instructions = parsed_instructions(text);
    let (program, parts) = ast_parts(&instructions);
    ctx.case(tagged("ast", parts), || run_from_program(&program, &DefaultHandler));
}

fn all_seqs(len: usize, base: u64, f: &mut impl FnMut(&[u64])) {
    let mut idx = vec![0u64; len];
    loop {
        f(&idx);
        let mut k = len;
        loop {
            if k == 0 {
                return;
            }
            k -= 1;
            idx[k] += 1;
            if idx[k] < base {
                break;
            }
            idx[k] = 0;
        }
    }
}

fn table() -> TableHandler {
    let c = |reads: &[usize], writes: &[usize]| Row {
        role: 0,
        reads: reads.to_vec(),
        writes: writes.to_vec(),
        ..Row::default()
    };
    let rf = |scheduled: bool, used: &[usize], blocked: &[usize]| Row {
        role: 1,
        scheduled,
        frames: Some((used.to_vec(), blocked.to_vec())),
        ..Row::default()
    };
    TableHandler {
        rows: vec![
            c(&[], &[]),                                                                                 // 0: classical, no access
            c(&[0], &[]),                                                                                // 1: R a
            c(&[], &[0]),                                                                                // 2: W a
            c(&[0], &[0]),                                                                               // 3: R a W a
            rf(true, &[0], &[]),                                                                         // 4: timed use fa
            rf(true, &[1], &[0]),                                                                        // 5: timed use fb block fa
            rf(false, &[0, 1], &[]),                                                                     // 6: untimed use fa fb
            Row { role: 1, scheduled: true, captures: vec![0], frames: Some((vec![0], vec![])), ..Row::default() }, // 7: capture a on fa
            Row { role: 1, scheduled: true, reads: vec![0], frames: Some((vec![], vec![])), ..Row::default() }, // 8: RF matching nothing, reads a
            Row { role: 1, scheduled: true, frames: None, ..Row::default() },                            // 9: RF, no matching_frames
            rf(true, &[], &[0]),                                                                         // 10: only blocks fa
            Row { role: 1, scheduled: true, reads: vec![0], captures: vec![0], frames: Some((vec![0], vec![])), ..Row::default() }, // 11: read a + capture a on fa
            Row { role: 1, scheduled: false, reads: vec![0], writes: vec![0], captures: vec![0], frames: Some((vec![1], vec![])), ..Row::default() }, // 12: read + write + capture a
            rf(false, &[], &[0]),                                                                        // 13: UNTIMED, uses nothing, blocks fa (RESET-like)
            rf(false, &[], &[0, 1]),                                                                     // 14: untimed, blocks fa and fb
        ],
    }
}

fn main() {
    main_with(run)
}

fn run(ctx: &mut Ctx) {
    let quick = ctx.quick();
    for text in CORPUS {
        let program = parse(&format!("{HDR}{text}"));
        let input = project_program(&program, &DefaultHandler);
        ctx.case(tagged("corpus", vec![input]), || run_from_program(&program, &DefaultHandler));
    }

    let handler = table();
    let nrows = handler.rows.len() as u64;
    let terminators: [Option<&str>; 3] = [None, Some("JUMP-UNLESS @x ma[0]"), Some("HALT")];
    // single blocks
    let max_block = if quick { 4 } else { 5 };
    for len in 0..=max_block {
        let mut k = 0usize;
        all_seqs(len, nrows, &mut |s| {
            // rotate through the terminators (all three for short blocks)
            let ts: Vec<Option<&str>> =
                if len <= 3 { terminators.to_vec() } else { vec![terminators[k % 3]] };
            k += 1;
            for t in ts {
                let mut body: Vec<Result<usize, String>> = s.iter().map(|&k| Ok(k as usize)).collect();
                if let Some(t) = t {
                    body.push(Err(t.to_string()));
                }
                let program = handler.program(&body);
                let input = project_program(&program, &handler);
                ctx.case(tagged("table", vec![input]), || run_from_program(&program, &handler));
            }
        });
    }
    // two blocks: first ends with a conditional jump or falls through into a label
    let max_two = if quick { 2 } else { 3 };
    for l1 in 0..=max_two {
        for l2 in 0..=max_two {
            if l1 + l2 > 5 {
                continue; // 13^6 two-block programs would not fit the thorough budget
            }
            all_seqs(l1 + l2, nrows, &mut |s| {
                for sep in [vec!["LABEL @m"], vec!["JUMP-WHEN @m ma[0]", "LABEL @m"]] {
                    let mut body: Vec<Result<usize, String>> = s[..l1].iter().map(|&k| Ok(k as usize)).collect();
                    for line in &sep {
                        body.push(Err(line.to_string()));
                    }
                    body.extend(s[l1..].iter().map(|&k| Ok(k as usize)));
                    let program = handler.program(&body);
                    let input = project_program(&program, &handler);
                    ctx.case(tagged("table", vec![input]), || run_from_program(&program, &handler));
                }
            });
        }
    }

    // frame-set shapes: RF instructions with used = {} and blocked != {} (RESET q on multi-qubit-only frames, bare
    // RESET, blocking pulses on undefined frames) alone / first / last / between, projected and as AST
    for text in frame_shape_programs() {
        let program = parse(&text);
        let input = project_program(&program, &DefaultHandler);
        ctx.case(tagged("corpus", vec![input]), || run_from_program(&program, &DefaultHandler));
        ast_case(ctx, &text);
    }

    let n_random = if quick { 5000 } else { 200_000 };
    let mut rng = ctx.rng(22);
    for i in 0..n_random {
        let cfg = match i % 4 {
            0 => ProgCfg { nframes: 3, nreg: 2, max_len: 10, rf_pct: 50, cf_pct: 0, bad_permille: 0 },
            1 => ProgCfg { nframes: 4, nreg: 2, max_len: 14, rf_pct: 50, cf_pct: 15, bad_permille: 4 },
            2 => ProgCfg { nframes: 11, nreg: 3, max_len: 20, rf_pct: 40, cf_pct: 25, bad_permille: 4 },
            _ => ProgCfg { nframes: 1, nreg: 1, max_len: 12, rf_pct: 60, cf_pct: 8, bad_permille: 0 },
        };
        let text = program_text(&mut rng, &cfg);
        let program = parse(&text);
        let input = project_program(&program, &DefaultHandler);
        ctx.case(tagged("random", vec![input]), || run_from_program(&program, &DefaultHandler));
    }

    // "ast" stream: full AST on the wire, blocks and handler answers derived by the driver (HandlerFromAst)
    for text in CORPUS {
        ast_case(ctx, &format!("{HDR}{text}"));
    }
    let n_ast = if quick { 3000 } else { 100_000 };
    let mut rng = ctx.rng(122);
    for i in 0..n_ast {
        let cfg = match i % 3 {
            0 => ProgCfg { nframes: 3, nreg: 2, max_len: 10, rf_pct: 50, cf_pct: 0, bad_permille: 0 },
            1 => ProgCfg { nframes: 4, nreg: 2, max_len: 14, rf_pct: 50, cf_pct: 15, bad_permille: 4 },
            _ => ProgCfg { nframes: 11, nreg: 3, max_len: 20, rf_pct: 40, cf_pct: 25, bad_permille: 4 },
        };
        let text = ast_program_text(&mut rng, &cfg);
        ast_case(ctx, &text);
    }
    // self-audit streams: (a) SEQUENCES on one Program object (add half, schedule, add the rest, schedule twice:
    // `used_qubits` is maintained incrementally and matters for bare RESET); (b) large shapes (> 64 instructions,
    // > 32 frames / regions per instruction); (c) API-only placeholder qubits / targets (projected stream only)
    let mut rng = ctx.rng(222);
    let n_staged = if quick { 300 } else { 20_000 };
    for i in 0..n_staged {
        let cfg = ProgCfg { nframes: 3 + (i % 3) as usize, nreg: 2, max_len: 10, rf_pct: 70, cf_pct: 8, bad_permille: 0 };
        let mut text = ast_program_text(&mut rng, &cfg);
        text.push_str(if i % 2 == 0 { "RESET\nFENCE 1\nDELAY 2 1.0\n" } else { "FENCE 2\nRESET\n" });
        let instructions = parsed_instructions(&text);
        let cut = rng.below(instructions.len() as u64 + 1) as usize;
        staged_ast_cases(ctx, &instructions, cut);
    }
    for text in large_programs(&mut rng) {
        let program = parse(&text);
        let input = project_program(&program, &DefaultHandler);
        ctx.case(tagged("corpus", vec![input]), || run_from_program(&program, &DefaultHandler));
        let instructions = parsed_instructions(&text);
        let (program, parts) = ast_parts(&instructions);
        ctx.case(tagged("ast", parts), || run_from_program(&program, &DefaultHandler));
    }
    for program in placeholder_programs() {
        let input = project_program(&program, &DefaultHandler);
        ctx.case(tagged("corpus", vec![input]), || run_from_program(&program, &DefaultHandler));
    }

}
