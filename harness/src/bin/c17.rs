//! C17 — calibration expansion is a complete, faithful substitution.
//!
//! Case kinds (inputs and outputs use the shared full-AST wire encoding, `harness/src/ast.rs`):
//!
//! * `(prog (instr…))` — the instruction list is handed to `Program::from_instructions`; the output is
//!   `(out R M)` with `R` = result of `expand_calibrations()`: `(ok (instr…))` = `to_instructions()` of the
//!   expanded program (hoisted definitions first, then the body) | `(recursive instr)` | `(error)`, and
//!   `M` = result of `expand_calibrations_with_source_map()`: `(ok (instr…) (entry…))` with the top-level
//!   source map entries `(src (u target))` / `(src (r start stop))` | `(recursive instr)` | `(error)`; a third field
//!   `same | differs | error | na` says whether expanding the EXPANDED program again changes it.
//! * `(expand (instr…) instr (prev…))` — `Calibrations::expand(instr, prev)` on the calibrations of the
//!   program built from the list: `(ok (none) S)` | `(ok (some (instr…)) S)` | `(recursive instr S)` | `(error S)`,
//!   `S` = `same` iff `Calibrations::expand_with_detail(instr, prev)` gives the same instructions / error.
//!
//! The generators never build a calibration set whose expansion grows without bound (see
//! `harness/src/calgen.rs`): that input aborts the process (property C18 runs it in a child process).
use qvh::ast::{instruction_to_sexp, instructions_to_sexp};
use qvh::calgen::{self, one, Mode};
use qvh::*;
use quil_rs::instruction::Instruction;
use quil_rs::program::{ExpansionResult, ProgramError};
use quil_rs::Program;
use std::str::FromStr;

fn err_sexp(e: &ProgramError) -> Sexp {
    // a returned error is also FORMATTED (a panic in Display/Debug is a crash of the case)
    let _ = format!("{e} {e:#} {e:?}");
    match e {
        ProgramError::RecursiveCalibration(i) => tagged("recursive", vec![instruction_to_sexp(i)]),
        _ => tagged("error", vec![]),
    }
}

fn run_prog(instrs: &[Instruction]) -> Sexp {
    let p = Program::from_instructions(instrs.to_vec());
    // `again`: expanding the expanded program once more changes nothing (`same`), `na` after an error
    let mut again = atom("na");
    let r = match p.expand_calibrations() {
        Ok(e) => {
            again = match e.expand_calibrations() {
                Ok(e2) if e2.to_instructions() == e.to_instructions() => atom("same"),
                Ok(_) => atom("differs"),
                Err(_) => atom("error"),
            };
            tagged("ok", vec![instructions_to_sexp(&e.to_instructions())])
        }
        Err(e) => err_sexp(&e),
    };
    let m = match p.expand_calibrations_with_source_map() {
        Ok((e, map)) => {
            let entries = map
                .entries()
                .iter()
                .map(|en| {
                    let loc = match en.target_location() {
                        ExpansionResult::Unmodified(t) => tagged("u", vec![nat(t.0 as u64)]),
                        ExpansionResult::Rewritten(x) => {
                            tagged("r", vec![nat(x.range().start.0 as u64), nat(x.range().end.0 as u64)])
                        }
                    };
                    list(vec![nat(en.source_location().0 as u64), loc])
                })
                .collect();
            tagged("ok", vec![instructions_to_sexp(&e.to_instructions()), list(entries)])
        }
        Err(e) => err_sexp(&e),
    };
    tagged("out", vec![r, m, again])
}

fn run_expand(instrs: &[Instruction], i: &Instruction, prev: &[Instruction]) -> Sexp {
    let p = Program::from_instructions(instrs.to_vec());
    // `expand` runs `expand_inner` WITHOUT building a source map, `expand_with_detail` with: the two branches of
    // `recursively_expand_inner` must produce the same instructions ("same" / "differs")
    let plain = p.calibrations.expand(i, prev);
    let detailed = p.calibrations.expand_with_detail(i, prev).map(|o| o.map(|x| x.new_instructions));
    let same = atom(if plain == detailed { "same" } else { "differs" });
    match plain {
        Ok(None) => tagged("ok", vec![tagged("none", vec![]), same]),
        Ok(Some(v)) => tagged("ok", vec![tagged("some", vec![instructions_to_sexp(&v)]), same]),
        Err(e) => match err_sexp(&e) {
            Sexp::List(mut v) => {
                v.push(same);
                Sexp::List(v)
            }
            other => other,
        },
    }
}

fn prog_case(ctx: &mut Ctx, instrs: Vec<Instruction>) {
    let input = tagged("prog", vec![instructions_to_sexp(&instrs)]);
    ctx.case(input, || run_prog(&instrs));
}

/// `Calibrations::expand` / `expand_with_detail` on every body instruction of the program (no breadcrumbs)
fn expand_cases(ctx: &mut Ctx, instrs: &[Instruction]) {
    let body: Vec<Instruction> = Program::from_instructions(instrs.to_vec()).body_instructions().cloned().collect();
    for i in body {
        let input = tagged("expand", vec![instructions_to_sexp(instrs), instruction_to_sexp(&i), instructions_to_sexp(&[])]);
        ctx.case(input, || run_expand(instrs, &i, &[]));
    }
}

/// API-only shapes the parser cannot produce: a calibration whose body is replaced by `body`
fn with_body(defcal: &str, body: Vec<Instruction>) -> Instruction {
    match one(defcal) {
        Instruction::CalibrationDefinition(mut c) => {
            c.instructions = body;
            Instruction::CalibrationDefinition(c)
        }
        Instruction::MeasureCalibrationDefinition(mut c) => {
            c.instructions = body;
            Instruction::MeasureCalibrationDefinition(c)
        }
        other => other,
    }
}

/// definitions of every kind `add_instruction` keeps out of the body (closed: no calibration variables inside)
const NESTED_DEFS: &[&str] = &[
    "DECLARE a BIT[2]",
    "DECLARE c BIT[2] SHARING ro OFFSET 1 BIT",
    "DEFWAVEFORM w1:\n\t1, 0.5",
    "DEFWAVEFORM w2(%a):\n\t%a, 2*%a",
    "DEFFRAME 0 \"xy\":\n\tINITIAL-FREQUENCY: 1e9",
    "DEFGATE G1:\n\t0, 1\n\t1, 0",
    "DEFGATE G2(%a) p AS PAULI-SUM:\n\tX(%a) p",
    "DEFGATE G3 a AS SEQUENCE:\n\tY a",
    "DEFCIRCUIT C1 a:\n\tY a",
    "DEFCAL Y 0:\n\tWAIT",
    "DEFCAL MEASURE 2 addr:\n\tWAIT",
    "PRAGMA EXTERN f \"INTEGER (x : INTEGER)\"",
    "PRAGMA EXTERN",
];

fn api_shapes(ctx: &mut Ctx) {
    // an EMPTY calibration body: the instruction disappears
    for prog in ["X 0", "X 0\nNOP\nX 0", "MEASURE 0 ro[0]"] {
        let mut instrs = vec![with_body("DEFCAL X 0:\n\tNOP", vec![]), with_body("DEFCAL MEASURE 0 addr:\n\tNOP", vec![])];
        instrs.extend(calgen::parse_all(prog));
        expand_cases(ctx, &instrs);
        prog_case(ctx, instrs);
    }
    // every hoisted kind nested in a calibration body, first / middle / last, through one and two levels
    for d in NESTED_DEFS {
        let def = one(d);
        for pos in 0..3 {
            let mut body = vec![one("NOP"), one("Y 1")];
            body.insert(pos, def.clone());
            let mut instrs = vec![one("DECLARE ro BIT[4]"), with_body("DEFCAL X 0:\n\tNOP", body.clone()), one("DEFCAL Z 0:\n\tX 0\n\tX 0")];
            instrs.extend(calgen::parse_all("Z 0\nH 0\nX 0"));
            if pos == 0 {
                expand_cases(ctx, &instrs);
            }
            prog_case(ctx, instrs);
            let mut instrs = vec![with_body("DEFCAL MEASURE q addr:\n\tNOP", body)];
            instrs.extend(calgen::parse_all("MEASURE 1 ro[0]"));
            prog_case(ctx, instrs);
        }
    }
}

/// nested definitions that MENTION the enclosing calibration's variables (`DEFCAL RX(%t) q`), built through the
/// API: (text, admitted by `nestedOkB`?) — the excluded ones are the replay of the Lean counterexample
/// `nested_definition_counterexample` and its siblings (tag `excluded-nested-definition`)
const NESTED_WITH_VARIABLES: &[(&str, bool)] = &[
    ("DEFFRAME 0 \"xy\":\n\tINITIAL-FREQUENCY: %t", true),
    ("DEFCAL RY(%t) 1:\n\tWAIT", true),
    ("DEFGATE G1(%t):\n\t%t, 0\n\t0, %t", true),
    ("DEFWAVEFORM w2(%t):\n\t%t, 2*%t", true),
    ("DEFFRAME q \"xy\":\n\tINITIAL-FREQUENCY: 1e9", false),
    ("DEFCAL Y q:\n\tNOP", false),
    ("DEFCAL MEASURE q addr:\n\tNOP", false),
    ("DEFGATE G2(%t) p AS PAULI-SUM:\n\tX(%t) p", false),
    ("DEFGATE G3(%t) a AS SEQUENCE:\n\tRZ(%t) a", false),
];

/// the same inside `DEFCAL MEASURE q addr`: (text, admitted by `admitMB`?)
const NESTED_IN_MEASURE: &[(&str, bool)] = &[
    ("DEFFRAME 0 \"xy\":\n\tINITIAL-FREQUENCY: other[0]", true),
    ("DEFCAL RY(other[1]) 1:\n\tWAIT", true),
    ("DEFCAL MEASURE 1 addr:\n\tNOP", true),
    ("DEFFRAME q \"xy\":\n\tINITIAL-FREQUENCY: 1e9", false),
    ("DEFCAL MEASURE q ro:\n\tNOP", false),
    ("DEFFRAME 0 \"xy\":\n\tINITIAL-FREQUENCY: addr[0]", false),
    ("DEFCAL RY(addr[1]) 1:\n\tWAIT", false),
];

fn nested_with_variables(ctx: &mut Ctx) {
    for (d, _admitted) in NESTED_IN_MEASURE {
        let body = vec![one(d), one("FENCE q")];
        let mut instrs = vec![with_body("DEFCAL MEASURE q addr:\n\tNOP", body)];
        instrs.extend(calgen::parse_all("MEASURE 2 ro[1]"));
        expand_cases(ctx, &instrs);
        prog_case(ctx, instrs);
    }
    for (d, _admitted) in NESTED_WITH_VARIABLES {
        let def = one(d);
        let body = vec![def, one("NOP")];
        let mut instrs = vec![with_body("DEFCAL RX(%t) q:\n\tNOP", body)];
        instrs.extend(calgen::parse_all("RX(0.5) 2\nRX(pi) 0"));
        expand_cases(ctx, &instrs);
        prog_case(ctx, instrs);
    }
}

fn text_case(ctx: &mut Ctx, parts: &[&str]) {
    let mut instrs = vec![];
    for p in parts {
        match Program::from_str(p) {
            Ok(q) => instrs.extend(q.to_instructions()),
            Err(e) => {
                eprintln!("corpus text does not parse: {p:?}: {e}");
                std::process::exit(3);
            }
        }
    }
    expand_cases(ctx, &instrs);
    prog_case(ctx, instrs);
}

/// Hand-written witnesses and past failures (each entry: definitions and body pieces, parsed separately).
const CORPUS: &[&[&str]] = &[
    // the statement's clauses, one by one
    &["DEFCAL X 0:\n\tPULSE 0 \"xy\" gaussian(duration: 1, fwhm: 2, t0: 3)", "X 0"],
    &["DEFCAL X 0:\n\tY 0", "DEFCAL Y 0:\n\tPULSE 0 \"xy\" gaussian(duration: 1, fwhm: 2, t0: 3)", "X 0"],
    &["DEFCAL RX(%theta) %q:\n\tSHIFT-PHASE %q \"xy\" %theta", "RX(pi) 1"],
    &["DEFCAL RX(%t) q:\n\tSHIFT-PHASE q \"xy\" %t*2+1\n\tRY(%t/2) q", "DEFCAL RY(%t) 0:\n\tDELAY 0 %t", "RX(pi) 0\nRX(1) 1\nNOP"],
    &["DEFCAL CZ q r:\n\tFENCE q r\n\tX r\n\tSWAP-PHASES q \"xy\" r \"xy\"", "DEFCAL X 1:\n\tNOP", "CZ 0 1\nCZ 1 0"],
    // fix 93b5b59: qubit variables in MEASURE / RESET / SWAP-PHASES bodies
    &["DEFCAL X q:\n\tMEASURE q ro[0]\n\tRESET q\n\tSWAP-PHASES q \"xy\" q \"cz\"", "X 2"],
    // fix 6d37122: measurement calibration with a variable qubit; CAPTURE into another region
    &[
        "DECLARE ro BIT[4]",
        "DECLARE other REAL[2]",
        "DEFCAL MEASURE q addr:\n\tFENCE q\n\tCAPTURE q \"ro_rx\" flat(duration: 1, iq: 1) addr[0]\n\tCAPTURE q \"ro_rx\" flat(duration: 1, iq: 1) other[1]\n\tRAW-CAPTURE q \"ro_rx\" 1 addr[1]\n\tPRAGMA LOAD-MEMORY \"addr\"\n\tPRAGMA LOAD-MEMORY \"other\"",
        "MEASURE 3 ro[2]",
    ],
    // fix a6766af: nested MEASURE into the formal target (other qubit, so no recursion)
    &["DEFCAL MEASURE 0 addr:\n\tMEASURE 1 addr[0]\n\tMEASURE 1 other[0]", "MEASURE 0 ro[2]"],
    // nested MEASURE of the same qubit and target: recursion
    &["DEFCAL MEASURE 0 addr:\n\tMEASURE 0 addr[1]", "MEASURE 0 ro[2]"],
    // measurement without a target only matches a calibration without a target
    &["DEFCAL MEASURE q:\n\tFENCE q", "DEFCAL MEASURE q addr:\n\tNOP", "MEASURE 1\nMEASURE 1 ro[0]"],
    // known finding C17/formal-target-in-other-instructions
    &["DEFCAL MEASURE 0 addr:\n\tMOVE addr 1", "MEASURE 0 ro[2]"],
    &["DEFCAL MEASURE q addr:\n\tSHIFT-PHASE q \"rf\" addr[0]*2\n\tCAPTURE q \"ro_rx\" flat(duration: 1, iq: 1) addr[0]", "MEASURE 3 ro[2]"],
    // declarations hoisted; a DECLARE in a body replaces the program's region of the same name
    &["DECLARE ro BIT[4]", "DEFCAL X 0:\n\tDECLARE a BIT[2]\n\tNOP\n\tDECLARE ro BIT[1]\n\tY 0", "DEFCAL Y 0:\n\tDECLARE b REAL[1]\n\tWAIT", "X 0\nH 0\nX 0"],
    &["DEFCAL X 0:\n\tDECLARE a BIT[2]", "X 0\nX 0"],
    &["DEFCAL X 0:\n\tPRAGMA EXTERN f \"INTEGER (x : INTEGER)\"\n\tNOP", "X 0"],
    // recursion
    &["DEFCAL X 0:\n\tX 0", "X 0"],
    &["DEFCAL X 0:\n\tY 0", "DEFCAL Y 0:\n\tX 0", "Y 0"],
    &["DEFCAL X q:\n\tX 0", "X 1"],
    &["DEFCAL RZ(%t) 0:\n\tRZ(%t) 0", "RZ(1) 0"],
    // a variable calibration legitimately re-entered once (C18's example)
    &["DEFCAL CZ q r:\n\tCZ r 0", "DEFCAL CZ 0 0:\n\tNOP", "CZ 1 2"],
    // precedence and parameters after simplification (C16's subject, exercised through expansion)
    &["DEFCAL RX(%t) q:\n\tNOP", "DEFCAL RX(%t) 0:\n\tWAIT", "DEFCAL RX(pi/2) 0:\n\tHALT", "RX(pi/2) 1\nRX(pi) 0\nRX(1.5707963267948966) 0\nRX(2*0.5) 0"],
    &["DEFCAL RX(%t) 0:\n\tRY(%t+1) 0", "DEFCAL RY(2) 0:\n\tNOP", "DEFCAL RY(%t) 0:\n\tWAIT", "RX(1) 0\nRX(2) 0"],
    // duplicate variable names: the later binding wins
    &["DEFCAL CZ q q:\n\tX q", "CZ 0 1"],
    &["DEFCAL U2(%t, %t) 0:\n\tSHIFT-PHASE 0 \"xy\" %t", "U2(1, 2) 0"],
    // unbound variables stay, modifiers must agree
    &["DEFCAL X q:\n\tCZ q w\n\tSHIFT-PHASE q \"xy\" %nope", "X 0\nDAGGER X 0"],
    // a redefinition with the same signature replaces in place
    &["DEFCAL X 0:\n\tNOP", "DEFCAL X q:\n\tWAIT", "DEFCAL X 0:\n\tHALT", "X 0\nX 1"],
    // seeded change C17-2: a literal parameter BEFORE a variable one (the variable is bound by POSITION)
    &["DEFCAL U2(0, %theta) q:\n\tSHIFT-PHASE q \"xy\" %theta", "U2(0, 1.5) 2"],
    &["DEFCAL U3(0, %t, 1) q:\n\tSHIFT-PHASE q \"xy\" %t\n\tRX(%t) q", "U3(0, 1.5, 1) 2"],
    &["DEFCAL U3(%t, 2, %u) q:\n\tU2(%u, %t) q\n\tDELAY q %u-%t", "U3(0.5, 2, 3) 1"],
    &["DEFCAL U3(1, 2, %u) 0:\n\tDELAY 0 %u", "DEFCAL U3(%t, 2, 3) 0:\n\tDELAY 0 %t", "U3(1, 2, 3) 0\nU3(1, 2, 4) 0\nU3(5, 2, 3) 0"],
    // a fixed qubit before a variable one
    &["DEFCAL CZ 1 r:\n\tX r", "DEFCAL CZ q 2:\n\tY q", "CZ 1 0\nCZ 0 2\nCZ 1 2"],
    // named measurements: MEASURE!name only matches DEFCAL MEASURE!name; a named calibration delegating to the
    // unnamed measurement (and back) is not a recursion
    &["DEFCAL MEASURE!fast 0 addr:\n\tMEASURE 0 addr", "MEASURE!fast 0 ro[0]\nMEASURE 0 ro[0]"],
    &["DEFCAL MEASURE!fast q addr:\n\tMEASURE q addr[0]", "DEFCAL MEASURE q addr:\n\tMEASURE!slow q addr[0]\n\tFENCE q", "MEASURE!fast 1 ro[2]\nMEASURE!slow 1 ro[2]"],
    &["DEFCAL MEASURE!a 0:\n\tMEASURE!b 0", "DEFCAL MEASURE!b 0:\n\tMEASURE 0", "DEFCAL MEASURE 0:\n\tMEASURE!a 0", "MEASURE!b 0"],
    // the formal target has the name of a declared region; PRAGMA LOAD-MEMORY near misses
    &["DECLARE ro BIT[4]", "DEFCAL MEASURE q ro:\n\tCAPTURE q \"ro_rx\" flat(duration: 1, iq: 1) ro[1]\n\tPRAGMA LOAD-MEMORY \"ro\"\n\tPRAGMA load-memory \"ro\"\n\tPRAGMA LOAD-MEMORY \"ro[0]\"\n\tPRAGMA LOAD-MEMORY x \"ro\"", "MEASURE 1 other[1]\nMEASURE 2 ro[3]"],
    // observation (docs/C17.md): a DEFWAVEFORM nests in a DEFCAL body (single-level indentation parses); its own
    // formal parameter %a is substituted together with the calibration's %a (scope-blind, like the statement)
    &["DEFCAL RX(%a) 0:\n\tDEFWAVEFORM w(%a):\n\t%a, 2*%a\n\tNOP", "RX(0.5) 0"],
    // nothing matches
    &["DEFCAL X 0:\n\tNOP", "Y 0\nMEASURE 0 ro[0]\nRESET\nX 1"],
    &["H 0\nCNOT 0 1"],
    &[],
];

/// Calibration pool of the exhaustive stream (group discipline of `calgen` holds: no unbounded growth).
const CAL_POOL: &[&str] = &[
    "DEFCAL X 0:\n\tY 0\n\tNOP",
    "DEFCAL X q:\n\tPULSE q \"xy\" flat(duration: 1, iq: 1)\n\tY q",
    "DEFCAL Y 0:\n\tX 0",
    "DEFCAL Y q:\n\tDECLARE a BIT[2]\n\tFENCE q",
    "DEFCAL RX(%t) q:\n\tRY(%t+1) q\n\tSHIFT-PHASE q \"xy\" 2*%t",
    "DEFCAL RX(1) 0:\n\tX 0",
    "DEFCAL RY(%t) 0:\n\tDELAY 0 %t\n\tMEASURE 0 ro[1]",
    "DEFCAL RY(2) q:\n\tRESET q",
    "DEFCAL CZ q r:\n\tX r\n\tSWAP-PHASES q \"xy\" r \"xy\"",
    "DEFCAL MEASURE q addr:\n\tCAPTURE q \"ro_rx\" flat(duration: 1, iq: 1) addr[0]\n\tCAPTURE q \"ro_rx\" flat(duration: 1, iq: 1) other[1]\n\tX q",
    "DEFCAL MEASURE 0 addr:\n\tPRAGMA LOAD-MEMORY \"addr\"\n\tMEASURE 1 addr[0]",
    "DEFCAL MEASURE q:\n\tFENCE q",
    "DEFCAL RZ(%t) q:\n\tRZ(%t) 0",
];

const BODY_POOL: &[&str] = &["X 0", "X 1", "Y 0", "RX(1) 0", "RX(pi) 1", "RY(1+1) 0", "CZ 1 0", "MEASURE 0 ro[2]", "MEASURE 1", "NOP", "RZ(1) 1"];

fn exhaustive(ctx: &mut Ctx) {
    let cals: Vec<Instruction> = CAL_POOL.iter().map(|t| one(t)).collect();
    let body: Vec<Instruction> = BODY_POOL.iter().map(|t| one(t)).collect();
    let quick = ctx.quick();
    // calibration sets: all ordered selections of up to 2 (quick) / 3 (thorough) pool entries
    let mut sets: Vec<Vec<usize>> = vec![vec![]];
    for a in 0..cals.len() {
        sets.push(vec![a]);
        for b in 0..cals.len() {
            if a == b {
                continue;
            }
            sets.push(vec![a, b]);
            if !quick {
                for c in 0..cals.len() {
                    if c != a && c != b {
                        sets.push(vec![a, b, c]);
                    }
                }
            }
        }
    }
    for set in &sets {
        // programs: every single pool instruction; (thorough, sets of size <= 2) every ordered pair too
        for (x, bx) in body.iter().enumerate() {
            let mut instrs: Vec<Instruction> = set.iter().map(|&k| cals[k].clone()).collect();
            instrs.push(bx.clone());
            if set.len() <= 2 {
                expand_cases(ctx, &instrs);
            }
            prog_case(ctx, instrs);
            if !quick && set.len() <= 2 {
                for (y, by) in body.iter().enumerate() {
                    if x < y {
                        let mut instrs: Vec<Instruction> = set.iter().map(|&k| cals[k].clone()).collect();
                        instrs.push(by.clone());
                        instrs.push(bx.clone());
                        prog_case(ctx, instrs);
                    }
                }
            }
        }
    }
}

fn run(ctx: &mut Ctx) {
    // (1) corpus
    for parts in CORPUS {
        text_case(ctx, parts);
    }
    // (2) exhaustive small alphabet
    exhaustive(ctx);
    // (2b) API-only shapes: empty bodies, every hoisted definition kind nested in a body
    api_shapes(ctx);
    nested_with_variables(ctx);
    // (2c) kind sweep: every instruction template alone in a gate calibration and in a measurement calibration,
    // through the program entry points and through `Calibrations::expand`; every template unmatched at top level
    let reps = if ctx.quick() { 2 } else { 20 };
    let mut rng = ctx.rng(20);
    for _ in 0..reps {
        for k in 0..calgen::TEMPLATES {
            for measure in [false, true] {
                let instrs = calgen::parse_pieces(&calgen::sweep_case(&mut rng, k, measure));
                expand_cases(ctx, &instrs);
                prog_case(ctx, instrs);
            }
        }
        let instrs = calgen::parse_pieces(&calgen::sweep_unmatched(&mut rng));
        prog_case(ctx, instrs);
    }
    // (2d) large calibration sets (40-70 definitions, many of them matching the same instruction)
    let n = if ctx.quick() { 20 } else { 300 };
    let mut rng = ctx.rng(21);
    for _ in 0..n {
        let ncal = 40 + rng.below(31);
        let instrs = calgen::random_program(&mut rng, Mode::Safe, ncal, 3, false);
        prog_case(ctx, instrs);
    }
    // (3) seeded random programs over the calibration alphabets of `calgen`
    let n = if ctx.quick() { 5_000 } else { 150_000 };
    let mut rng = ctx.rng(17);
    for _ in 0..n {
        let ncal = rng.below(7);
        let nbody = 1 + rng.below(5);
        let instrs = calgen::random_program(&mut rng, Mode::Safe, ncal, nbody, false);
        prog_case(ctx, instrs);
    }
    // (3b) the same with the formal target of a DEFCAL MEASURE used in an uncovered position (known finding)
    let n = if ctx.quick() { 300 } else { 5_000 };
    let mut rng = ctx.rng(18);
    for _ in 0..n {
        let ncal = 1 + rng.below(5);
        let nbody = 1 + rng.below(4);
        let instrs = calgen::random_program(&mut rng, Mode::Safe, ncal, nbody, true);
        prog_case(ctx, instrs);
    }
    // (4) `Calibrations::expand` with an arbitrary breadcrumb list
    let n = if ctx.quick() { 1_000 } else { 20_000 };
    let mut rng = ctx.rng(19);
    for _ in 0..n {
        let ncal = 1 + rng.below(5);
        let instrs = calgen::random_program(&mut rng, Mode::Safe, ncal, 3, false);
        let body: Vec<Instruction> = Program::from_instructions(instrs.clone()).body_instructions().cloned().collect();
        if body.is_empty() {
            continue;
        }
        let i = body[0].clone();
        // Breadcrumbs stand for instructions that ARE being expanded, so only CALIBRATED instructions are put
        // there.  What `expand` answers when the caller names an instruction without any calibration as "being
        // expanded" is not constrained by the property (no calibration expands into itself there): the current
        // code checks the breadcrumbs before the lookup (error), checking after the lookup (Ok(None)) is as good.
        let prog = Program::from_instructions(instrs.clone());
        let calibrated = |x: &Instruction| match x {
            Instruction::Gate(g) => prog.calibrations.get_match_for_gate(g).is_some(),
            Instruction::Measurement(m) => prog.calibrations.get_match_for_measurement(m).is_some(),
            _ => false,
        };
        let prev: Vec<Instruction> = match rng.below(3) {
            0 => vec![],
            1 => body[1..].iter().filter(|x| calibrated(x)).cloned().collect(),
            _ => body.iter().filter(|x| calibrated(x)).cloned().collect(),
        };
        let input = tagged("expand", vec![instructions_to_sexp(&instrs), instruction_to_sexp(&i), instructions_to_sexp(&prev)]);
        ctx.case(input, || run_expand(&instrs, &i, &prev));
    }
}

fn main() {
    main_with(run)
}
