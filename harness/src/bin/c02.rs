//! C02 — parsed programs print to text that re-parses to the same program.
//!
//! Every case is a TEXT.  The real pipeline is run on it:
//!   text --Program::from_str--> P --to_quil--> text1 --from_str--> P' --to_quil--> text2
//! and reported as
//!   (rejected)                                   the text does not lex / parse
//!   (ok (listing I…)                             P.to_instructions()
//!       (print (ok TOK…) | (err KIND))           lex_tokens(text1)
//!       (reparse (ok (listing I…) EQ) | (err))   P'.to_instructions(), P' == P
//!       (print2 (ok TOK…) | (err KIND) | (none)) lex_tokens(text2)
//!       (texteq BOOL)                            text2 == text1 (bytes)
//!       (debug TOK…)                             lex_tokens(P.to_quil_or_debug())
//!       (siblings (NAME BOOL)…))                 the other public routes agree with the ones above (see `siblings`)
//! A rejected text has its error formatted (`{}`, `{:#}`, `{:?}`, source chain) under catch_unwind.
//! The Lean driver recomputes everything from the text with the lexer / parser / program / printer models.
use qvh::ast::Enc;
use qvh::lexwire::token_sexp;
use qvh::*;
use quil_rs::instruction::Instruction;
use quil_rs::quil::{Quil, ToQuilError};
use quil_rs::verif_hooks;
use quil_rs::Program;
use std::str::FromStr;

fn toks_of(text: &str) -> Sexp {
    match verif_hooks::lex_tokens(text) {
        Ok(tokens) => {
            let mut v = vec![atom("ok")];
            v.extend(tokens.iter().map(token_sexp));
            list(v)
        }
        Err(_) => tagged("lexerr", vec![st(text)]),
    }
}

fn err_kind(e: &ToQuilError) -> Sexp {
    match e {
        ToQuilError::UnresolvedLabelPlaceholder => tagged("err", vec![atom("label")]),
        ToQuilError::UnresolvedQubitPlaceholder => tagged("err", vec![atom("qubit")]),
        _ => tagged("err", vec![atom("format")]),
    }
}

fn listing(p: &Program) -> Sexp {
    let is = p.to_instructions();
    let mut v = vec![atom("listing")];
    let mut enc = Enc::new();
    v.extend(is.iter().map(|i| enc.instruction(i)));
    list(v)
}

fn run_text(text: &str) -> Sexp {
    let p = match Program::from_str(text) {
        Ok(p) => p,
        Err(e) => {
            // every returned error is formatted: a panic here is a crash outcome
            let mut n = format!("{e}").len() + format!("{e:#}").len() + format!("{e:?}").len();
            let mut src: Option<&dyn std::error::Error> = std::error::Error::source(&e);
            while let Some(x) = src {
                n += x.to_string().len();
                src = x.source();
            }
            std::hint::black_box(n);
            return tagged("rejected", vec![]);
        }
    };
    let debug = {
        let mut v = vec![atom("debug")];
        if let Ok(tokens) = verif_hooks::lex_tokens(&p.to_quil_or_debug()) {
            v.extend(tokens.iter().map(token_sexp));
        } else {
            v.push(atom("lexerr"));
        }
        list(v)
    };
    let (print1, text1) = match p.to_quil() {
        Ok(t) => (tagged("print", vec![toks_of(&t)]), Some(t)),
        Err(e) => (tagged("print", vec![err_kind(&e)]), None),
    };
    let (reparse, print2, texteq) = match &text1 {
        None => (tagged("reparse", vec![tagged("err", vec![])]), tagged("print2", vec![tagged("none", vec![])]), false),
        Some(t1) => match Program::from_str(t1) {
            Err(_) => {
                (tagged("reparse", vec![tagged("err", vec![])]), tagged("print2", vec![tagged("none", vec![])]), false)
            }
            Ok(p2) => {
                let eq = p2 == p;
                let (pr2, teq) = match p2.to_quil() {
                    Ok(t2) => (tagged("print2", vec![toks_of(&t2)]), &t2 == t1),
                    Err(e) => (tagged("print2", vec![err_kind(&e)]), false),
                };
                (tagged("reparse", vec![tagged("ok", vec![listing(&p2), boolean(eq)])]), pr2, teq)
            }
        },
    };
    let sib = siblings(&p, text1.as_deref());
    tagged("ok", vec![listing(&p), print1, reparse, print2, tagged("texteq", vec![boolean(texteq)]), debug, sib])
}

/// The other public print / parse / build routes, compared with the main ones (all must be `true`):
///   instr-concat   text1 == Σ instruction.to_quil() + "\n" over to_instructions()
///   debug-eq       to_quil_or_debug() == text1 (a parsed program has no placeholders)
///   twice          a second to_quil() gives the same text
///   into-eq-to     clone().into_instructions() == to_instructions()
///   rebuilt-text   Program::from_instructions(to_instructions()).to_quil() == text1
///   add-loop       add_instruction one at a time == from_instructions, same text
///   from-vec       Program::from(vec) == from_instructions(vec)
///   plus           (P + empty) and (empty + P) print text1; P + P prints what from_instructions(l ++ l) prints
///   instr-from-str every listed instruction: Instruction::from_str(i.to_quil()) re-prints the same text and == i
///   trip3          from_str(text2): == P', and its text3 == text2 (idempotence beyond one step)
///   instrs-eq-prog parsing the text and listing it == from_instructions route (P' vs rebuilt)
fn siblings(p: &Program, text1: Option<&str>) -> Sexp {
    let mut v: Vec<Sexp> = vec![atom("siblings")];
    let mut put = |name: &str, b: bool| v.push(list(vec![atom(name), boolean(b)]));
    let Some(t1) = text1 else {
        return list(v);
    };
    let l = p.to_instructions();
    let mut concat = String::new();
    let mut all_ok = true;
    for i in &l {
        match i.to_quil() {
            Ok(t) => {
                concat.push_str(&t);
                concat.push('\n');
            }
            Err(_) => all_ok = false,
        }
    }
    put("instr-concat", all_ok && concat == t1);
    put("debug-eq", p.to_quil_or_debug() == t1);
    put("twice", p.to_quil().map(|t| t == t1).unwrap_or(false));
    put("into-eq-to", p.clone().into_instructions() == l);
    let rebuilt = Program::from_instructions(l.clone());
    put("rebuilt-text", rebuilt.to_quil().map(|t| t == t1).unwrap_or(false));
    let mut looped = Program::new();
    for i in &l {
        looped.add_instruction(i.clone());
    }
    put("add-loop", looped == rebuilt && looped.to_quil().map(|t| t == t1).unwrap_or(false));
    let mut bulk = Program::new();
    bulk.add_instructions(l.clone());
    put("add-bulk", bulk == rebuilt);
    put("from-vec", Program::from(l.clone()) == rebuilt);
    let plus_r = p.clone() + Program::new();
    let plus_l = Program::new() + p.clone();
    let mut twice_l = l.clone();
    twice_l.extend(l.clone());
    let pp = rebuilt.clone() + rebuilt.clone();
    put(
        "plus",
        plus_r.to_quil().map(|t| t == t1).unwrap_or(false)
            && plus_l.to_quil().map(|t| t == t1).unwrap_or(false)
            && pp.to_quil().ok() == Program::from_instructions(twice_l).to_quil().ok(),
    );
    let mut ifs = true;
    for i in &l {
        if let Ok(t) = i.to_quil() {
            match Instruction::from_str(&t) {
                Ok(j) => {
                    if j.to_quil().ok().as_deref() != Some(t.as_str()) || &j != i {
                        ifs = false;
                    }
                }
                Err(e) => {
                    std::hint::black_box(format!("{e} {e:?}").len());
                    ifs = false;
                }
            }
        }
    }
    put("instr-from-str", ifs);
    if let Ok(p2) = Program::from_str(t1) {
        put("instrs-eq-prog", p2 == rebuilt);
        if let Ok(t2) = p2.to_quil() {
            match Program::from_str(&t2) {
                Ok(p3) => put("trip3", p3 == p2 && p3.to_quil().map(|t3| t3 == t2).unwrap_or(false)),
                Err(_) => put("trip3", false),
            }
        }
    }
    list(v)
}

fn text_case(ctx: &mut Ctx, stream: &str, text: &str) {
    let t = text.to_string();
    ctx.case(tagged("text", vec![atom(stream), st(text)]), move || run_text(&t));
}

// ------------------------------------------------------------------------------------------------
// 1. corpus: one or more texts per instruction kind, the past failures, the hazards found by modelling
// ------------------------------------------------------------------------------------------------
const CORPUS: &[&str] = &[
    "",
    "HALT",
    "NOP\nWAIT\nHALT\n",
    // classical instructions with literal operands (fix 8e284d8)
    "MOVE ro 1.0",
    "MOVE ro[0] 1",
    "MOVE ro 1e300",
    "MOVE ro -1.5",
    "MOVE ro -0.0",
    "MOVE ro 1e-7",
    "MOVE ro 123456789012345678.0",
    "MOVE ro 0.1",
    "MOVE ro -9223372036854775808",
    "MOVE ro 9223372036854775807",
    "MOVE a b[3]",
    "ADD a 1\nSUB a[1] -2\nMUL a 2.5\nDIV a b",
    "AND a 1\nIOR a -1\nXOR a b\nSHL a 3\nSHR a b[1]\nASHR a 0x10",
    "EQ r a 1\nGE r a -1.0\nGT r a b\nLE r[1] a[2] 3.25\nLT r a 0b11",
    "NEG a\nNOT b[1]",
    "CONVERT a b\nEXCHANGE a[1] b[2]",
    "LOAD a b c\nSTORE a b[1] c\nSTORE a b 1.0\nSTORE a b -3",
    // declarations
    "DECLARE ro BIT",
    "DECLARE ro BIT[4]\nDECLARE theta REAL[2] SHARING ro\nDECLARE x INTEGER SHARING ro OFFSET 1 BIT 2 OCTET",
    "DECLARE a OCTET[0x10]",
    "DECLARE ro BIT\nDECLARE ro REAL[2]",
    // gates, expressions, modifiers
    "X 0",
    "CNOT 0 1\nCCNOT q r %s",
    "RX(pi/2) 0",
    "RX(-(-pi)) 0",
    "RX(--pi) 0",
    "RX(1.0) 0\nRX(1) 0\nRX(1e300) 0\nRX(0.5e-10) 0",
    "RX(%theta) 0\nRX(theta[1]) 0\nRX(theta) 0\nRX(Theta) 0",
    "RX(1+2i) 0\nRX(1-2.5i) 0\nRX(2i) 0\nRX(i) 0\nRX(-i) 0\nRX(1.5i*%x) 0",
    "RX((1+2i)*%x) 0",
    "U(1, 2.5, %a+%b*2^3) 0 1",
    "U(sin(%a), cos(pi), cis(1), exp(2i), sqrt(x[1])) 0",
    "U(SIN(%a), Cos(pi), PI) 0",
    "U(1 - 2 - 3, 1-(2-3), 1/2/3, 1/(2/3), 2^3^4, (2^3)^4, -2^2, (-2)^2) 0",
    "U(-%a, -(%a+1), -sin(%a), - 1) 0",
    "CONTROLLED X 0 1\nDAGGER CONTROLLED FORKED RX(1, 2) 0 1 2\nDAGGER DAGGER H 0",
    "FOO",
    "FOO(1)",
    "foo-bar(1) 0\n_u 1",
    // measure / reset
    "MEASURE 0\nMEASURE 0 ro\nMEASURE 0 ro[2]\nMEASURE q ro\nMEASURE %q\nMEASURE!midcircuit 0 ro[1]",
    "RESET\nRESET 0\nRESET q\nRESET %q",
    // control flow
    "LABEL @a\nJUMP @a\nJUMP-WHEN @a ro\nJUMP-UNLESS @a-b ro[1]\nHALT",
    // pragma / include / extern / call
    "PRAGMA NAME",
    "PRAGMA NAME a 1 b \"data\"\nPRAGMA X \"a\\\"b\\\\c\"\nPRAGMA LOAD-MEMORY q0 \"addr\"",
    "INCLUDE \"file.quil\"",
    "PRAGMA EXTERN foo \"INTEGER (x : INTEGER, y : mut REAL[3], z : BIT[])\"\nCALL foo a b[1] 3",
    "PRAGMA EXTERN foo \"(x : INTEGER)\"\nPRAGMA EXTERN foo \"(x : REAL)\"\nPRAGMA EXTERN \"nameless\"\nPRAGMA EXTERN 1 \"x\"",
    "CALL foo",
    "CALL foo 1 -1 2.5 -2.5 1i 2.0i -2.0i 1+2i 1-2i -1+2i -1-2i",
    "CALL foo 1 -2.0i",
    "CALL foo 1 0-2.0i",
    "CALL foo 1 +2.0i",
    "CALL foo 1.5 i",
    "CALL foo i 1",
    "CALL foo pi",
    "CALL foo 0 0i 0.0",
    "CALL foo a[1] -1 b 1+2.0i c[0]",
    // delay (fix fce5d6b)
    "DELAY 0 1.0",
    "DELAY 0 1",
    "DELAY 0 1 2",
    "DELAY 0 %t",
    "DELAY 0 1 theta[0]",
    "DELAY 0 theta",
    "DELAY 0 q theta[0]",
    "DELAY 0 pi/2",
    "DELAY 0 (pi/2)",
    "DELAY 0 sin(%t)",
    "DELAY 0 (sin(%t))",
    "DELAY 0 \"rf\" sin(%t)",
    "DELAY 0 \"rf\" \"xy\" 1e-6",
    "DELAY 0 1 \"a\\\"b\" %t*2",
    "DELAY 0 %t - 1",
    "DELAY 0 (%t - 1)",
    "DELAY 0 -1",
    "DELAY 0 1 -1",
    "DELAY 0 (1+2i)",
    "DELAY 0 2i",
    "DELAY 0 2.5i",
    "DELAY q i",
    "DELAY 0 1 i",
    "DELAY 1e-6",
    "DELAY \"rf\" 1",
    "DELAY 0 -%t",
    "DELAY 0 -(%t+1)",
    // fence
    "FENCE\nFENCE 0\nFENCE 0 1 q %r",
    // frames
    "DEFFRAME 0 \"rf\":\n    DIRECTION: \"tx\"\n    INITIAL-FREQUENCY: 1e9\n    HARDWARE-OBJECT: \"q0_rf\"\n    SAMPLE-RATE: 1e9",
    "DEFFRAME 0 1 \"cz\":\n\tA: 1\n\tB: %x+1\n\tA: \"again\"",
    "DEFFRAME q \"a\\\"b\":\n    A: pi",
    "PULSE 0 \"rf\" gaussian(duration: 1e-6, fwhm: 2e-7, t0: 5e-7)\nNONBLOCKING PULSE 0 1 \"cz\" flat(iq: 1+2i, duration: 1)",
    "PULSE 0 \"rf\" my_wf\nPULSE 0 \"rf\" lib/wf\nPULSE 0 \"rf\" lib/wf(b: 1, a: 2)",
    "PULSE 0 \"rf\" w(b: 1, a: 2, b: 3)",
    "CAPTURE 0 \"ro\" flat(duration: 1, iq: 1) ro\nNONBLOCKING CAPTURE 0 \"ro\" w ro[1]",
    "RAW-CAPTURE 0 \"ro\" 1e-6 iq\nNONBLOCKING RAW-CAPTURE 0 \"ro\" %d*2 iq[2]",
    "RAW-CAPTURE 0 \"ro\" (2) i[0]",
    "RAW-CAPTURE 0 \"ro\" (2.5) i",
    "RAW-CAPTURE 0 \"ro\" %t i",
    "RAW-CAPTURE 0 \"ro\" pi x[1]",
    "SET-FREQUENCY 0 \"rf\" 1e9\nSET-PHASE 0 \"rf\" pi/2\nSET-SCALE 0 \"rf\" 0.5\nSHIFT-FREQUENCY 0 \"rf\" -1e6\nSHIFT-PHASE 0 \"rf\" %p",
    "SWAP-PHASES 0 \"rf\" 1 \"rf\"\nSWAP-PHASES q \"a\" 0 1 \"b\"",
    // waveforms
    "DEFWAVEFORM w:\n    1, 2, 3",
    "DEFWAVEFORM lib/w(%a, %b):\n\t1+2i, %a*2, -1.5, i",
    "DEFWAVEFORM w():\n    1",
    // gate definitions
    "DEFGATE H:\n    1/sqrt(2), 1/sqrt(2)\n    1/sqrt(2), -1/sqrt(2)",
    "DEFGATE H AS MATRIX:\n\t1, 0\n\t0, 1\n",
    "DEFGATE R(%theta, %phi) AS MATRIX:\n    cos(%theta/2), -i*sin(%theta/2)\n    -i*sin(%theta/2), cos(%theta/2)\n\nX 0",
    "DEFGATE P AS PERMUTATION:\n    0, 1, 3, 2",
    "DEFGATE PS(%t) a b AS PAULI-SUM:\n    ZZ(-%t/4) a b\n    Y(%t/4) a\n    X(1) b",
    "DEFGATE S(%t) a b AS SEQUENCE:\n    RX(%t) a\n    CNOT a b\n    DAGGER H b",
    "DEFGATE S a AS SEQUENCE:\n    X a\nS 0",
    "DEFGATE M:\n    1,\n    2\n",
    "DEFGATE M:\n    1,     2\n",
    "DEFGATE A:\n    1\nDEFGATE B:\n    2\nDEFGATE A:\n    3",
    // calibrations
    "DEFCAL X 0:\n    PULSE 0 \"rf\" w",
    "DEFCAL RX(%theta) q:\n    SHIFT-PHASE q \"rf\" %theta\n    PULSE q \"rf\" w(a: %theta)\n",
    "DEFCAL RX(pi/2) 0:\n\tNOP\nDEFCAL DAGGER CONTROLLED X 0 1:\n\tNOP",
    "DEFCAL X 0:\n    Y 5\nDEFCAL X 0:\n    Y 6\n",
    "DEFCAL X 0:\n    NOP\nDEFCAL X 0:\n    WAIT\n",
    "DEFCAL MEASURE 0 addr:\n    CAPTURE 0 \"ro\" w addr\n    NOP",
    "DEFCAL MEASURE q:\n\tNOP\nDEFCAL MEASURE!mid 0 ro:\n\tNOP\nDEFCAL MEASURE %q dest:\n\tNOP",
    "DEFCAL X 0:\n    DEFCAL Y 0:\n    NOP\n    WAIT",
    "DEFCAL X 0:\n    DECLARE ro BIT\n    MEASURE 0 ro",
    // circuits
    "DEFCIRCUIT BELL a b:\n    H a\n    CNOT a b",
    "DEFCIRCUIT C(%t, %u) q:\n\tRX(%t) q\n\tRZ(%u) q\nC(1, 2) 0",
    "DEFCIRCUIT C:\n    NOP",
    "DEFCIRCUIT C %a b:\n    X %a",
    "DEFCIRCUIT C q:\n    DEFCAL X q:\n    NOP\n    WAIT",
    "DEFCIRCUIT C q:\n    DEFGATE G:\n    1\n",
    "DEFCIRCUIT C q:\n    DEFCIRCUIT D r:\n    X r",
    // a qubit variable named like a keyword (found by mutation: `H%LT`)
    "H %LT",
    "C %NOT 0",
    "SWAP-PHASES %DAGGER \"rf\" 0 \"ro\"",
    "DEFCIRCUIT C %NOT:\n    X %NOT",
    "MEASURE %MATRIX ro",
    "DEFFRAME %NOT \"f\":\n    A: 1",
    "DEFCAL X %AS:\n    NOP\nDEFCAL MEASURE %SHARING:\n    NOP",
    "DEFGATE S a AS SEQUENCE:\n    X a\nFENCE %OFFSET\nDELAY %HALT 1\nRESET %WAIT",
    "H %pi %i %sin",
    // a string with a newline inside a DEFCIRCUIT body (re-indented by CircuitDefinition::write)
    "DEFCIRCUIT C:\n    PRAGMA x \"a\nb\"",
    "DEFCAL X 0:\n    PRAGMA x \"a\nb\"",
    "PRAGMA x \"a\nb\"\nINCLUDE \"a\n    b\"",
    // a number followed by the name `i` in CALL arguments
    "CALL f 1 i",
    "CALL f 2.5 i[0]",
    "CALL e -1e300-0i i",
    "CALL f 1i i",
    "CALL f x i 1",
    // empty and singleton lists wherever the grammar allows them
    "PULSE 0 \"rf\" w()\nCAPTURE 0 \"rf\" w() ro",
    "FOO()\nFOO() 0\nDEFCAL FOO():\n    NOP",
    "DEFGATE G():\n    1\nDEFCIRCUIT C():\n    NOP\nDEFWAVEFORM w():\n    1",
    "DEFGATE G AS PERMUTATION:\n    0\nDEFGATE S a AS SEQUENCE:\n    X a\nDEFGATE P a AS PAULI-SUM:\n    X(1) a",
    "PRAGMA EXTERN f \"INTEGER ()\"\nPRAGMA EXTERN g \"()\"\nPRAGMA EXTERN h \"\"",
    "DECLARE x BIT[0]\nDECLARE y REAL SHARING x OFFSET 0 BIT",
    // a circuit and a LATER gate definition with the same name (seed C02-1), and other cross-kind name sharing
    "DEFCIRCUIT BELL a b:\n    H a\n    CNOT a b\nDEFGATE BELL AS PERMUTATION:\n    0, 1, 3, 2\nBELL 0 1",
    "DEFGATE BELL AS PERMUTATION:\n    0, 1\nDEFCIRCUIT BELL a:\n    H a\nDEFWAVEFORM BELL:\n    1\nDECLARE BELL BIT\nDEFCAL BELL 0:\n    NOP\nPRAGMA EXTERN BELL \"INTEGER\"\nLABEL @BELL\nDEFFRAME 0 \"BELL\":\n    A: 1",
    // PAULI-SUM terms whose arguments are not in signature order (seed C02-2)
    "DEFGATE PS(%t) a b c AS PAULI-SUM:\n    ZXY(%t) c a b\n    XX(1) b a\n    Y(2) c",
    // strings with control characters and newlines in every body kind
    "DEFCAL X 0:\n    PRAGMA x \"a\tb\"\n    DELAY 0 \"a\nb\" 1\nDEFCAL MEASURE 0:\n    PULSE 0 \"a\nb\" w\n    INCLUDE \"x\ry\"\nDEFCIRCUIT C:\n    DELAY 0 \"\u{1}\" \"\u{7f}\" 1\n    SET-PHASE 0 \"a\n\tb\" 1",
    // ordering of definitions and body
    "X 0\nDECLARE ro BIT\nDEFGATE A:\n    1\nMEASURE 0 ro\nDEFFRAME 0 \"f\":\n    A: 1\nDEFWAVEFORM w:\n    1\nDEFCAL X 0:\n    NOP\nDEFCAL MEASURE 0:\n    NOP\nDEFCIRCUIT C:\n    NOP\nPRAGMA EXTERN f \"INTEGER\"\nY 1",
    // lexical variety
    "X 0 # comment\n# another\n\nY 1;Z 2;;\n   H 3\n",
    "X 0\r\nY 1\r\n",
    "MOVE a 0x1F\nMOVE a 0b101\nMOVE a 0o17\nMOVE a 1_000\nMOVE a 1_0.5_0e1_0",
];

// ------------------------------------------------------------------------------------------------
// 2. grammar-based generator over text
// ------------------------------------------------------------------------------------------------
const NAMES: &[&str] = &[
    "a", "b", "q", "ro", "theta", "x_1", "foo-bar", "G", "RX", "CNOT", "i", "pi", "sin", "I", "X", "ab_", "_u",
    "H2", "DAGGERX", "a-b-c", "Theta", "e", "E1", "cis", "SQRT", "w", "iq", "inf", "NaN", "PH",
    // reserved words / template names / gate names / constants in other letter cases: identifiers to the lexer
    "dagger", "Dagger", "matrix", "As", "sharing", "Offset", "pauli-sum", "defgate", "measure", "Mut", "nonblocking",
    "flat", "gaussian", "drag_gaussian", "erf_square", "hrm_gaussian", "boxcar_kernel", "FLAT", "Gaussian",
    "h", "Rx", "cnot", "PI", "Pi", "SIN", "Sqrt", "CIS", "Exp", "EXTERN", "extern", "bit", "Real", "octet",
];
const STRINGS: &[&str] = &[
    "rf", "ro", "xy", "a b", "a\\\"b", "a\\\\b", "", "#x", "q0_rf", "é", ";", "a\nb", "\t", "a\rb", "\u{1}", "\u{7f}",
    "\u{1b}[0m", "    ", "\n", "x\n    y", "DEFGATE", "\u{85}",
];

struct G<'a> {
    r: &'a mut Rng,
}

impl G<'_> {
    fn name(&mut self) -> String {
        self.r.pick(NAMES).to_string()
    }
    fn sp(&mut self) -> &'static str {
        match self.r.below(12) {
            0 => "  ",
            1 => "   ",
            _ => " ",
        }
    }
    fn string(&mut self) -> String {
        format!("\"{}\"", self.r.pick(STRINGS))
    }
    fn uint(&mut self) -> String {
        match self.r.below(12) {
            0 => "0".into(),
            1 => format!("0x{:X}", self.r.below(300)),
            2 => format!("0b{:b}", self.r.below(20)),
            3 => format!("0o{:o}", self.r.below(100)),
            4 => "1_000".into(),
            5 => "18446744073709551615".into(),
            6 => "9223372036854775807".into(),
            7 => "9223372036854775808".into(),
            8 => self
                .r
                .pick(&[
                    "2147483647", "2147483648", "4294967295", "4294967296", "9007199254740992", "9007199254740993",
                    "999999999999999", "1000000000000000", "10000000000000000", "18446744073709551614", "1", "32", "64",
                ])
                .to_string(),
            _ => self.r.below(12).to_string(),
        }
    }
    fn sint(&mut self) -> String {
        let u = self.uint();
        if self.r.chance(1, 3) {
            format!("-{u}")
        } else {
            u
        }
    }
    fn float(&mut self) -> String {
        const F: &[&str] = &[
            "1.0", "0.5", "2.", ".5", "1e3", "1E-3", "1.5e+2", "0.1", "1e300", "1e-300", "5e-324", "0.0", "3.25",
            "1e15", "1e14", "999999999999999.0", "1e16", "123456789012345678.0", "1e-5", "1e-6", "0.00001",
            "0.000001", "1.7976931348623157e308", "2.2250738585072014e-308", "4.9e-324", "1_0.2_5", "6.02e23",
            "100.0", "1e0", "12345.678", "0.30000000000000004", "1e21", "1e22", "1e23",
            // band boundaries of the number printers / the lexer
            "9.999999999999999e-6", "0.00001", "0.000009", "1e-4", "99999999999999.0", "999999999999999.9",
            "1000000000000000.0", "9999999999999998.0", "9007199254740992.0", "9007199254740993.0",
            "9223372036854775808.0", "18446744073709551615.0", "18446744073709551616.0", "1.8446744073709552e19",
            "1e19", "9.9e19", "1e20", "99999999999999999999.0", "1.0000000000000002", "2.2250738585072009e-308",
            "1e-323", "4294967296.0", "2147483648.0", "0.1e1", "00.5", "1_000.000_1",
        ];
        if self.r.chance(1, 5) {
            let m = self.r.below(1 << 20) as f64 / 1024.0;
            let e = self.r.range(-20, 20) as i32;
            format!("{:e}", m * 10f64.powi(e))
        } else if self.r.chance(1, 6) {
            // a random finite double
            let bits = self.r.next() & 0x7FEF_FFFF_FFFF_FFFF;
            let x = f64::from_bits(bits);
            if x.is_finite() {
                format!("{x:e}")
            } else {
                "1.0".into()
            }
        } else {
            self.r.pick(F).to_string()
        }
    }
    fn qubit(&mut self) -> String {
        match self.r.below(8) {
            0 => format!("%{}", self.name()),
            1 | 2 => self.name(),
            _ => self.r.below(6).to_string(),
        }
    }
    fn qubits(&mut self, min: u64, max: u64) -> String {
        let n = min + self.r.below(max - min + 1);
        let mut s = String::new();
        for _ in 0..n {
            s.push_str(self.sp());
            s.push_str(&self.qubit());
        }
        s
    }
    fn memref(&mut self) -> String {
        let n = self.name();
        if self.r.chance(1, 2) {
            n
        } else {
            format!("{n}[{}]", self.uint())
        }
    }
    fn expr(&mut self, depth: u32) -> String {
        let leaf = depth == 0 || self.r.chance(2, 5);
        if leaf {
            return match self.r.below(12) {
                0 => "pi".into(),
                1 => format!("%{}", self.name()),
                2 => self.memref(),
                3 => self.uint(),
                4 => self.float(),
                5 => format!("{}i", self.float()),
                6 => format!("{}i", self.uint()),
                7 => "i".into(),
                8 => format!("{}[{}]", self.name(), self.uint()),
                9 => "PI".into(),
                _ => self.r.below(10).to_string(),
            };
        }
        match self.r.below(12) {
            0 => format!("-{}", self.expr(depth - 1)),
            1 => format!("({})", self.expr(depth - 1)),
            2 => format!("{}({})", self.r.pick(&["sin", "cos", "cis", "exp", "sqrt", "SIN", "Sqrt"]), self.expr(depth - 1)),
            3 => format!("{}+{}", self.expr(depth - 1), self.expr(depth - 1)),
            4 => format!("{} - {}", self.expr(depth - 1), self.expr(depth - 1)),
            5 => format!("{}*{}", self.expr(depth - 1), self.expr(depth - 1)),
            6 => format!("{}/{}", self.expr(depth - 1), self.expr(depth - 1)),
            7 => format!("{}^{}", self.expr(depth - 1), self.expr(depth - 1)),
            8 => format!("{} + {}", self.expr(depth - 1), self.expr(depth - 1)),
            9 => format!("-({})", self.expr(depth - 1)),
            10 => format!("({})*({})", self.expr(depth - 1), self.expr(depth - 1)),
            _ => format!("{}-{}", self.expr(depth - 1), self.expr(depth - 1)),
        }
    }
    fn exprs(&mut self, min: u64, max: u64, depth: u32) -> String {
        let n = min + self.r.below(max - min + 1);
        (0..n).map(|_| self.expr(depth)).collect::<Vec<_>>().join(if self.r.chance(1, 4) { "," } else { ", " })
    }
    fn params(&mut self) -> String {
        match self.r.below(5) {
            0 | 1 => String::new(),
            2 => {
                if self.r.chance(1, 6) {
                    "()".into()
                } else {
                    format!("({})", self.expr(2))
                }
            }
            _ => format!("({})", self.exprs(1, 3, 2)),
        }
    }
    fn var_params(&mut self) -> String {
        match self.r.below(4) {
            0 | 1 => String::new(),
            2 => format!("(%{})", self.name()),
            _ => {
                if self.r.chance(1, 6) {
                    "()".into()
                } else {
                    format!("(%{}, %{})", self.name(), self.name())
                }
            }
        }
    }
    fn modifiers(&mut self) -> String {
        let mut s = String::new();
        while self.r.chance(1, 4) {
            let m: &str = *self.r.pick(&["DAGGER ", "CONTROLLED ", "FORKED "]);
            s.push_str(m);
        }
        s
    }
    fn gate(&mut self) -> String {
        format!("{}{}{}{}", self.modifiers(), self.name(), self.params(), self.qubits(0, 3))
    }
    fn frame(&mut self) -> String {
        let qs = self.qubits(1, 3);
        format!("{}{}{}", qs.trim_start(), self.sp(), self.string())
    }
    fn wf_name(&mut self) -> String {
        if self.r.chance(1, 4) {
            format!("{}/{}", self.name(), self.name())
        } else {
            self.name()
        }
    }
    fn invocation(&mut self) -> String {
        let n = self.wf_name();
        match self.r.below(4) {
            0 => n,
            1 => format!("{n}({}: {})", self.name(), self.expr(2)),
            2 => format!("{n}({}: {}, {}: {})", self.name(), self.expr(1), self.name(), self.expr(1)),
            _ => {
                format!("{n}(duration: {}, iq: {}, a: {})", self.expr(1), self.expr(1), self.expr(0))
            }
        }
    }
    fn arith_operand(&mut self) -> String {
        match self.r.below(4) {
            0 => self.sint(),
            1 => {
                let f = self.float();
                if self.r.chance(1, 3) {
                    format!("-{f}")
                } else {
                    f
                }
            }
            _ => self.memref(),
        }
    }
    fn call_arg(&mut self) -> String {
        match self.r.below(10) {
            0 => self.name(),
            1 => format!("{}[{}]", self.name(), self.uint()),
            2 => self.uint(),
            3 => format!("-{}", self.float()),
            4 => format!("{}i", self.float()),
            5 => format!("-{}i", self.float()),
            6 => format!("{}+{}i", self.float(), self.float()),
            7 => format!("{}-{}i", self.uint(), self.float()),
            8 => format!("-{}-{}i", self.float(), self.uint()),
            _ => self.float(),
        }
    }
    fn indent(&mut self) -> &'static str {
        if self.r.chance(1, 4) {
            "\t"
        } else {
            "    "
        }
    }
    fn block(&mut self, depth: u32) -> String {
        let n = 1 + self.r.below(3);
        let ind = self.indent();
        let mut s = String::new();
        for _ in 0..n {
            s.push('\n');
            s.push_str(ind);
            s.push_str(&self.simple_instruction(depth));
        }
        s
    }
    /// an instruction that fits on one line (nested definitions only when `depth > 0`, rarely)
    fn simple_instruction(&mut self, depth: u32) -> String {
        if depth > 0 && self.r.chance(1, 25) {
            return self.definition(depth - 1);
        }
        let sp = self.sp();
        match self.r.below(34) {
            0 => format!("{}{sp}{} {}", self.r.pick(&["ADD", "SUB", "MUL", "DIV"]), self.memref(), self.arith_operand()),
            1 => {
                let src = if self.r.chance(1, 2) { self.sint() } else { self.memref() };
                format!("{} {}{sp}{}", self.r.pick(&["AND", "IOR", "XOR", "SHL", "SHR", "ASHR"]), self.memref(), src)
            }
            2 => format!(
                "{} {} {} {}",
                self.r.pick(&["EQ", "GE", "GT", "LE", "LT"]),
                self.memref(),
                self.memref(),
                self.arith_operand()
            ),
            3 => format!("{} {}", self.r.pick(&["NEG", "NOT"]), self.memref()),
            4 => format!("CONVERT {} {}", self.memref(), self.memref()),
            5 => format!("EXCHANGE {} {}", self.memref(), self.memref()),
            6 => format!("MOVE {}{sp}{}", self.memref(), self.arith_operand()),
            7 => format!("LOAD {} {} {}", self.memref(), self.name(), self.memref()),
            8 => format!("STORE {} {} {}", self.name(), self.memref(), self.arith_operand()),
            9 => {
                let args = (0..self.r.below(4)).map(|_| self.call_arg()).collect::<Vec<_>>().join(" ");
                format!("CALL {} {}", self.name(), args)
            }
            10 => format!("{}CAPTURE {} {} {}", self.nonblocking(), self.frame(), self.invocation(), self.memref()),
            11 => format!("{}PULSE {} {}", self.nonblocking(), self.frame(), self.invocation()),
            12 => format!("{}RAW-CAPTURE {} {} {}", self.nonblocking(), self.frame(), self.expr(2), self.memref()),
            13 => {
                let names = (0..self.r.below(3)).map(|_| format!(" {}", self.string())).collect::<String>();
                format!("DELAY{}{names} {}", self.qubits(0, 3), self.expr(2))
            }
            14 => format!("FENCE{}", self.qubits(0, 3)),
            15 | 16 | 17 => self.gate(),
            18 => "HALT".into(),
            19 => format!("INCLUDE {}", self.string()),
            20 => format!("JUMP @{}", self.name()),
            21 => format!(
                "{} @{} {}",
                self.r.pick(&["JUMP-WHEN", "JUMP-UNLESS"]),
                self.name(),
                self.memref()
            ),
            22 => format!("LABEL @{}", self.name()),
            23 => {
                let bang = if self.r.chance(1, 4) { format!("!{}", self.name()) } else { String::new() };
                let target = if self.r.chance(1, 2) { format!(" {}", self.memref()) } else { String::new() };
                format!("MEASURE{bang} {}{target}", self.qubit())
            }
            24 => self.r.pick(&["NOP", "WAIT", "HALT"]).to_string(),
            25 => {
                let name = if self.r.chance(1, 6) { "EXTERN".to_string() } else { self.name() };
                let args = (0..self.r.below(3))
                    .map(|_| if self.r.chance(1, 2) { format!(" {}", self.name()) } else { format!(" {}", self.uint()) })
                    .collect::<String>();
                let data = if self.r.chance(1, 2) { format!(" {}", self.string()) } else { String::new() };
                format!("PRAGMA {name}{args}{data}")
            }
            26 => {
                if self.r.chance(1, 2) {
                    "RESET".into()
                } else {
                    format!("RESET {}", self.qubit())
                }
            }
            27 => format!(
                "{} {} {}",
                self.r.pick(&["SET-FREQUENCY", "SET-PHASE", "SET-SCALE", "SHIFT-FREQUENCY", "SHIFT-PHASE"]),
                self.frame(),
                self.expr(2)
            ),
            28 => format!("SWAP-PHASES {} {}", self.frame(), self.frame()),
            29 => {
                let sharing = match self.r.below(4) {
                    0 => format!(" SHARING {}", self.name()),
                    1 => format!(
                        " SHARING {} OFFSET {} {}",
                        self.name(),
                        self.uint(),
                        self.r.pick(&["BIT", "REAL", "OCTET", "INTEGER"])
                    ),
                    2 => format!(" SHARING {} OFFSET 1 BIT 2 REAL", self.name()),
                    _ => String::new(),
                };
                let len = if self.r.chance(1, 2) { format!("[{}]", self.uint()) } else { String::new() };
                format!("DECLARE {} {}{len}{sharing}", self.name(), self.r.pick(&["BIT", "REAL", "OCTET", "INTEGER"]))
            }
            30 => format!("DELAY {} {}", self.r.below(4), self.expr(1)),
            31 => format!("DELAY {} {} {}", self.r.below(4), self.qubit(), self.expr(1)),
            32 => format!("RAW-CAPTURE {} {} i[{}]", self.frame(), self.expr(1), self.r.below(3)),
            _ => self.gate(),
        }
    }
    fn nonblocking(&mut self) -> &'static str {
        if self.r.chance(1, 3) {
            "NONBLOCKING "
        } else {
            ""
        }
    }
    fn definition(&mut self, depth: u32) -> String {
        let ind = self.indent();
        match self.r.below(9) {
            0 => {
                // DEFFRAME
                let n = 1 + self.r.below(4);
                let mut s = format!("DEFFRAME {}:", self.frame());
                for _ in 0..n {
                    let v = if self.r.chance(1, 2) { self.string() } else { self.expr(1) };
                    s.push_str(&format!("\n{ind}{}: {v}", self.name()));
                }
                s
            }
            1 => {
                // DEFWAVEFORM
                format!("DEFWAVEFORM {}{}:\n{ind}{}", self.wf_name(), self.var_params(), self.exprs(1, 4, 1))
            }
            2 => {
                // DEFGATE matrix
                let rows = 1 + self.r.below(3);
                let as_matrix = if self.r.chance(1, 2) { " AS MATRIX" } else { "" };
                let mut s = format!("DEFGATE {}{}{as_matrix}:", self.name(), self.var_params());
                for _ in 0..rows {
                    s.push_str(&format!("\n{ind}{}", self.exprs(1, 3, 1)));
                }
                s
            }
            3 => {
                let n = 1 + self.r.below(5);
                let p = (0..n).map(|_| self.uint()).collect::<Vec<_>>().join(", ");
                format!("DEFGATE {} AS PERMUTATION:\n{ind}{p}", self.name())
            }
            4 => {
                // PAULI-SUM
                let args: Vec<String> = vec!["a".into(), "b".into(), self.name()];
                let n = 1 + self.r.below(3);
                let mut s = format!("DEFGATE {}{} {} AS PAULI-SUM:", self.name(), self.var_params(), args.join(" "));
                for _ in 0..n {
                    let k = 1 + self.r.below(3) as usize;
                    let word: String = (0..k).map(|_| *self.r.pick(&['I', 'X', 'Y', 'Z'])).collect();
                    let ar: Vec<String> = (0..k).map(|_| self.r.pick(&args).clone()).collect();
                    s.push_str(&format!("\n{ind}{word}({}) {}", self.expr(1), ar.join(" ")));
                }
                s
            }
            5 => {
                // SEQUENCE
                let args: Vec<String> = vec!["a".into(), "b".into()];
                let n = 1 + self.r.below(3);
                let mut s = format!("DEFGATE {}{} {} AS SEQUENCE:", self.name(), self.var_params(), args.join(" "));
                for _ in 0..n {
                    let k = self.r.below(3) as usize;
                    let ar: Vec<String> = (0..k).map(|_| self.r.pick(&args).clone()).collect();
                    s.push_str(&format!("\n{ind}{}{}{} {}", self.modifiers(), self.name(), self.params(), ar.join(" ")));
                }
                s
            }
            6 => {
                format!("DEFCAL {}{}{}{}:{}", self.modifiers(), self.name(), self.params(), self.qubits(0, 2), self.block(depth))
            }
            7 => {
                let bang = if self.r.chance(1, 4) { format!("!{}", self.name()) } else { String::new() };
                let target = if self.r.chance(1, 2) { format!(" {}", self.name()) } else { String::new() };
                format!("DEFCAL MEASURE{bang} {}{target}:{}", self.qubit(), self.block(depth))
            }
            _ => {
                let qs = (0..self.r.below(3))
                    .map(|_| if self.r.chance(1, 5) { format!(" %{}", self.name()) } else { format!(" {}", self.name()) })
                    .collect::<String>();
                format!("DEFCIRCUIT {}{}{qs}:{}", self.name(), self.var_params(), self.block(depth))
            }
        }
    }
    fn separator(&mut self) -> &'static str {
        match self.r.below(14) {
            0 => "\n\n",
            1 => " # c\n",
            2 => "\n# c\n",
            3 => "\r\n",
            _ => "\n",
        }
    }
    fn program(&mut self, max: u64) -> String {
        let n = 1 + self.r.below(max);
        let mut s = String::new();
        for _ in 0..n {
            if self.r.chance(1, 4) {
                s.push_str(&self.definition(1));
            } else {
                s.push_str(&self.simple_instruction(0));
                if self.r.chance(1, 20) {
                    s.push(';');
                    s.push_str(&self.simple_instruction(0));
                }
            }
            s.push_str(self.separator());
        }
        s
    }
}

/// definitions and uses that SHARE names across kinds (gate / circuit / waveform / region / extern / frame / label /
/// calibration), in random order with repeats
fn shared_names_program(rng: &mut Rng) -> String {
    const POOL: &[&str] = &["X", "BELL", "w", "ro"];
    let n = 3 + rng.below(8);
    let mut s = String::new();
    for _ in 0..n {
        let a = *rng.pick(POOL);
        let b = *rng.pick(POOL);
        let item = match rng.below(20) {
            0 => format!("DEFGATE {a} AS PERMUTATION:\n    0, 1"),
            1 => format!("DEFGATE {a}:\n    1, 0\n    0, 1"),
            2 => format!("DEFGATE {a}(%{b}) q AS SEQUENCE:\n    {b}(%{b}) q"),
            3 => format!("DEFCIRCUIT {a} q:\n    {b} q"),
            4 => format!("DEFCIRCUIT {a}(%{b}) {b}:\n    {a}(%{b}) {b}"),
            5 => format!("DEFWAVEFORM {a}:\n    1, 2"),
            6 => format!("DEFWAVEFORM {a}(%{b}):\n    %{b}"),
            7 => format!("DECLARE {a} BIT[2]"),
            8 => format!("DECLARE {a} REAL[1] SHARING {b} OFFSET 1 BIT"),
            9 => format!("PRAGMA EXTERN {a} \"INTEGER ({b} : INTEGER)\""),
            10 => format!("DEFFRAME 0 \"{a}\":\n    {b}: \"{a}\""),
            11 => format!("LABEL @{a}\nJUMP @{b}"),
            12 => format!("DEFCAL {a} 0:\n    {b} 0"),
            13 => format!("DEFCAL {a}(%{b}) {b}:\n    PULSE {b} \"{a}\" {a}({b}: %{b})"),
            14 => format!("DEFCAL MEASURE 0 {a}:\n    CAPTURE 0 \"{b}\" {a} {a}"),
            15 => format!("DEFCAL MEASURE {a} {b}:\n    MEASURE {a} {b}"),
            16 => format!("{a} 0"),
            17 => format!("CALL {a} {b} {b}[0] 1"),
            18 => format!("PULSE 0 \"{a}\" {b}({a}: 1, {b}: 2)"),
            _ => format!("MEASURE 0 {a}[0]\nJUMP-WHEN @{b} {a}[1]"),
        };
        s.push_str(&item);
        s.push('\n');
    }
    s
}

/// collections of more than 32 / 64 elements wherever the grammar has a list
fn large_programs(rng: &mut Rng) -> Vec<String> {
    let mut out = Vec::new();
    let perm = |rng: &mut Rng, n: usize| -> Vec<usize> {
        let mut v: Vec<usize> = (0..n).collect();
        for i in (1..n).rev() {
            let j = rng.below(i as u64 + 1) as usize;
            v.swap(i, j);
        }
        v
    };
    for &n in &[33usize, 40, 65, 70] {
        let qs: String = (0..n).map(|k| format!(" {k}")).collect();
        out.push(format!("G{qs}\nFENCE{qs}\nDELAY{qs} 1.5"));
        let keys = perm(rng, n);
        let ps: Vec<String> = keys.iter().map(|k| format!("k{k}: {k}")).collect();
        out.push(format!("PULSE 0 \"rf\" w({})\nCAPTURE 0 \"rf\" v({}) ro", ps.join(", "), ps.join(", ")));
        let ks2: Vec<String> = perm(rng, n).iter().map(|k| format!("p{}: {k}", k % 7 * 1000 + k)).collect();
        out.push(format!("DEFCAL X 0:\n    PULSE 0 \"rf\" w({})", ks2.join(", ")));
        let decls: String = perm(rng, n).iter().map(|k| format!("DECLARE r{} BIT[{k}]\n", k % 37)).collect();
        out.push(decls);
        let entries: Vec<String> = perm(rng, n).iter().map(|k| k.to_string()).collect();
        out.push(format!("DEFGATE P AS PERMUTATION:\n    {}", entries.join(", ")));
        let args: String = (0..n).map(|k| if k % 3 == 0 { format!(" a{k}") } else { format!(" {k}") }).collect();
        out.push(format!("PRAGMA P{args} \"d\"\nCALL f{args}"));
        let offs: String = (0..n).map(|k| format!(" {k} BIT")).collect();
        out.push(format!("DECLARE x BIT[{n}] SHARING y OFFSET{offs}"));
        let body: String = (0..n).map(|k| format!("\n    RX({k}) q")).collect();
        out.push(format!("DEFCIRCUIT C q:{body}\nDEFCAL Y q:{body}\nDEFCAL MEASURE q:{body}"));
        let attrs: String = perm(rng, n).iter().map(|k| format!("\n    A{k}: {k}")).collect();
        out.push(format!("DEFFRAME 0 \"f\":{attrs}"));
        let params: Vec<String> = (0..n).map(|k| format!("%p{k}")).collect();
        let row: Vec<String> = (0..n.min(40)).map(|k| format!("%p{k}")).collect();
        out.push(format!("DEFGATE M({}):\n    {}", params.join(", "), row.join(", ")));
        let gates: String = perm(rng, n).iter().map(|k| format!("DEFGATE g{}:\n    {k}\n", k % 41)).collect();
        out.push(gates);
    }
    out
}

/// one or two character- / word-level edits
fn mutate(rng: &mut Rng, text: &str) -> String {
    let mut chars: Vec<char> = text.chars().collect();
    let edits = 1 + rng.below(2);
    for _ in 0..edits {
        if chars.is_empty() {
            break;
        }
        let at = rng.below(chars.len() as u64) as usize;
        match rng.below(7) {
            0 => {
                chars.remove(at);
            }
            1 => {
                const INS: &[char] =
                    &[' ', '\n', '\t', '(', ')', '[', ']', ',', ':', '-', '+', '*', '/', '^', '%', '@', '"', '0', '1', 'i', 'e', '.', '!', ';', '#', 'a'];
                chars.insert(at, *rng.pick(INS));
            }
            2 => {
                let other = rng.below(chars.len() as u64) as usize;
                chars.swap(at, other);
            }
            3 => {
                // duplicate a word
                let start = chars[..at].iter().rposition(|c| c.is_whitespace()).map(|p| p + 1).unwrap_or(0);
                let end = chars[at..].iter().position(|c| c.is_whitespace()).map(|p| at + p).unwrap_or(chars.len());
                let mut word: Vec<char> = chars[start..end].to_vec();
                word.insert(0, ' ');
                let tail = chars.split_off(end);
                chars.extend(word);
                chars.extend(tail);
            }
            4 => {
                // delete a word
                let start = chars[..at].iter().rposition(|c| c.is_whitespace()).map(|p| p + 1).unwrap_or(0);
                let end = chars[at..].iter().position(|c| c.is_whitespace()).map(|p| at + p).unwrap_or(chars.len());
                chars.drain(start..end);
            }
            5 => {
                // replace a newline by a space or a space by a newline
                if let Some(p) = chars.iter().position(|&c| c == '\n') {
                    if rng.chance(1, 2) {
                        chars[p] = ' ';
                    } else if let Some(q) = chars.iter().rposition(|&c| c == ' ') {
                        chars[q] = '\n';
                    }
                }
            }
            _ => {
                // add four spaces (an indentation token) somewhere
                for _ in 0..4 {
                    chars.insert(at, ' ');
                }
            }
        }
    }
    chars.into_iter().collect()
}

fn main() {
    main_with(run)
}

fn run(ctx: &mut Ctx) {
    let (n_single, n_prog, n_mut) = if ctx.quick() { (6000, 4000, 4000) } else { (300_000, 200_000, 200_000) };

    // 1. corpus
    for t in CORPUS {
        text_case(ctx, "corpus", t);
    }
    // every corpus text also with its lines as separate programs
    for t in CORPUS {
        if !t.contains("\n    ") && !t.contains("\n\t") {
            for line in t.lines() {
                text_case(ctx, "corpus-line", line);
            }
        }
    }

    // 2. single instructions / single definitions
    let mut rng = ctx.rng(2);
    let mut accepted: Vec<String> = Vec::new();
    for k in 0..n_single {
        let text = {
            let mut g = G { r: &mut rng };
            if k % 3 == 0 {
                g.definition(1)
            } else {
                g.simple_instruction(0)
            }
        };
        if accepted.len() < 4000 && Program::from_str(&text).is_ok() {
            accepted.push(text.clone());
        }
        text_case(ctx, "single", &text);
    }
    // 3. programs
    let mut rng = ctx.rng(3);
    for _ in 0..n_prog {
        let text = G { r: &mut rng }.program(8);
        if accepted.len() < 8000 && Program::from_str(&text).is_ok() {
            accepted.push(text.clone());
        }
        text_case(ctx, "program", &text);
    }
    // 3b. definitions and uses sharing names across kinds; large collections
    let n_shared = if ctx.quick() { 1500 } else { 60_000 };
    let mut rng = ctx.rng(5);
    for _ in 0..n_shared {
        let text = shared_names_program(&mut rng);
        text_case(ctx, "shared-names", &text);
    }
    let mut rng = ctx.rng(6);
    for text in large_programs(&mut rng) {
        text_case(ctx, "large", &text);
    }
    // 4. mutations of accepted texts (corpus included)
    let mut rng = ctx.rng(4);
    let mut pool: Vec<String> = CORPUS.iter().map(|s| s.to_string()).collect();
    pool.extend(accepted);
    for _ in 0..n_mut {
        let base = rng.pick(&pool).clone();
        let text = mutate(&mut rng, &base);
        text_case(ctx, "mutated", &text);
    }
}
