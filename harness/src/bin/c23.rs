//! C23 — memory accesses are sequentially consistent in the dependency graph.
//!
//! Streams: (1) corpus of Quil programs (the feature-gated snapshot tests' inputs and witnesses);
//! (2) the real `DependencyQueue<MemoryAccessType>` driven through `verif_hooks::c23` with EVERY access
//! sequence over 2 regions x {read, write, capture} up to a length, each access by a new node, and with
//! every way of letting consecutive accesses share a node up to a shorter length; (3) every block up to a
//! length over an alphabet of handler answers (table-driven `InstructionHandler`) with three terminators,
//! through `ScheduledProgram::from_program`; (4) seeded random Quil programs with the default handler.
use std::collections::BTreeMap;

use qvh::sched::*;
use qvh::*;
use quil_rs::instruction::DefaultHandler;
use quil_rs::program::scheduling::{MemoryAccessType, ScheduledGraphNode};
use quil_rs::verif_hooks::c23::MemoryQueue;

const CORPUS: &[&str] = &[
    // graph.rs graphviz_dot_tests (not run by the pinned suite)
    "DECLARE params1 REAL[1]\nDECLARE params2 REAL[1]\nDECLARE params3 REAL[1]\nDECLARE integers INTEGER[1]\nLOAD params2[0] params3 integers[0]\nLOAD params1[0] params2 integers[0]\n",
    "DECLARE params1 REAL[1]\nDECLARE params2 REAL[1]\nDECLARE integers INTEGER[1]\nMUL params2[0] 2\nLOAD params1[0] params2 integers[0]\n",
    "DECLARE params1 REAL[1]\nADD params1[0] 1\nMUL params1[0] 2\n",
    "DECLARE params1 REAL[1]\nDECLARE params2 REAL[1]\nDECLARE integers INTEGER[1]\nLOAD params1[0] params2 integers[0]\nLOAD params2[0] params3 integers[0]\n",
    "DECLARE params1 REAL[1]\nDECLARE params2 REAL[1]\nDECLARE integers INTEGER[1]\nLOAD params1[0] params2 integers[0]\nMUL params2[0] 2\n",
    "DEFFRAME 0 \"rx\":\n    INITIAL-FREQUENCY: 1e8\nDEFFRAME 1 \"rx\":\n    INITIAL-FREQUENCY: 1e8\nDECLARE params1 REAL[1]\nDECLARE params2 REAL[1]\nDECLARE integers INTEGER[1]\nLOAD params2[0] params1 integers[0]\nSHIFT-PHASE 0 \"rf\" params2[0]\nLOAD params2[0] params1 integers[1]\nSHIFT-PHASE 1 \"rf\" params2[0]\n",
    "PRAGMA example",
    "DECLARE bits BIT[1]\nDECLARE integers INTEGER[1]\nLOAD bits[0] bits2 integers[0]\nNONBLOCKING CAPTURE 0 \"Transmon-0_readout_rx\" flat(duration: 2.0000000000000003e-06, iq: 1.0, scale: 1.0, phase: 0.8745492960861506, detuning: 0.0) bits[0]\nLOAD bits3[0] bits integers[0]\n",
    "DECLARE bits BIT[1]\nLOAD bits[0] bits2 integers[0]\nLOAD bits[0] bits3 integers[0]\nLOAD bits4[0] bits integers[0]\n",
    "DECLARE ro BIT\nDECLARE depends_on_ro BIT\nNONBLOCKING CAPTURE 0 \"ro_rx\" flat(duration: 2.0000000000000003e-06, iq: 1.0) ro\nMOVE depends_on_ro ro\nJUMP @eq\nLABEL @eq\nPULSE 0 \"ro_tx\" gaussian(duration: 1, fwhm: 2, t0: 3)\n",
    "DECLARE ro BIT\nNONBLOCKING CAPTURE 0 \"ro_rx\" flat(duration: 2.0000000000000003e-06, iq: 1.0) ro\nJUMP-WHEN @eq ro\nLABEL @eq\nPULSE 0 \"ro_tx\" gaussian(duration: 1, fwhm: 2, t0: 3)\n",
    "DECLARE ro BIT\nDECLARE depends_on_ro BIT\nNONBLOCKING CAPTURE 0 \"ro_rx\" flat(duration: 2.0000000000000003e-06, iq: 1.0) ro\nJUMP @eq\nLABEL @eq\nMOVE depends_on_ro ro\nPULSE 0 \"ro_tx\" gaussian(duration: 1, fwhm: 2, t0: 3)\n",
    "DEFFRAME 0 \"frame0\":\n    SAMPLE-RATE: 1000000000.0\nDEFFRAME 1 \"frame1\":\n    SAMPLE-RATE: 1000000000.0\nDELAY 2e-8\nDECLARE phase REAL\nMOVE phase 0.1\nSET-PHASE 0 \"frame0\" 2*pi*phase\nSET-PHASE 1 \"frame1\" 2*pi*phase\nPULSE 0 \"frame0\" flat(iq: 1, duration: 4e-9)\nPULSE 1 \"frame1\" flat(iq: 1, duration: 4e-9)\n",
    "DEFFRAME 0 \"frame0\":\n    SAMPLE-RATE: 1000000000.0\nDEFFRAME 1 \"frame1\":\n    SAMPLE-RATE: 1000000000.0\nDELAY 2e-8\nDECLARE phase REAL[2]\nMOVE phase[0] 0.1\nMOVE phase[1] 0.1\nSET-PHASE 0 \"frame0\" 2*pi*phase[0]\nSET-PHASE 1 \"frame1\" 2*pi*phase[1]\nPULSE 0 \"frame0\" flat(iq: 1, duration: 4e-9)\nPULSE 1 \"frame1\" flat(iq: 1, duration: 4e-9)\n",
    // witnesses: read/read/write/read; instruction reading and writing the same region; exchange; store
    "MOVE b[0] a[0]\nMOVE c[0] a[0]\nMOVE a[0] 1\nMOVE b[0] a[0]\n",
    "ADD a[0] a[0]\nADD a[0] a[0]\n",
    "EXCHANGE a[0] b[0]\nEXCHANGE b[0] a[0]\nSTORE a b[0] c[0]\nLOAD c[0] a b[0]\n",
    // read set overlapping the capture set of ONE instruction (waveform parameter / duration mention the target
    // region): a generator gap found by an independently seeded mutation
    "DEFFRAME 0 \"ro_rx\":\n    SAMPLE-RATE: 1.0\nCAPTURE 0 \"ro_rx\" flat(duration: 1.0, iq: ro[1]) ro[0]\n",
    "DEFFRAME 0 \"ro_rx\":\n    SAMPLE-RATE: 1.0\nRAW-CAPTURE 0 \"ro_rx\" ro[0] ro\n",
    "DEFFRAME 0 \"ro_rx\":\n    SAMPLE-RATE: 1.0\nMOVE ro[0] 1\nNONBLOCKING CAPTURE 0 \"ro_rx\" flat(duration: 1.0, iq: ro[1], scale: b[0]) ro[0]\nMOVE b[0] ro[1]\nRAW-CAPTURE 0 \"ro_rx\" b[0] ro[2]\n",
    "EXCHANGE a[0] a[1]\nSTORE a a[0] a[1]\nLOAD a[0] a a[1]\n",
    // error paths
    "MOVE a[0] 1\nX 0\n",
    "MOVE a[0] 1\nWAIT\nMOVE a[0] 2\n",
    "CALL nope a[0]\n",
    "PRAGMA EXTERN foo \"(x : INTEGER)\"\nCALL foo 1\nMOVE a[0] 1\n",
    "PRAGMA EXTERN foo \"INTEGER (x : mut INTEGER)\"\nDECLARE a INTEGER\nDECLARE b INTEGER\nCALL foo a[0] b[0]\nMOVE b[0] a[0]\n",
    "PRAGMA EXTERN foo \"not a signature\"\nMOVE a[0] 1\n",
    "",
    "LABEL @a\nLABEL @b\nJUMP @a\n",
];

fn program_case(ctx: &mut Ctx, tag: &str, program: &quil_rs::Program) {
    let input = project_program(program, &DefaultHandler);
    ctx.case(tagged(tag, vec![input]), || run_from_program(program, &DefaultHandler));
}

fn ast_case(ctx: &mut Ctx, text: &str) {
    let instructions = parsed_instructions(text);
    let (program, parts) = ast_parts(&instructions);
    ctx.case(tagged("ast", parts), || run_from_program(&program, &DefaultHandler));
}

fn kind_of(k: u8) -> MemoryAccessType {
    match k {
        0 => MemoryAccessType::Read,
        1 => MemoryAccessType::Write,
        _ => MemoryAccessType::Capture,
    }
}

fn kind_rank(k: MemoryAccessType) -> u8 {
    match k {
        MemoryAccessType::Read => 0,
        MemoryAccessType::Write => 1,
        MemoryAccessType::Capture => 2,
    }
}

fn deps_sexp(mut v: Vec<(MemoryAccessType, ScheduledGraphNode)>) -> Sexp {
    let mut w: Vec<(u8, u64)> = v.drain(..).map(|(k, n)| (kind_rank(k), node_code(1000, n))).collect();
    w.sort();
    w.dedup();
    list(w.into_iter().map(|(k, n)| list(vec![atom(kind_atom(kind_of(k))), nat(n)])).collect())
}

/// history = (node index, region, kind); drives one real queue per region, as `build` does
fn history_case(ctx: &mut Ctx, history: &[(u64, u64, u8)]) {
    let input = tagged(
        "mq",
        history.iter().map(|&(n, r, k)| list(vec![nat(n + 1), nat(r), atom(kind_atom(kind_of(k)))])).collect(),
    );
    ctx.case(input, || {
        let mut queues: BTreeMap<u64, MemoryQueue> = BTreeMap::new();
        let mut steps = Vec::new();
        for &(n, r, k) in history {
            let deps =
                queues.entry(r).or_default().record(ScheduledGraphNode::InstructionIndex(n as usize), kind_of(k));
            steps.push(deps_sexp(deps));
        }
        let pending = queues.into_iter().map(|(r, q)| list(vec![nat(r), deps_sexp(q.into_pending())])).collect();
        list(vec![tagged("deps", steps), tagged("pending", pending)])
    });
}

/// every sequence of `len` symbols below `base`
fn all_seqs(len: usize, base: u64, f: &mut impl FnMut(&[u64])) {
    let mut idx = vec![0u64; len];
    loop {
        f(&idx);
        let mut k = len;
        loop {
            if k == 0 {
                return;
            }
            k -= 1;
            idx[k] += 1;
            if idx[k] < base {
                break;
            }
            idx[k] = 0;
        }
    }
}

pub fn table() -> TableHandler {
    let c = |reads: &[usize], writes: &[usize]| Row {
        role: 0,
        reads: reads.to_vec(),
        writes: writes.to_vec(),
        ..Row::default()
    };
    TableHandler {
        rows: vec![
            c(&[0], &[]),                                                                                  // 0: R a
            c(&[], &[0]),                                                                                  // 1: W a
            c(&[0], &[0]),                                                                                 // 2: R a, W a
            c(&[1], &[0]),                                                                                 // 3: R b, W a
            c(&[0], &[1]),                                                                                 // 4: R a, W b
            Row { role: 1, scheduled: true, captures: vec![0], frames: Some((vec![0], vec![])), ..Row::default() }, // 5: capture a
            c(&[0, 1], &[]),                                                                               // 6: R a, R b
            Row { role: 1, scheduled: false, writes: vec![0], captures: vec![0], frames: None, ..Row::default() }, // 7: W a + C a, no frames
            c(&[], &[]),                                                                                   // 8: nothing
            Row { role: 1, scheduled: true, reads: vec![0], captures: vec![0], frames: Some((vec![0], vec![])), ..Row::default() }, // 9: read a + capture a
            Row { role: 1, scheduled: true, reads: vec![0], writes: vec![0], captures: vec![0], frames: Some((vec![1], vec![])), ..Row::default() }, // 10: read + write + capture a
            Row { role: 1, scheduled: true, reads: vec![0, 1], captures: vec![0], frames: None, ..Row::default() }, // 11: read a, b + capture a
            Row { role: 1, scheduled: true, reads: vec![1], captures: vec![0], frames: Some((vec![0], vec![])), ..Row::default() }, // 12: read b + capture a
        ],
    }
}

fn main() {
    main_with(run)
}

fn run(ctx: &mut Ctx) {
    let quick = ctx.quick();
    // 1. corpus
    for text in CORPUS {
        let program = parse(text);
        program_case(ctx, "corpus", &program);
    }

    // 2a. every access sequence over 2 regions x 3 kinds, one new node per access
    let max_len = if quick { 5 } else { 7 };
    for len in 0..=max_len {
        all_seqs(len, 6, &mut |s| {
            let h: Vec<(u64, u64, u8)> =
                s.iter().enumerate().map(|(i, &x)| (i as u64, x / 3, (x % 3) as u8)).collect();
            history_case(ctx, &h);
        });
    }
    // 2b. consecutive accesses may share their node (an instruction accessing several regions / kinds)
    let max_shared = if quick { 4 } else { 6 };
    for len in 2..=max_shared {
        all_seqs(len, 12, &mut |s| {
            if s[0] >= 6 || s.iter().all(|&x| x < 6) {
                return; // first symbol's flag is meaningless; all-distinct is stream 2a
            }
            let mut node = 0u64;
            let mut h = Vec::new();
            for (i, &x) in s.iter().enumerate() {
                if i > 0 && x < 6 {
                    node += 1;
                }
                let y = x % 6;
                h.push((node, y / 3, (y % 3) as u8));
            }
            history_case(ctx, &h);
        });
    }

    // 3. every block up to a length over the table alphabet, three terminators
    let handler = table();
    let nrows = handler.rows.len() as u64;
    let max_block = if quick { 4 } else { 5 };
    let terminators: [Option<&str>; 3] = [None, Some("JUMP-WHEN @x ma[0]"), Some("HALT")];
    for len in 0..=max_block {
        all_seqs(len, nrows, &mut |s| {
            for t in terminators {
                let mut body: Vec<Result<usize, String>> = s.iter().map(|&k| Ok(k as usize)).collect();
                if let Some(t) = t {
                    body.push(Err(t.to_string()));
                }
                let program = handler.program(&body);
                let input = project_program(&program, &handler);
                ctx.case(tagged("table", vec![input]), || run_from_program(&program, &handler));
            }
        });
    }

    // 4. random programs, default handler: classical-heavy, then mixed with RF and control flow
    let n_random = if quick { 4000 } else { 150_000 };
    let mut rng = ctx.rng(23);
    for i in 0..n_random {
        let cfg = match i % 4 {
            0 => ProgCfg { nframes: 0, nreg: 2, max_len: 8, rf_pct: 0, cf_pct: 0, bad_permille: 0 },
            1 => ProgCfg { nframes: 3, nreg: 2, max_len: 10, rf_pct: 35, cf_pct: 8, bad_permille: 5 },
            2 => ProgCfg { nframes: 11, nreg: 3, max_len: 14, rf_pct: 50, cf_pct: 12, bad_permille: 10 },
            _ => ProgCfg { nframes: 2, nreg: 1, max_len: 12, rf_pct: 25, cf_pct: 5, bad_permille: 0 },
        };
        let text = program_text(&mut rng, &cfg);
        let program = parse(&text);
        program_case(ctx, "random", &program);
    }

    // 5. "ast" stream: the program crosses the wire as the full AST; the driver derives blocks and the
    //    handler's answers itself (HandlerFromAst) — corpus, then random programs with definitions, CALLs
    //    and expressions carrying memory references
    for text in CORPUS {
        ast_case(ctx, text);
    }
    let n_ast = if quick { 3000 } else { 100_000 };
    let mut rng = ctx.rng(123);
    for i in 0..n_ast {
        let cfg = match i % 3 {
            0 => ProgCfg { nframes: 0, nreg: 3, max_len: 10, rf_pct: 0, cf_pct: 5, bad_permille: 0 },
            1 => ProgCfg { nframes: 3, nreg: 2, max_len: 10, rf_pct: 35, cf_pct: 8, bad_permille: 5 },
            _ => ProgCfg { nframes: 11, nreg: 3, max_len: 14, rf_pct: 50, cf_pct: 12, bad_permille: 10 },
        };
        let text = ast_program_text(&mut rng, &cfg);
        ast_case(ctx, &text);
    }
    // self-audit streams: (a) SEQUENCES on one Program object (add half, schedule, add the rest, schedule twice:
    // `used_qubits` is maintained incrementally and matters for bare RESET); (b) large shapes (> 64 instructions,
    // > 32 frames / regions per instruction); (c) API-only placeholder qubits / targets (projected stream only)
    let mut rng = ctx.rng(223);
    let n_staged = if quick { 300 } else { 20_000 };
    for i in 0..n_staged {
        let cfg = ProgCfg { nframes: 3 + (i % 3) as usize, nreg: 2, max_len: 10, rf_pct: 70, cf_pct: 8, bad_permille: 0 };
        let mut text = ast_program_text(&mut rng, &cfg);
        text.push_str(if i % 2 == 0 { "RESET\nFENCE 1\nDELAY 2 1.0\n" } else { "FENCE 2\nRESET\n" });
        let instructions = parsed_instructions(&text);
        let cut = rng.below(instructions.len() as u64 + 1) as usize;
        staged_ast_cases(ctx, &instructions, cut);
    }
    for text in large_programs(&mut rng) {
        let program = parse(&text);
        let input = project_program(&program, &DefaultHandler);
        ctx.case(tagged("corpus", vec![input]), || run_from_program(&program, &DefaultHandler));
        let instructions = parsed_instructions(&text);
        let (program, parts) = ast_parts(&instructions);
        ctx.case(tagged("ast", parts), || run_from_program(&program, &DefaultHandler));
    }
    for program in placeholder_programs() {
        let input = project_program(&program, &DefaultHandler);
        ctx.case(tagged("corpus", vec![input]), || run_from_program(&program, &DefaultHandler));
    }

}
