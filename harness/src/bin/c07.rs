//! C07 — quoted strings survive printing and parsing unchanged.
use qvh::*;
use quil_rs::expression::Expression;
use quil_rs::instruction::{
    AttributeValue, CalibrationDefinition, CalibrationIdentifier, CircuitDefinition, Delay, FrameAttributes,
    FrameDefinition, FrameIdentifier, Include, Instruction, MeasureCalibrationDefinition, MeasureCalibrationIdentifier,
    Capture, MemoryReference, Pragma, PragmaArgument, Pulse, Qubit, RawCapture, SetFrequency, ShiftPhase, SwapPhases,
    WaveformInvocation,
};
use quil_rs::quil::Quil;
use quil_rs::verif_hooks;
use quil_rs::Program;
use std::str::FromStr;

const ALPHABET: [char; 8] = ['"', '\\', '\n', '#', ';', ' ', 'a', 'b'];
const POSITIONS: [&str; 5] = ["pragmaData", "includeFile", "frameIdent", "delayFrame", "frameAttr"];

/// All strings over ALPHABET of length exactly `len`.
fn all_strings(len: usize, f: &mut impl FnMut(&str)) {
    let mut idx = vec![0usize; len];
    loop {
        let s: String = idx.iter().map(|&i| ALPHABET[i]).collect();
        f(&s);
        let mut k = len;
        loop {
            if k == 0 {
                return;
            }
            k -= 1;
            idx[k] += 1;
            if idx[k] < ALPHABET.len() {
                break;
            }
            idx[k] = 0;
        }
    }
}

fn random_string(rng: &mut Rng, max_len: u64) -> String {
    const EXTRA: [char; 10] = ['"', '\\', '\n', '\t', 'é', '量', '\u{1F600}', '\'', '%', '\r'];
    let len = rng.below(max_len + 1);
    (0..len)
        .map(|_| {
            if rng.chance(1, 2) {
                *rng.pick(&ALPHABET)
            } else if rng.chance(1, 2) {
                *rng.pick(&EXTRA)
            } else {
                char::from_u32(32 + rng.below(95) as u32).unwrap()
            }
        })
        .collect()
}

fn build(pos: &str, s: &str) -> Instruction {
    let frame = |name: &str| FrameIdentifier { name: name.to_string(), qubits: vec![Qubit::Fixed(0)] };
    match pos {
        "pragmaData" => Instruction::Pragma(Pragma::new("NAME".to_string(), vec![], Some(s.to_string()))),
        "includeFile" => Instruction::Include(Include { filename: s.to_string() }),
        "frameIdent" => Instruction::Pulse(Pulse {
            blocking: true,
            frame: frame(s),
            waveform: WaveformInvocation { name: "w".to_string(), parameters: Default::default() },
        }),
        "delayFrame" => Instruction::Delay(Delay {
            duration: Expression::Number(num_complex::Complex64::new(1.0, 0.0)),
            frame_names: vec![s.to_string()],
            qubits: vec![Qubit::Fixed(0)],
        }),
        "frameAttr" => {
            let mut attributes = FrameAttributes::new();
            attributes.insert("DIRECTION".to_string(), AttributeValue::String(s.to_string()));
            Instruction::FrameDefinition(FrameDefinition { identifier: frame("f"), attributes })
        }
        _ => unreachable!(),
    }
}

fn extract(pos: &str, i: &Instruction) -> Option<String> {
    match (pos, i) {
        ("pragmaData", Instruction::Pragma(p)) => p.data.clone(),
        ("includeFile", Instruction::Include(i)) => Some(i.filename.clone()),
        ("frameIdent", Instruction::Pulse(p)) => Some(p.frame.name.clone()),
        ("delayFrame", Instruction::Delay(d)) if d.frame_names.len() == 1 => Some(d.frame_names[0].clone()),
        ("frameAttr", Instruction::FrameDefinition(d)) => match d.attributes.get("DIRECTION") {
            Some(AttributeValue::String(s)) => Some(s.clone()),
            _ => None,
        },
        _ => None,
    }
}

const PLACES: [&str; 3] = ["defcal", "defcalMeasure", "defcircuit"];
/// positions that may sit inside a definition body (the parser rejects DEFFRAME there; INCLUDE is kept)
const BODY_POSITIONS: [&str; 4] = ["pragmaData", "includeFile", "frameIdent", "delayFrame"];

fn wrap(place: &str, inner: Instruction) -> Instruction {
    match place {
        "defcal" => Instruction::CalibrationDefinition(CalibrationDefinition {
            identifier: CalibrationIdentifier {
                modifiers: vec![],
                name: "X".to_string(),
                parameters: vec![],
                qubits: vec![Qubit::Fixed(0)],
            },
            instructions: vec![inner],
        }),
        "defcalMeasure" => Instruction::MeasureCalibrationDefinition(MeasureCalibrationDefinition {
            identifier: MeasureCalibrationIdentifier::new(None, Qubit::Fixed(0), Some("addr".to_string())),
            instructions: vec![inner],
        }),
        "defcircuit" => Instruction::CircuitDefinition(CircuitDefinition {
            name: "C".to_string(),
            parameters: vec![],
            qubit_variables: vec![],
            instructions: vec![inner],
        }),
        _ => unreachable!(),
    }
}

fn unwrap_body(place: &str, outer: &Instruction) -> Option<Instruction> {
    let body = match (place, outer) {
        ("defcal", Instruction::CalibrationDefinition(d)) => &d.instructions,
        ("defcalMeasure", Instruction::MeasureCalibrationDefinition(d)) => &d.instructions,
        ("defcircuit", Instruction::CircuitDefinition(d)) => &d.instructions,
        _ => return None,
    };
    if body.len() == 1 {
        Some(body[0].clone())
    } else {
        None
    }
}

/// a string-bearing instruction inside the body of a definition
fn placed_case(ctx: &mut Ctx, place: &'static str, pos: &'static str, s: &str) {
    let s = s.to_string();
    ctx.case(tagged("placed", vec![atom(place), atom(pos), st(s.clone())]), || {
        let instruction = wrap(place, build(pos, &s));
        let text = match instruction.to_quil() {
            Ok(t) => t,
            Err(_) => return tagged("printerr", vec![]),
        };
        let back = match Program::from_str(&text) {
            Ok(p) => {
                let is = p.to_instructions();
                match (is.len(), is.first().and_then(|o| unwrap_body(place, o))) {
                    (1, Some(inner)) => match extract(pos, &inner) {
                        Some(b) => tagged("reparsed", vec![st(b)]),
                        None => tagged("err", vec![]),
                    },
                    _ => tagged("err", vec![]),
                }
            }
            Err(_) => tagged("err", vec![]),
        };
        tagged("printed", vec![st(text), back])
    });
}

/// More string-bearing positions, checked against a template taken from the implementation's own
/// output for a benign sentinel string (so no per-position text is hard-coded in the model):
/// `(tmpl name pre post s)` where printing the sentinel gave `pre ++ "\"QVSENTINEL\"" ++ post`.
const SENTINEL: &str = "QVSENTINEL";
const MORE_POSITIONS: [&str; 11] = [
    "defframeName", "swapFirst", "swapSecond", "captureFrame", "rawCaptureFrame", "setFrequencyFrame",
    "shiftPhaseFrame", "delaySecondOfTwo", "pragmaExternData", "nbPulseFrame", "pragmaExternBare",
];

fn build_more(pos: &str, s: &str) -> Instruction {
    let frame = |name: &str, q: u64| FrameIdentifier { name: name.to_string(), qubits: vec![Qubit::Fixed(q)] };
    let one = || Expression::Number(num_complex::Complex64::new(1.0, 0.0));
    let wf = || WaveformInvocation { name: "w".to_string(), parameters: Default::default() };
    let mref = || MemoryReference { name: "ro".to_string(), index: 0 };
    match pos {
        "defframeName" => {
            let mut attributes = FrameAttributes::new();
            attributes.insert("DIRECTION".to_string(), AttributeValue::String("tx".to_string()));
            Instruction::FrameDefinition(FrameDefinition { identifier: frame(s, 0), attributes })
        }
        "swapFirst" => Instruction::SwapPhases(SwapPhases { frame_1: frame(s, 0), frame_2: frame("b", 1) }),
        "swapSecond" => Instruction::SwapPhases(SwapPhases { frame_1: frame("a", 0), frame_2: frame(s, 1) }),
        "captureFrame" => Instruction::Capture(Capture { blocking: true, frame: frame(s, 0), memory_reference: mref(), waveform: wf() }),
        "rawCaptureFrame" => Instruction::RawCapture(RawCapture { blocking: false, frame: frame(s, 0), duration: one(), memory_reference: mref() }),
        "setFrequencyFrame" => Instruction::SetFrequency(SetFrequency { frame: frame(s, 0), frequency: one() }),
        "shiftPhaseFrame" => Instruction::ShiftPhase(ShiftPhase { frame: frame(s, 0), phase: one() }),
        "delaySecondOfTwo" => Instruction::Delay(Delay { duration: one(), frame_names: vec!["a".to_string(), s.to_string()], qubits: vec![Qubit::Fixed(0)] }),
        "pragmaExternData" => Instruction::Pragma(Pragma::new(
            "EXTERN".to_string(),
            vec![PragmaArgument::Identifier("foo".to_string())],
            Some(s.to_string()),
        )),
        "pragmaExternBare" => Instruction::Pragma(Pragma::new("EXTERN".to_string(), vec![], Some(s.to_string()))),
        "nbPulseFrame" => Instruction::Pulse(Pulse { blocking: false, frame: frame(s, 0), waveform: wf() }),
        _ => unreachable!(),
    }
}

fn extract_more(pos: &str, i: &Instruction) -> Option<String> {
    match (pos, i) {
        ("defframeName", Instruction::FrameDefinition(d)) => Some(d.identifier.name.clone()),
        ("swapFirst", Instruction::SwapPhases(x)) => Some(x.frame_1.name.clone()),
        ("swapSecond", Instruction::SwapPhases(x)) => Some(x.frame_2.name.clone()),
        ("captureFrame", Instruction::Capture(x)) => Some(x.frame.name.clone()),
        ("rawCaptureFrame", Instruction::RawCapture(x)) => Some(x.frame.name.clone()),
        ("setFrequencyFrame", Instruction::SetFrequency(x)) => Some(x.frame.name.clone()),
        ("shiftPhaseFrame", Instruction::ShiftPhase(x)) => Some(x.frame.name.clone()),
        ("delaySecondOfTwo", Instruction::Delay(x)) if x.frame_names.len() == 2 => Some(x.frame_names[1].clone()),
        ("pragmaExternData", Instruction::Pragma(x)) | ("pragmaExternBare", Instruction::Pragma(x)) => x.data.clone(),
        ("nbPulseFrame", Instruction::Pulse(x)) => Some(x.frame.name.clone()),
        _ => None,
    }
}

/// `place` = "top" or one of PLACES; `pos` from MORE_POSITIONS. Both printing routes are used.
fn tmpl_case(ctx: &mut Ctx, place: &'static str, pos: &'static str, s: &str) {
    let wrap_it = |i: Instruction| if place == "top" { i } else { wrap(place, i) };
    // body-incapable combinations
    if place != "top" && (pos == "defframeName" || pos == "pragmaExternData" || pos == "pragmaExternBare") {
        return;
    }
    let probe = match wrap_it(build_more(pos, SENTINEL)).to_quil() {
        Ok(t) => t,
        Err(_) => return,
    };
    let needle = format!("\"{SENTINEL}\"");
    let Some(at) = probe.find(&needle) else { return };
    let (pre, post) = (probe[..at].to_string(), probe[at + needle.len()..].to_string());
    let s = s.to_string();
    ctx.case(tagged("tmpl", vec![atom(format!("{place}-{pos}")), st(pre), st(post), st(s.clone())]), || {
        let instruction = wrap_it(build_more(pos, &s));
        let text = match instruction.to_quil() {
            Ok(t) => t,
            Err(_) => return tagged("printerr", vec![]),
        };
        // the debug printing route must agree when nothing needs the fallback
        if instruction.to_quil_or_debug() != text {
            return tagged("routes-differ", vec![st(text), st(instruction.to_quil_or_debug())]);
        }
        let back = match Program::from_str(&text) {
            Ok(p) => {
                // PRAGMA EXTERN is routed to the extern map; to_instructions lists it again
                let is = p.to_instructions();
                let inner = if place == "top" { is.first().cloned() } else { is.first().and_then(|o| unwrap_body(place, o)) };
                match (is.len(), inner) {
                    (1, Some(inner)) => match extract_more(pos, &inner) {
                        Some(b) => tagged("reparsed", vec![st(b)]),
                        None => tagged("err", vec![]),
                    },
                    _ => tagged("err", vec![]),
                }
            }
            Err(e) => {
                let _ = (e.to_string(), format!("{e:?}"));
                tagged("err", vec![])
            }
        };
        tagged("printed", vec![st(text), back])
    });
}

fn pos_case(ctx: &mut Ctx, pos: &'static str, s: &str) {
    let s = s.to_string();
    ctx.case(tagged("pos", vec![atom(pos), st(s.clone())]), || {
        let instruction = build(pos, &s);
        let text = match instruction.to_quil() {
            Ok(t) => t,
            Err(_) => return tagged("printerr", vec![]),
        };
        let back = match Program::from_str(&text) {
            Ok(p) => {
                let is = p.to_instructions();
                if is.len() == 1 {
                    match extract(pos, &is[0]) {
                        Some(b) => tagged("reparsed", vec![st(b)]),
                        None => tagged("err", vec![]),
                    }
                } else {
                    tagged("err", vec![])
                }
            }
            Err(_) => tagged("err", vec![]),
        };
        tagged("printed", vec![st(text), back])
    });
}

fn main() {
    main_with(run)
}

fn run(ctx: &mut Ctx) {
    let (lex_len, quote_len, pos_len, n_random) = if ctx.quick() { (4, 4, 3, 4000) } else { (6, 6, 5, 200_000) };

    // 1. the string lexer on arbitrary text that starts with a quote (and a few that do not)
    for len in 0..=lex_len {
        all_strings(len, &mut |body| {
            let t = format!("\"{body}");
            ctx.case(tagged("lex", vec![st(t.clone())]), || match verif_hooks::unescaped_quoted_string(&t) {
                Some((parsed, rest)) => tagged("ok", vec![st(parsed), st(rest)]),
                None => tagged("err", vec![]),
            });
        });
    }
    for t in ["", "a\"b\"", " \"a\"", "\\\"a\""] {
        ctx.case(tagged("lex", vec![st(t)]), || match verif_hooks::unescaped_quoted_string(t) {
            Some((parsed, rest)) => tagged("ok", vec![st(parsed), st(rest)]),
            None => tagged("err", vec![]),
        });
    }
    // 2. the printer's quoting
    for len in 0..=quote_len {
        all_strings(len, &mut |s| {
            ctx.case(tagged("quote", vec![st(s)]), || tagged("str", vec![st(verif_hooks::quoted_string(s))]));
        });
    }
    // 3. every string-bearing position: print, re-parse, read the string back
    for pos in POSITIONS {
        for len in 0..=pos_len {
            all_strings(len, &mut |s| pos_case(ctx, pos, s));
        }
    }
    // 3b. the same positions inside the body of a DEFCAL, DEFCAL MEASURE and DEFCIRCUIT definition
    for place in PLACES {
        for pos in BODY_POSITIONS {
            for len in 0..=(pos_len - 1) {
                all_strings(len, &mut |s| placed_case(ctx, place, pos, s));
            }
        }
    }
    // 3c. ten more positions, at top level and inside every body kind, templates taken from the
    //     implementation's own output for a sentinel string
    for place in ["top", "defcal", "defcalMeasure", "defcircuit"] {
        for pos in MORE_POSITIONS {
            for len in 0..=(pos_len - 1) {
                all_strings(len, &mut |s| tmpl_case(ctx, place, pos, s));
            }
        }
    }
    // 3d. strings that MEAN something to some consumer of the program (extern signatures in canonical and
    //     non-canonical spelling, keywords, numbers, attribute keys and values, Quil syntax), in every position
    //     and place: a string is data wherever it sits, whoever else could parse it
    const SPECIAL: [&str; 40] = [
        "REAL", "REAL ", " REAL", " BIT ", "OCTET  ", "INTEGER", "(x : INTEGER)", "( x : INTEGER )", "(x:INTEGER)",
        "INTEGER (x : REAL, y : mut BIT[2])", "INTEGER (x:REAL,y : mut BIT[2])", "INTEGER  (x : mut REAL[3])",
        "real", "(x : integer)", "tx", "rx", "TX", "DIRECTION", "SAMPLE-RATE", "1.0", "1", "1e3", "0x10", "pi", "i",
        "true", "DEFCAL", "PRAGMA", "EXTERN", "NONBLOCKING", "%a", "@a", "{q}", "ro[0]", "a b", "a  b", "\t", " ",
        "QVSENTINEL", "# c",
    ];
    for sp in SPECIAL {
        for pos in POSITIONS {
            pos_case(ctx, pos, sp);
        }
        for place in PLACES {
            for pos in BODY_POSITIONS {
                placed_case(ctx, place, pos, sp);
            }
        }
        for place in ["top", "defcal", "defcalMeasure", "defcircuit"] {
            for pos in MORE_POSITIONS {
                tmpl_case(ctx, place, pos, sp);
            }
        }
    }
    // 4. random longer strings (Unicode, control characters) in every position and through the lexer
    let mut rng = ctx.rng(7);
    for _ in 0..n_random {
        let s = random_string(&mut rng, 40);
        let pos = *rng.pick(&POSITIONS);
        pos_case(ctx, pos, &s);
        if rng.chance(1, 2) {
            placed_case(ctx, *rng.pick(&PLACES), *rng.pick(&BODY_POSITIONS), &s);
        }
        tmpl_case(ctx, *rng.pick(&["top", "defcal", "defcalMeasure", "defcircuit"]), *rng.pick(&MORE_POSITIONS), &s);
        let t = format!("{}{}", verif_hooks::quoted_string(&s), random_string(&mut rng, 6));
        ctx.case(tagged("lex", vec![st(t.clone())]), || match verif_hooks::unescaped_quoted_string(&t) {
            Some((parsed, rest)) => tagged("ok", vec![st(parsed), st(rest)]),
            None => tagged("err", vec![]),
        });
    }
}
