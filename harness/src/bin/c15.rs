//! C15 — gate modifiers, daggers and program unitaries compose correctly.
//! Streams: (1) corpus, (2) every modifier stack up to depth 4 over 6 base gates, built through
//! `Gate::dagger/controlled/forked`, placed into ≤ 5 qubits, through `Gate::to_unitary`; (3) the builder API
//! itself (`api` cases); (4) random gate-only programs (some with HALT / a non-gate) through
//! `Program::to_unitary`, `Program::dagger` and the dagger program's `to_unitary`.
use qvh::gatewire::*;
use qvh::*;
use quil_rs::expression::Expression;
use quil_rs::instruction::{Gate, GateModifier, Instruction, Qubit};
use quil_rs::Program;

fn unitary_case(ctx: &mut Ctx, g: &Gate, n: u64) {
    let input = tagged("unitary", vec![gate_to_sexp(g), nat(n)]);
    let mut g = g.clone();
    ctx.case(input, move || unitary_result(g.to_unitary(n)));
}

fn fixed(qs: &[u64]) -> Vec<Qubit> {
    qs.iter().map(|q| Qubit::Fixed(*q)).collect()
}

fn raw(name: &str, params: Vec<Expression>, qubits: &[u64], modifiers: Vec<GateModifier>) -> Gate {
    Gate { name: name.to_string(), parameters: params, qubits: fixed(qubits), modifiers }
}

/// base gates of the exhaustive stream: (name, qubits, parameters)
const BASES: [(&str, usize, usize); 6] = [("X", 1, 0), ("H", 1, 0), ("RX", 1, 1), ("PHASE", 1, 1), ("CNOT", 2, 0), ("PSWAP", 2, 1)];

fn all_stacks(depth: usize) -> Vec<Vec<GateModifier>> {
    let mut out = vec![vec![]];
    let mut layer: Vec<Vec<GateModifier>> = vec![vec![]];
    for _ in 0..depth {
        let mut next = Vec::new();
        for s in &layer {
            for m in [GateModifier::Controlled, GateModifier::Dagger, GateModifier::Forked] {
                let mut t = s.clone();
                t.push(m);
                next.push(t);
            }
        }
        out.extend(next.iter().cloned());
        layer = next;
    }
    out
}

/// Build `stack name(params) qubits` through the public builder API, innermost modifier first.
/// `stack` is outermost-first; `qubits` is the final qubit list (modifier qubits first, then the base's).
fn build_via_api(stack: &[GateModifier], name: &str, base_params: usize, qubits: &[u64], rng: &mut Rng, angle_ix: &mut usize) -> Gate {
    let extra = stack.iter().filter(|m| !matches!(m, GateModifier::Dagger)).count();
    let base_qubits = &qubits[extra..];
    let mut next_angle = |rng: &mut Rng| {
        let a = angle(rng, *angle_ix);
        *angle_ix += 1;
        real(a)
    };
    let params: Vec<Expression> = (0..base_params).map(|_| next_angle(rng)).collect();
    let mut g = Gate::new(name, params, fixed(base_qubits), vec![]).expect("valid gate");
    let mut q_ix = extra;
    for m in stack.iter().rev() {
        match m {
            GateModifier::Dagger => g = g.dagger(),
            GateModifier::Controlled => {
                q_ix -= 1;
                g = g.controlled(Qubit::Fixed(qubits[q_ix]));
            }
            GateModifier::Forked => {
                q_ix -= 1;
                let alt: Vec<Expression> = (0..g.parameters.len()).map(|_| next_angle(rng)).collect();
                g = g.forked(Qubit::Fixed(qubits[q_ix]), alt).expect("same number of parameters");
            }
        }
    }
    g
}

fn prog_results(p: &Program, n: u64) -> Sexp {
    let r1 = program_unitary_result(p.to_unitary(n));
    let d = match p.dagger() {
        Err(e) => {
            let _ = format!("{e} {e:#} {e:?}");
            tagged("dagger-err", vec![])
        }
        Ok(dp) => {
            let body = dp.to_instructions();
            let r2 = program_unitary_result(dp.to_unitary(n));
            tagged("dagger", vec![tagged("instrs", body.iter().map(instr_to_sexp).collect()), r2])
        }
    };
    // `&self` methods: a second to_unitary after dagger() must return the very same thing
    let r3 = program_unitary_result(p.to_unitary(n));
    tagged("progres", vec![r1, d, r3])
}

/// `Program::to_unitary`, `Program::dagger`, the dagger program's `to_unitary`, and `to_unitary` again; the program is
/// built by one of three public builder routes chosen by the case index.
fn prog_case(ctx: &mut Ctx, instrs: Vec<Instruction>, n: u64) {
    let input = tagged("prog", vec![nat(n), tagged("instrs", instrs.iter().map(instr_to_sexp).collect())]);
    let route = ctx.next_index;
    ctx.case(input, move || prog_results(&build_program(instrs, route), n));
}

/// The same through Quil text: the instructions are printed, re-parsed by `Program::from_str`, and the PARSED
/// program is both the case's input and the object under test.
fn prog_case_text(ctx: &mut Ctx, instrs: &[Instruction], n: u64) {
    use quil_rs::quil::Quil;
    use std::str::FromStr;
    let text: Vec<String> = instrs.iter().map(|i| i.to_quil().expect("printable")).collect();
    let p = match Program::from_str(&text.join("\n")) {
        Ok(p) => p,
        Err(_) => return,
    };
    let body = p.to_instructions();
    let input = tagged("prog", vec![nat(n), tagged("instrs", body.iter().map(instr_to_sexp).collect())]);
    ctx.case(input, move || prog_results(&p, n));
}

fn unitary2_case(ctx: &mut Ctx, g: &Gate, n: u64) {
    let input = tagged("unitary2", vec![gate_to_sexp(g), nat(n)]);
    let mut g = g.clone();
    ctx.case(input, move || {
        let r1 = unitary_result(g.to_unitary(n));
        let r2 = unitary_result(g.to_unitary(n));
        tagged("twice", vec![r1, r2])
    });
}

/// The gate that is left in `g` after `Gate::to_unitary(&mut self)` has consumed its modifiers: each CONTROLLED /
/// FORKED dropped the first qubit, each FORKED kept the second half of the parameters.
fn residual(g: &Gate) -> Gate {
    let mut params = g.parameters.clone();
    let mut qubits = g.qubits.clone();
    for m in &g.modifiers {
        match m {
            GateModifier::Dagger => {}
            GateModifier::Controlled => {
                qubits.remove(0);
            }
            GateModifier::Forked => {
                qubits.remove(0);
                params = params[params.len() / 2..].to_vec();
            }
        }
    }
    Gate { name: g.name.clone(), parameters: params, qubits, modifiers: vec![] }
}

fn random_gate(rng: &mut Rng, n: u64, max_depth: u64) -> Option<Gate> {
    let (name, k, np) = *rng.pick(&STANDARD_GATES);
    let depth = rng.below(max_depth + 1) as usize;
    let stack: Vec<GateModifier> =
        (0..depth).map(|_| *rng.pick(&[GateModifier::Controlled, GateModifier::Dagger, GateModifier::Dagger, GateModifier::Forked])).collect();
    let extra = stack.iter().filter(|m| !matches!(m, GateModifier::Dagger)).count();
    if (k + extra) as u64 > n {
        return None;
    }
    let qubits = random_placement(rng, k + extra, n);
    let mut ix = 12;
    Some(build_via_api(&stack, name, np, &qubits, rng, &mut ix))
}

fn main() {
    main_with(run)
}

fn run(ctx: &mut Ctx) {
    use GateModifier::*;
    let quick = ctx.quick();
    // ---- 1. corpus
    // past defect (fixed d1c749e): modifiers were peeled from the back, qubits from the front
    unitary_case(ctx, &raw("RX", vec![real(0.3), real(1.1)], &[2, 1, 0], vec![Forked, Controlled]), 3);
    unitary_case(ctx, &raw("RX", vec![real(0.3), real(1.1)], &[2, 1, 0], vec![Controlled, Forked]), 3);
    unitary_case(ctx, &raw("RX", vec![real(0.1), real(0.2), real(0.3), real(0.4)], &[0, 1, 2, 3], vec![Forked, Controlled, Forked]), 4);
    unitary_case(ctx, &raw("PHASE", vec![real(0.7)], &[1, 0], vec![Dagger, Controlled]), 2);
    unitary_case(ctx, &raw("PHASE", vec![real(0.7)], &[1, 0], vec![Controlled, Dagger]), 2);
    unitary_case(ctx, &raw("X", vec![], &[0, 1], vec![Controlled]), 2); // = CNOT 0 1
    unitary_case(ctx, &raw("X", vec![], &[2, 0, 1], vec![Controlled, Controlled]), 3); // = CCNOT 2 0 1
    unitary_case(ctx, &raw("RX", vec![real(0.1), real(0.2), real(0.3)], &[1, 0], vec![Forked]), 2); // odd
    unitary_case(ctx, &raw("RX", vec![real(0.1), real(0.2)], &[1, 0], vec![Forked, Forked]), 2); // odd one level down
    unitary_case(ctx, &raw("X", vec![], &[], vec![Controlled]), 1); // qubits[1..] on an empty list panics
    unitary_case(ctx, &raw("RX", vec![real(0.1), real(0.2)], &[], vec![Forked]), 1);
    unitary_case(ctx, &raw("X", vec![], &[0], vec![Controlled]), 2); // one qubit short: 4×4 lifted on one listed qubit
    unitary_case(ctx, &raw("FOO", vec![], &[1, 0], vec![Controlled]), 2);
    unitary_case(ctx, &raw("RX", vec![Expression::Variable("t".into()), real(0.2)], &[1, 0], vec![Forked]), 2);
    {
        let mut g = raw("X", vec![], &[1, 0], vec![Dagger, Controlled]);
        g.qubits[0] = Qubit::Variable("q".into());
        unitary_case(ctx, &g, 2);
    }

    // ---- 2. every stack up to depth 4 over the 6 base gates, built through the API
    let mut rng = ctx.rng(15);
    for stack in all_stacks(4) {
        let extra = stack.iter().filter(|m| !matches!(m, Dagger)).count();
        for (name, k, np) in BASES {
            let t = k + extra;
            if t > 5 {
                continue;
            }
            for n in (t as u64)..=5 {
                if quick && n != t as u64 && n != 5 {
                    continue;
                }
                let all = placements(t, n);
                let cap = if quick { 2 } else { 24 };
                let chosen: Vec<Vec<u64>> = if all.len() <= cap {
                    all
                } else {
                    (0..cap).map(|_| random_placement(&mut rng, t, n)).collect()
                };
                let reps = if quick || np == 0 { 1 } else { 2 };
                for qs in chosen {
                    for rep in 0..reps {
                        let mut ix = if rep == 0 && rng.chance(1, 4) { 0 } else { 12 };
                        let g = build_via_api(&stack, name, np, &qs, &mut rng, &mut ix);
                        debug_assert_eq!(g.modifiers, stack);
                        unitary_case(ctx, &g, n);
                    }
                }
            }
        }
    }

    // ---- 3. the builder API as such
    let mut rng = ctx.rng(16);
    for _ in 0..(if quick { 300 } else { 5000 }) {
        let (name, k, np) = *rng.pick(&STANDARD_GATES);
        let base = Gate::new(name, (0..np).map(|i| real(angle(&mut rng, 12 + i))).collect(), fixed(&random_placement(&mut rng, k, 6)), vec![]).unwrap();
        let n_ops = 1 + rng.below(4);
        let mut ops = Vec::new();
        let mut n_params = np;
        for _ in 0..n_ops {
            match rng.below(3) {
                0 => ops.push((0u8, 0u64, vec![])),
                1 => ops.push((1, 6 + rng.below(4), vec![])),
                _ => {
                    let len = if rng.chance(1, 6) { n_params + 1 } else { n_params };
                    let alt: Vec<f64> = (0..len).map(|i| angle(&mut rng, 12 + i)).collect();
                    if len == n_params {
                        n_params *= 2;
                    }
                    ops.push((2, 6 + rng.below(4), alt));
                }
            }
        }
        let ops_sexp: Vec<Sexp> = ops
            .iter()
            .map(|(kind, q, alt)| match kind {
                0 => tagged("D", vec![]),
                1 => tagged("C", vec![nat(*q)]),
                _ => tagged("F", vec![nat(*q), list(alt.iter().map(|a| tagged("num", vec![f64bits(*a), f64bits(0.0)])).collect())]),
            })
            .collect();
        let input = tagged("api", vec![gate_to_sexp(&base), tagged("ops", ops_sexp)]);
        ctx.case(input, move || {
            let mut g = base;
            for (kind, q, alt) in ops {
                g = match kind {
                    0 => g.dagger(),
                    1 => g.controlled(Qubit::Fixed(q)),
                    _ => match g.forked(Qubit::Fixed(q), alt.into_iter().map(real).collect()) {
                        Ok(g) => g,
                        Err(_) => return tagged("forked-err", vec![]),
                    },
                }
            }
            gate_to_sexp(&g)
        });
    }

    // ---- 4. programs
    let mut rng = ctx.rng(17);
    // corpus programs
    prog_case(ctx, vec![], 2);
    prog_case(ctx, vec![Instruction::Gate(raw("H", vec![], &[0], vec![])), Instruction::Gate(raw("CNOT", vec![], &[0, 1], vec![]))], 2);
    prog_case(ctx, vec![Instruction::Gate(raw("X", vec![], &[0], vec![])), Instruction::Halt()], 1);
    prog_case(ctx, vec![Instruction::Gate(raw("X", vec![], &[0], vec![])), Instruction::Nop()], 1);
    prog_case(ctx, vec![Instruction::Gate(raw("FOO", vec![], &[0], vec![]))], 1);
    // a modifier-carrying gate later followed by its exact base gate on the same qubits with the remaining
    // parameters (a seeded per-gate cache keyed by the gate AFTER to_unitary consumed its modifiers only shows here)
    prog_case(ctx, vec![Instruction::Gate(raw("X", vec![], &[1, 0], vec![Controlled])), Instruction::Gate(raw("X", vec![], &[0], vec![]))], 2);
    prog_case(
        ctx,
        vec![
            Instruction::Gate(raw("T", vec![], &[0], vec![Dagger])),
            Instruction::Gate(raw("H", vec![], &[1], vec![])),
            Instruction::Gate(raw("T", vec![], &[0], vec![])),
        ],
        2,
    );
    prog_case(
        ctx,
        vec![
            Instruction::Gate(raw("RX", vec![real(0.4), real(1.1)], &[1, 0], vec![Forked])),
            Instruction::Gate(raw("RX", vec![real(1.1)], &[0], vec![])),
        ],
        2,
    );
    // exact multiples of 2π through Program::to_unitary (RX/RY/RZ have period 4π)
    prog_case(ctx, vec![Instruction::Gate(raw("RZ", vec![real(2.0 * std::f64::consts::PI)], &[0], vec![]))], 1);
    prog_case(ctx, vec![Instruction::Gate(parse_gate("RX", "-2*pi", &[1]))], 2);

    // ---- 5. systematic: `G; R`, `G; H; R`, `R; G; R` where R is what is left of G after to_unitary consumed its modifiers
    {
        let mut rng = ctx.rng(18);
        let depth = if quick { 2 } else { 3 };
        let max_t = if quick { 4 } else { 5 };
        for stack in all_stacks(depth) {
            if stack.is_empty() {
                continue;
            }
            let extra = stack.iter().filter(|m| !matches!(m, Dagger)).count();
            for (name, k, np) in BASES {
                let t = k + extra;
                if t > max_t {
                    continue;
                }
                let n = t as u64;
                let qs = random_placement(&mut rng, t, n);
                let mut ix = 12;
                let g = build_via_api(&stack, name, np, &qs, &mut rng, &mut ix);
                let r = residual(&g);
                let filler = Instruction::Gate(raw("H", vec![], &[qs[0]], vec![]));
                prog_case(ctx, vec![Instruction::Gate(g.clone()), Instruction::Gate(r.clone())], n);
                prog_case(ctx, vec![Instruction::Gate(g.clone()), filler, Instruction::Gate(r.clone())], n);
                prog_case(ctx, vec![Instruction::Gate(r.clone()), Instruction::Gate(g.clone()), Instruction::Gate(r.clone())], n);
                prog_case_text(ctx, &[Instruction::Gate(g.clone()), Instruction::Gate(r.clone())], n);
                // the same gate repeated (memoisation), and to_unitary twice on one value (the second call sees the consumed gate)
                prog_case(ctx, vec![Instruction::Gate(g.clone()), Instruction::Gate(g.clone())], n);
                unitary2_case(ctx, &g, n);
            }
        }
        // to_unitary twice on error paths too
        unitary2_case(ctx, &raw("RX", vec![real(0.1), real(0.2), real(0.3)], &[1, 0], vec![Forked]), 2);
        unitary2_case(ctx, &raw("FOO", vec![], &[1, 0], vec![Controlled]), 2);
        unitary2_case(ctx, &raw("X", vec![], &[0], vec![]), 1);
    }

    // ---- 5b. HALT / NOP / RESET at every position of a three-gate program
    {
        let base = vec![
            Instruction::Gate(raw("H", vec![], &[0], vec![])),
            Instruction::Gate(raw("X", vec![], &[1, 0], vec![Controlled])),
            Instruction::Gate(raw("RZ", vec![real(0.7)], &[1], vec![Dagger])),
        ];
        let extras = [Instruction::Halt(), Instruction::Nop(), Instruction::Reset(quil_rs::instruction::Reset { qubit: None })];
        for e in &extras {
            for pos in 0..=base.len() {
                let mut v = base.clone();
                v.insert(pos, e.clone());
                prog_case(ctx, v, 2);
            }
        }
        prog_case(ctx, vec![Instruction::Halt()], 1);
        prog_case(ctx, vec![Instruction::Halt(), Instruction::Halt()], 2);
    }

    // ---- 5c. parameters that only become numbers after simplification (Quil text), under modifiers and in programs
    {
        let mut rng = ctx.rng(20);
        for (name, k) in PARAM_GATES {
            for text in EXPR_TEXTS {
                let n = k as u64 + 1;
                let qs = random_placement(&mut rng, k + 1, n);
                let g = parse_gate(name, text, &qs[1..]);
                let cg = g.clone().controlled(Qubit::Fixed(qs[0])).dagger();
                unitary_case(ctx, &cg, n);
                prog_case(ctx, vec![Instruction::Gate(cg), Instruction::Gate(g)], n);
            }
        }
    }

    // ---- 5e. every expression form of a constant parameter (API-built, incl. unary plus) under each modifier and in
    // programs; non-constant parameters rejected at any depth of the stack
    {
        let mut rng = ctx.rng(22);
        {
            // known finding C12/is-zero-tolerance through a gate parameter (see C14 corpus)
            use quil_rs::expression::{ExpressionFunction as F, InfixOperator as I};
            use qvh::expr::{call, infix};
            let e = call(F::SquareRoot, infix(infix(Expression::PiConstant(), I::Plus, real(2.0)), I::Star, call(F::Sine, Expression::PiConstant())));
            unitary_case(ctx, &raw("RX", vec![e], &[0], vec![Dagger]), 1);
        }
        let plus07 = qvh::expr::prefix(quil_rs::expression::PrefixOperator::Plus, real(0.7));
        unitary_case(ctx, &raw("RZ", vec![plus07.clone()], &[0], vec![Dagger]), 1);
        unitary_case(ctx, &raw("RX", vec![real(0.3), plus07.clone()], &[1, 0], vec![Forked]), 2);
        for (gi, (name, k)) in PARAM_GATES.into_iter().enumerate() {
            let mut forms: Vec<Expression> = constant_forms(if gi % 2 == 0 { 0.7 } else { -1.3 });
            forms.extend(pi_forms());
            for _ in 0..(if quick { 4 } else { 60 }) {
                forms.push(random_constant_expr(&mut rng));
            }
            forms.extend(nonconstant_forms());
            for (fi, e) in forms.into_iter().enumerate() {
                let n = k as u64 + 1;
                let qs = random_placement(&mut rng, k + 1, n);
                let base = Gate { name: name.to_string(), parameters: vec![e.clone()], qubits: fixed(&qs[1..]), modifiers: vec![] };
                let g = match fi % 3 {
                    0 => base.clone().controlled(Qubit::Fixed(qs[0])),
                    1 => base.clone().forked(Qubit::Fixed(qs[0]), vec![real(0.4)]).unwrap(),
                    _ => Gate { name: name.to_string(), parameters: vec![real(0.4), e.clone()], qubits: fixed(&qs), modifiers: vec![Forked, Dagger] },
                };
                unitary_case(ctx, &g, n);
                prog_case(ctx, vec![Instruction::Gate(base.clone().dagger()), Instruction::Gate(base)], n);
            }
        }
    }

    // ---- 5f. nested FORKED whose parameter halves START equal and differ later (or are equal in value but written
    // differently): a shortcut that compares only the first parameter of each half shows only here
    {
        let mut rng = ctx.rng(23);
        unitary_case(ctx, &raw("RX", vec![real(0.3), real(0.7), real(0.3), real(1.9)], &[2, 1, 0], vec![Forked, Forked]), 3);
        for stack in all_stacks(if quick { 3 } else { 4 }) {
            let forks = stack.iter().filter(|m| matches!(m, Forked)).count();
            let extra = stack.iter().filter(|m| !matches!(m, Dagger)).count();
            if forks < 2 {
                continue;
            }
            for (name, k) in [("RX", 1usize), ("PHASE", 1), ("PSWAP", 2)] {
                let t = k + extra;
                if t > 5 {
                    continue;
                }
                let len = 1usize << forks;
                for variant in 0..4 {
                    let mut ps: Vec<Expression> = (0..len).map(|i| real(0.2 + 0.37 * i as f64)).collect();
                    match variant {
                        0 => ps[len / 2] = ps[0].clone(),
                        1 => {
                            ps[len / 4] = ps[0].clone();
                            ps[3 * len / 4] = ps[len / 2].clone();
                        }
                        2 => {
                            // halves equal in value, the second written with a unary plus
                            for i in 0..len / 2 {
                                ps[len / 2 + i] = qvh::expr::prefix(quil_rs::expression::PrefixOperator::Plus, ps[i].clone());
                            }
                            ps[len - 1] = real(2.9);
                        }
                        _ => {
                            for i in 0..len / 2 {
                                ps[len / 2 + i] = ps[i].clone();
                            }
                        }
                    }
                    let n = t as u64;
                    let qs = random_placement(&mut rng, t, n);
                    let g = Gate { name: name.to_string(), parameters: ps, qubits: fixed(&qs), modifiers: stack.clone() };
                    unitary_case(ctx, &g, n);
                }
            }
        }
    }

    // ---- 5d. beyond 5 qubits (the theorems are for all n): a few modified gates on 6 qubits
    {
        let mut rng = ctx.rng(21);
        for _ in 0..(if quick { 3 } else { 30 }) {
            if let Some(g) = random_gate(&mut rng, 6, 3) {
                unitary_case(ctx, &g, 6);
            }
        }
    }

    // ---- 6. exact special angles (f64 products of PI / Quil text) in single-gate and longer programs
    {
        let mut rng = ctx.rng(19);
        for (name, k) in PARAM_GATES {
            for (ai, (value, text)) in exact_angles().into_iter().enumerate() {
                let n = k as u64 + 1;
                let qs = random_placement(&mut rng, k, n);
                let g = if ai % 2 == 0 {
                    parse_gate(name, text, &qs)
                } else {
                    Gate { name: name.to_string(), parameters: vec![real(value)], qubits: fixed(&qs), modifiers: vec![] }
                };
                prog_case(ctx, vec![Instruction::Gate(g.clone())], n);
                let other = Instruction::Gate(raw("X", vec![], &[n - 1, 0], vec![Controlled]));
                prog_case(ctx, vec![Instruction::Gate(raw("H", vec![], &[qs[0]], vec![])), Instruction::Gate(g), other], n);
            }
        }
    }

    // ---- 7. random programs
    for _ in 0..(if quick { 250 } else { 8000 }) {
        let n = if rng.chance(1, 5) { 5 } else { 1 + rng.below(4) };
        let len = rng.below(7);
        let mut instrs = Vec::new();
        for _ in 0..len {
            if rng.chance(1, 40) {
                instrs.push(Instruction::Halt());
            } else if rng.chance(1, 60) {
                instrs.push(Instruction::Nop());
            } else if let Some(g) = random_gate(&mut rng, n, 2) {
                instrs.push(Instruction::Gate(g));
            }
        }
        prog_case(ctx, instrs, n);
    }
}
