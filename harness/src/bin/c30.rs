//! C30 — type checking is per-instruction and follows the typing rules.
//!
//! One case = a program (declarations + 1..n body instructions) and a permutation of its body.  The
//! implementation's output is the verdict of `type_check` on four programs:
//!   the program itself, the program with its body permuted, the program with its body duplicated
//!   (body ++ body), and the program with every memory region consistently renamed (declarations and all
//!   references) by the fixed injective map b→i, i→o, o→r, r→u, u→b, other n→"~"+n.
//! A verdict is `(ok)` or `(err <TypeError variant> <index of the first body instruction equal to the one
//! the error names>)`.  What is sent as input is the PROJECTION of the real `Program` (read back from
//! `program.memory_regions` and `program.body_instructions()`), i.e. exactly what the type checker inspects.
use quil_rs::expression::{Expression, ExpressionFunction, InfixOperator, PrefixOperator};
use quil_rs::instruction::{
    CalibrationDefinition, CalibrationIdentifier, CircuitDefinition, Jump, JumpWhen, Label, Offset, Sharing, Target,
    Arithmetic, ArithmeticOperand, ArithmeticOperator, BinaryLogic, BinaryOperand, BinaryOperator, Comparison,
    ComparisonOperand, ComparisonOperator, Convert, Declaration, Exchange, FrameIdentifier, Gate, Instruction, Load,
    Measurement, MemoryReference, Move, Pragma, Qubit, ScalarType, SetFrequency, SetPhase, SetScale, ShiftFrequency,
    ShiftPhase, Store, UnaryLogic, UnaryOperator, Vector,
};
use quil_rs::program::type_check::{type_check, TypeError};
use quil_rs::Program;
use qvh::expr::*;
use qvh::*;
use std::str::FromStr;

// ------------------------------------------------------------------ a small spec language for instructions
// (the generator's own description, turned into real quil-rs instructions by `build`, optionally renamed)

#[derive(Clone, Debug)]
enum Operand {
    Int(i64),
    Real(f64),
    Ref(String),
}

#[derive(Clone, Debug)]
enum Spec {
    Frame(usize, Expression), // 0..5: SET-FREQUENCY, SET-PHASE, SET-SCALE, SHIFT-FREQUENCY, SHIFT-PHASE
    Arith(ArithmeticOperator, String, Operand),
    Cmp(ComparisonOperator, String, String, Operand),
    Logic(BinaryOperator, String, Operand), // Operand::Real never used here
    Unary(UnaryOperator, String),
    Move(String, Operand),
    Exchange(String, String),
    Load(String, String, String),
    Store(String, String, Operand),
    Other(usize),
}

const N_OTHER: usize = 11;

fn rename_rot(n: &str) -> String {
    match n {
        "b" => "i".into(),
        "i" => "o".into(),
        "o" => "r".into(),
        "r" => "u".into(),
        "u" => "b".into(),
        other => format!("~{other}"),
    }
}

fn rename_expr(e: &Expression, f: &dyn Fn(&str) -> String) -> Expression {
    use quil_rs::expression::{FunctionCallExpression, InfixExpression, PrefixExpression};
    match e {
        Expression::Address(r) => Expression::Address(MemoryReference { name: f(&r.name), index: r.index }),
        Expression::FunctionCall(FunctionCallExpression { function, expression }) => {
            call(*function, rename_expr(expression, f))
        }
        Expression::Infix(InfixExpression { left, operator, right }) => {
            infix(rename_expr(left, f), *operator, rename_expr(right, f))
        }
        Expression::Prefix(PrefixExpression { operator, expression }) => prefix(*operator, rename_expr(expression, f)),
        other => other.clone(),
    }
}

/// the index is not the type checker's business (not even its range): vary it, including out-of-range values
fn mref(name: &str, f: &dyn Fn(&str) -> String) -> MemoryReference {
    const IDX: [u64; 6] = [0, 1, 2, 7, 1 << 32, u64::MAX];
    MemoryReference { name: f(name), index: IDX[name.len() % IDX.len()] }
}

fn build(spec: &Spec, f: &dyn Fn(&str) -> String) -> Instruction {
    let frame = || FrameIdentifier { name: "xy".to_string(), qubits: vec![Qubit::Fixed(0)] };
    let arith = |o: &Operand| match o {
        Operand::Int(v) => ArithmeticOperand::LiteralInteger(*v),
        Operand::Real(v) => ArithmeticOperand::LiteralReal(*v),
        Operand::Ref(n) => ArithmeticOperand::MemoryReference(mref(n, f)),
    };
    match spec {
        Spec::Frame(k, e) => {
            let e = rename_expr(e, f);
            match k {
                0 => Instruction::SetFrequency(SetFrequency { frame: frame(), frequency: e }),
                1 => Instruction::SetPhase(SetPhase { frame: frame(), phase: e }),
                2 => Instruction::SetScale(SetScale { frame: frame(), scale: e }),
                3 => Instruction::ShiftFrequency(ShiftFrequency { frame: frame(), frequency: e }),
                _ => Instruction::ShiftPhase(ShiftPhase { frame: frame(), phase: e }),
            }
        }
        Spec::Arith(op, d, s) => {
            Instruction::Arithmetic(Arithmetic { operator: *op, destination: mref(d, f), source: arith(s) })
        }
        Spec::Cmp(op, d, l, r) => Instruction::Comparison(Comparison {
            operator: *op,
            destination: mref(d, f),
            lhs: mref(l, f),
            rhs: match r {
                Operand::Int(v) => ComparisonOperand::LiteralInteger(*v),
                Operand::Real(v) => ComparisonOperand::LiteralReal(*v),
                Operand::Ref(n) => ComparisonOperand::MemoryReference(mref(n, f)),
            },
        }),
        Spec::Logic(op, d, s) => Instruction::BinaryLogic(BinaryLogic {
            operator: *op,
            destination: mref(d, f),
            source: match s {
                Operand::Ref(n) => BinaryOperand::MemoryReference(mref(n, f)),
                Operand::Int(v) => BinaryOperand::LiteralInteger(*v),
                Operand::Real(_) => BinaryOperand::LiteralInteger(0),
            },
        }),
        Spec::Unary(op, x) => Instruction::UnaryLogic(UnaryLogic { operator: *op, operand: mref(x, f) }),
        Spec::Move(d, s) => Instruction::Move(Move { destination: mref(d, f), source: arith(s) }),
        Spec::Exchange(l, r) => Instruction::Exchange(Exchange { left: mref(l, f), right: mref(r, f) }),
        Spec::Load(d, s, o) => Instruction::Load(Load { destination: mref(d, f), source: f(s), offset: mref(o, f) }),
        Spec::Store(d, o, s) => Instruction::Store(Store { destination: f(d), offset: mref(o, f), source: arith(s) }),
        Spec::Other(k) => match k % N_OTHER {
            0 => Instruction::Nop(),
            1 => Instruction::Halt(),
            2 => Instruction::Wait(),
            3 => Instruction::Gate(Gate {
                name: "RX".into(),
                parameters: vec![var("x")], // a variable in a gate parameter is not the type checker's business
                qubits: vec![Qubit::Fixed(0)],
                modifiers: vec![],
            }),
            // MEASURE into an undeclared region and CONVERT between mismatched types are NOT checked by type_check
            4 => Instruction::Measurement(Measurement { name: None, qubit: Qubit::Fixed(0), target: Some(mref("u", f)) }),
            5 => Instruction::Convert(Convert { destination: mref("b", f), source: mref("r", f) }),
            6 => Instruction::Pragma(Pragma::new("NAME".into(), vec![], None)),
            // control flow: everything AFTER a HALT / JUMP is still type-checked; the condition of JUMP-WHEN is not
            7 => Instruction::Jump(Jump { target: Target::Fixed("end".into()) }),
            8 => Instruction::Label(Label { target: Target::Fixed("end".into()) }),
            9 => Instruction::JumpWhen(JumpWhen { target: Target::Fixed("end".into()), condition: mref("u", f) }),
            _ => Instruction::JumpWhen(JumpWhen { target: Target::Fixed("end".into()), condition: mref("r", f) }),
        },
    }
}

// ------------------------------------------------------------------ projection of the REAL program (wire)

fn scalar_name(t: &ScalarType) -> &'static str {
    match t {
        ScalarType::Bit => "bit",
        ScalarType::Integer => "integer",
        ScalarType::Octet => "octet",
        ScalarType::Real => "real",
    }
}

fn project(i: &Instruction) -> Sexp {
    let arith = |o: &ArithmeticOperand| match o {
        ArithmeticOperand::LiteralInteger(_) => tagged("int", vec![]),
        ArithmeticOperand::LiteralReal(_) => tagged("realv", vec![]),
        ArithmeticOperand::MemoryReference(r) => tagged("ref", vec![st(r.name.clone())]),
    };
    let fr = |k: &str, e: &Expression| tagged("real", vec![atom(k), expr_to_sexp(e)]);
    match i {
        Instruction::SetFrequency(SetFrequency { frequency, .. }) => fr("set_frequency", frequency),
        Instruction::SetPhase(SetPhase { phase, .. }) => fr("set_phase", phase),
        Instruction::SetScale(SetScale { scale, .. }) => fr("set_scale", scale),
        Instruction::ShiftFrequency(ShiftFrequency { frequency, .. }) => fr("shift_frequency", frequency),
        Instruction::ShiftPhase(ShiftPhase { phase, .. }) => fr("shift_phase", phase),
        Instruction::Arithmetic(Arithmetic { operator, destination, source }) => tagged(
            "arith",
            vec![
                atom(match operator {
                    ArithmeticOperator::Add => "add",
                    ArithmeticOperator::Subtract => "sub",
                    ArithmeticOperator::Divide => "div",
                    ArithmeticOperator::Multiply => "mul",
                }),
                st(destination.name.clone()),
                arith(source),
            ],
        ),
        Instruction::Comparison(Comparison { operator, destination, lhs, rhs }) => tagged(
            "cmp",
            vec![
                atom(match operator {
                    ComparisonOperator::Equal => "eq",
                    ComparisonOperator::GreaterThanOrEqual => "ge",
                    ComparisonOperator::GreaterThan => "gt",
                    ComparisonOperator::LessThanOrEqual => "le",
                    ComparisonOperator::LessThan => "lt",
                }),
                st(destination.name.clone()),
                st(lhs.name.clone()),
                match rhs {
                    ComparisonOperand::LiteralInteger(_) => tagged("int", vec![]),
                    ComparisonOperand::LiteralReal(_) => tagged("realv", vec![]),
                    ComparisonOperand::MemoryReference(r) => tagged("ref", vec![st(r.name.clone())]),
                },
            ],
        ),
        Instruction::BinaryLogic(BinaryLogic { operator, destination, source }) => tagged(
            "logic",
            vec![
                atom(match operator {
                    BinaryOperator::And => "and",
                    BinaryOperator::Ior => "ior",
                    BinaryOperator::Xor => "xor",
                    BinaryOperator::Shl => "shl",
                    BinaryOperator::Shr => "shr",
                    BinaryOperator::Ashr => "ashr",
                }),
                st(destination.name.clone()),
                match source {
                    BinaryOperand::LiteralInteger(_) => tagged("int", vec![]),
                    BinaryOperand::MemoryReference(r) => tagged("ref", vec![st(r.name.clone())]),
                },
            ],
        ),
        Instruction::UnaryLogic(UnaryLogic { operator, operand }) => tagged(
            "unary",
            vec![
                atom(match operator {
                    UnaryOperator::Neg => "neg",
                    UnaryOperator::Not => "not",
                }),
                st(operand.name.clone()),
            ],
        ),
        Instruction::Move(Move { destination, source }) => tagged("move", vec![st(destination.name.clone()), arith(source)]),
        Instruction::Exchange(Exchange { left, right }) => {
            tagged("exchange", vec![st(left.name.clone()), st(right.name.clone())])
        }
        Instruction::Load(Load { destination, source, offset }) => {
            tagged("load", vec![st(destination.name.clone()), st(source.clone()), st(offset.name.clone())])
        }
        Instruction::Store(Store { destination, offset, source }) => {
            tagged("store", vec![st(destination.clone()), st(offset.name.clone()), arith(source)])
        }
        other => tagged(
            "other",
            vec![atom(match other {
                Instruction::Nop() => "nop",
                Instruction::Halt() => "halt",
                Instruction::Wait() => "wait",
                Instruction::Gate(_) => "gate",
                Instruction::Measurement(_) => "measure",
                Instruction::Convert(_) => "convert",
                Instruction::Pragma(_) => "pragma",
                Instruction::Jump(_) => "jump",
                Instruction::Label(_) => "label",
                Instruction::JumpWhen(_) => "jump_when",
                _ => "misc",
            })],
        ),
    }
}

fn verdict(p: &Program) -> Sexp {
    match type_check(p) {
        Ok(()) => tagged("ok", vec![]),
        Err(e) => {
            // format the error every way a caller can (a panic here is a crash outcome of the case)
            use std::error::Error as _;
            let texts = [e.to_string(), format!("{e:#}"), format!("{e:?}"), format!("{:?}", e.source().map(|s| s.to_string()))];
            assert!(texts.iter().take(3).all(|t| !t.is_empty()), "empty error text");
            // Only WHICH instruction is rejected is the property's business; the variant is recorded as a tag.
            // Wildcard arm: a new `TypeError` variant must not break this harness.
            #[allow(unreachable_patterns)]
            let (kind, instruction) = match &e {
                TypeError::UndefinedMemoryReference { instruction, .. } => ("undefined_memory_reference", instruction),
                TypeError::DataTypeMismatch { instruction, .. } => ("data_type_mismatch", instruction),
                TypeError::RealValueRequired { instruction, .. } => ("real_value_required", instruction),
                TypeError::OperatorOperandMismatch { instruction, .. } => ("operator_operand_mismatch", instruction),
                _ => return tagged("err", vec![atom("other"), atom("unknown")]),
            };
            // which body instruction the error names: found by the Debug rendering (independent of quil-rs's
            // own `PartialEq`), cross-checked with `==`
            let wanted = format!("{instruction:?}");
            let by_debug = p.body_instructions().position(|i| format!("{i:?}") == wanted);
            let by_eq = p.body_instructions().position(|i| i == instruction);
            match (by_debug, by_eq) {
                (Some(i), Some(j)) if i == j => tagged("err", vec![atom(kind), nat(i as u64)]),
                (Some(i), _) => tagged("err", vec![atom(kind), nat(i as u64), atom("eq_disagrees")]),
                (None, _) => tagged("err", vec![atom(kind), atom("not_in_body")]),
            }
        }
    }
}

/// (name, type, sharing parent with an offset of another type?)
type DeclSpec = Vec<(String, ScalarType, Option<String>)>;

fn declaration(n: &str, t: ScalarType, sharing: &Option<String>, f: &dyn Fn(&str) -> String) -> Instruction {
    // the type of a region is its OWN declared type, whatever it shares with and at whatever offsets
    let sharing = sharing.as_ref().map(|parent| {
        Sharing::new(f(parent), vec![Offset::new(1, ScalarType::Bit), Offset::new(2, ScalarType::Real)])
    });
    Instruction::Declaration(Declaration::new(f(n), Vector::new(t, 2), sharing))
}

fn all_instructions(decls: &DeclSpec, body: &[Spec], f: &dyn Fn(&str) -> String) -> Vec<Instruction> {
    let mut v: Vec<Instruction> = decls.iter().map(|(n, t, s)| declaration(n, *t, s, f)).collect();
    v.extend(body.iter().map(|s| build(s, f)));
    v
}

fn program(decls: &DeclSpec, body: &[Spec], f: &dyn Fn(&str) -> String) -> Program {
    let mut p = Program::new();
    for i in all_instructions(decls, body, f) {
        p.add_instruction(i);
    }
    p
}

/// definitions whose BODIES are ill-typed: `type_check` only walks the program body, so they change nothing
fn ill_typed_definitions() -> Vec<Instruction> {
    let id = |n: &str| n.to_string();
    let bad = vec![
        build(&Spec::Move("r".into(), Operand::Int(1)), &id),
        build(&Spec::Frame(1, var("x")), &id),
        build(&Spec::Unary(UnaryOperator::Not, "u".into()), &id),
    ];
    vec![
        Instruction::CalibrationDefinition(CalibrationDefinition {
            identifier: CalibrationIdentifier::new("X".into(), vec![], vec![], vec![Qubit::Fixed(0)]).expect("identifier"),
            instructions: bad.clone(),
        }),
        Instruction::CircuitDefinition(CircuitDefinition {
            name: "CIRC".into(),
            parameters: vec!["x".into()],
            qubit_variables: vec!["q".into()],
            instructions: bad,
        }),
    ]
}

fn special_rename(n: &str) -> String {
    // names that some stage of quil-rs treats specially, through the API (injective on the names used here)
    match n {
        "b" => "pi".into(),
        "i" => "BIT".into(),
        "o" => "sin".into(),
        "r" => "REAL".into(),
        "u" => "I".into(),
        other => format!("Cis-{other}"),
    }
}

fn emit(ctx: &mut Ctx, decls: &DeclSpec, body: &[Spec], perm: &[usize]) {
    let id = |n: &str| n.to_string();
    let p = program(decls, body, &id);
    let decl_sexp = list(
        p.memory_regions.iter().map(|(n, r)| list(vec![st(n.clone()), atom(scalar_name(&r.size.data_type))])).collect(),
    );
    let body_sexp = list(p.body_instructions().map(project).collect());
    // what was DECLARED, in order and with repetitions, straight from the generator's own description
    // (independent of what quil-rs stored): the driver checks that the stored map is "last declaration wins"
    let declared_sexp = list(decls.iter().map(|(n, t, _)| list(vec![st(n.clone()), atom(scalar_name(t))])).collect());
    let input = tagged(
        "c30",
        vec![decl_sexp, body_sexp, list(perm.iter().map(|i| nat(*i as u64)).collect()), declared_sexp],
    );
    ctx.case(input, || {
        let permuted: Vec<Spec> = perm.iter().map(|i| body[*i].clone()).collect();
        let doubled: Vec<Spec> = body.iter().chain(body.iter()).cloned().collect();
        // construction routes: all must give the verdict of `p`
        let from_instructions = Program::from_instructions(all_instructions(decls, body, &id));
        let plus = program(decls, &[], &id) + program(&vec![], body, &id);
        let mut plus_assign = program(&vec![], body, &id);
        plus_assign += program(decls, &[], &id);
        let via_text = match quil_rs::quil::Quil::to_quil(&p) {
            Ok(text) => match Program::from_str(&text) {
                Ok(q) if q.body_instructions().map(project).collect::<Vec<_>>() == p.body_instructions().map(project).collect::<Vec<_>>()
                    && q.memory_regions.len() == p.memory_regions.len() =>
                {
                    verdict(&q)
                }
                Ok(_) => tagged("na", vec![atom("reparsed_differently")]),
                Err(_) => tagged("na", vec![atom("parse")]),
            },
            Err(_) => tagged("na", vec![atom("print")]),
        };
        let mut with_defs = p.clone();
        for d in ill_typed_definitions() {
            with_defs.add_instruction(d);
        }
        let first = verdict(&p);
        let second = verdict(&p); // a second call on the same program
        tagged(
            "verdicts",
            vec![
                first,
                verdict(&program(decls, &permuted, &id)),
                verdict(&program(decls, &doubled, &id)),
                verdict(&program(decls, body, &rename_rot)),
                verdict(&program(decls, body, &special_rename)),
                verdict(&from_instructions),
                verdict(&plus),
                verdict(&plus_assign),
                via_text,
                verdict(&with_defs),
                second,
            ],
        )
    });
}

fn std_decls() -> DeclSpec {
    vec![
        ("b".into(), ScalarType::Bit, None),
        ("i".into(), ScalarType::Integer, None),
        ("o".into(), ScalarType::Octet, None),
        ("r".into(), ScalarType::Real, None),
    ]
}

/// the same four types, but every region SHARING another one of a different type (with OFFSETs of yet other
/// types), declared in another order, plus 40 unrelated regions around them
fn sharing_decls() -> DeclSpec {
    let mut d: DeclSpec = (0..20).map(|k| (format!("pad{k}"), [ScalarType::Bit, ScalarType::Real][k % 2], None)).collect();
    d.push(("r".into(), ScalarType::Real, Some("i".into())));
    d.push(("o".into(), ScalarType::Octet, Some("r".into())));
    d.push(("i".into(), ScalarType::Integer, Some("b".into())));
    d.push(("b".into(), ScalarType::Bit, Some("r".into())));
    d.extend((20..40).map(|k| (format!("pad{k}"), ScalarType::Integer, Some("r".to_string()))));
    d
}

/// re-declarations: every region is first declared with a WRONG type, then re-declared (the last one wins)
fn redeclared_decls() -> DeclSpec {
    let mut d: DeclSpec = vec![
        ("b".into(), ScalarType::Real, None),
        ("i".into(), ScalarType::Bit, None),
        ("o".into(), ScalarType::Integer, None),
        ("r".into(), ScalarType::Octet, None),
        ("u".into(), ScalarType::Real, None),
    ];
    d.extend(std_decls());
    d
}

const NAMES: [&str; 5] = ["b", "i", "o", "r", "u"];

fn random_perm(rng: &mut Rng, n: usize) -> Vec<usize> {
    let mut v: Vec<usize> = (0..n).collect();
    for i in (1..n).rev() {
        let j = rng.below(i as u64 + 1) as usize;
        v.swap(i, j);
    }
    v
}

/// every classical instruction shape over the five names; `all_ops`: every operator, else one per kind
fn classical_pool(all_ops: bool) -> Vec<Spec> {
    let mut out = Vec::new();
    let operands3 = || {
        let mut v = vec![Operand::Int(3), Operand::Real(2.5)];
        v.extend(NAMES.iter().map(|n| Operand::Ref(n.to_string())));
        v
    };
    let arith_ops: Vec<ArithmeticOperator> = if all_ops {
        vec![ArithmeticOperator::Add, ArithmeticOperator::Subtract, ArithmeticOperator::Divide, ArithmeticOperator::Multiply]
    } else {
        vec![ArithmeticOperator::Add]
    };
    let cmp_ops: Vec<ComparisonOperator> = if all_ops {
        vec![
            ComparisonOperator::Equal,
            ComparisonOperator::GreaterThanOrEqual,
            ComparisonOperator::GreaterThan,
            ComparisonOperator::LessThanOrEqual,
            ComparisonOperator::LessThan,
        ]
    } else {
        vec![ComparisonOperator::Equal]
    };
    let bin_ops: Vec<BinaryOperator> =
        if all_ops {
            vec![
                BinaryOperator::And,
                BinaryOperator::Ior,
                BinaryOperator::Xor,
                BinaryOperator::Shl,
                BinaryOperator::Shr,
                BinaryOperator::Ashr,
            ]
        } else { vec![BinaryOperator::And] };
    for d in NAMES {
        for s in operands3() {
            for op in &arith_ops {
                out.push(Spec::Arith(*op, d.into(), s.clone()));
            }
            out.push(Spec::Move(d.into(), s.clone()));
            for o in NAMES {
                out.push(Spec::Store(d.into(), o.into(), s.clone()));
            }
            for l in NAMES {
                for op in &cmp_ops {
                    out.push(Spec::Cmp(*op, d.into(), l.into(), s.clone()));
                }
            }
        }
        let mut logic_sources = vec![Operand::Int(1)];
        logic_sources.extend(NAMES.iter().map(|n| Operand::Ref(n.to_string())));
        for s in logic_sources {
            for op in &bin_ops {
                out.push(Spec::Logic(*op, d.into(), s.clone()));
            }
        }
        out.push(Spec::Unary(UnaryOperator::Neg, d.into()));
        out.push(Spec::Unary(UnaryOperator::Not, d.into()));
        for r in NAMES {
            out.push(Spec::Exchange(d.into(), r.into()));
            for o in NAMES {
                out.push(Spec::Load(d.into(), r.into(), o.into()));
            }
        }
    }
    for k in 0..N_OTHER {
        out.push(Spec::Other(k));
    }
    out
}

/// literal VALUES are not the type checker's business: vary them over boundary values
fn vary(spec: &Spec, rng: &mut Rng) -> Spec {
    const INTS: [i64; 9] = [0, 1, -1, 3, i64::MIN, i64::MAX, 1 << 31, 1 << 32, 1 << 53];
    const REALS: [f64; 9] = [0.0, -0.0, 1.0, 2.5, -1e308, f64::INFINITY, f64::NAN, 1e-320, 4294967296.0];
    let mut o = |x: &Operand| match x {
        Operand::Int(_) => Operand::Int(*rng.pick(&INTS)),
        Operand::Real(_) => Operand::Real(*rng.pick(&REALS)),
        Operand::Ref(n) => Operand::Ref(n.clone()),
    };
    match spec {
        Spec::Arith(op, d, s) => Spec::Arith(*op, d.clone(), o(s)),
        Spec::Cmp(op, d, l, r) => Spec::Cmp(*op, d.clone(), l.clone(), o(r)),
        Spec::Logic(op, d, s) => Spec::Logic(*op, d.clone(), o(s)),
        Spec::Move(d, s) => Spec::Move(d.clone(), o(s)),
        Spec::Store(d, f, s) => Spec::Store(d.clone(), f.clone(), o(s)),
        other => other.clone(),
    }
}

fn leaf_alphabet_full() -> Vec<Expression> {
    vec![
        addr("b", 0),
        addr("i", 1),
        addr("o", 0),
        addr("r", 0),
        addr("u", 0),
        real(1.5),
        num(1.0, 1.0),
        Expression::PiConstant(),
        var("x"),
    ]
}

fn is_ok(decls: &DeclSpec, s: &Spec) -> bool {
    type_check(&program(decls, std::slice::from_ref(s), &|n: &str| n.to_string())).is_ok()
}

fn corpus(ctx: &mut Ctx) {
    use ExpressionFunction::*;
    use InfixOperator as I;
    let d = std_decls();
    // the suite's own sets-and-shifts table, but with the operand nested: REAL region inside functions/operators
    for k in 0..5 {
        emit(ctx, &d, &[Spec::Frame(k, addr("r", 0))], &[0]);
        emit(ctx, &d, &[Spec::Frame(k, addr("i", 0))], &[0]);
        emit(ctx, &d, &[Spec::Frame(k, addr("u", 0))], &[0]);
        emit(ctx, &d, &[Spec::Frame(k, infix(call(Sine, addr("r", 0)), I::Star, infix(real(2.0), I::Plus, Expression::PiConstant())))], &[0]);
        // a variable / an integer region / an undeclared region three levels down
        emit(ctx, &d, &[Spec::Frame(k, prefix(PrefixOperator::Minus, call(Cosine, infix(Expression::PiConstant(), I::Plus, var("x")))))], &[0]);
        emit(ctx, &d, &[Spec::Frame(k, prefix(PrefixOperator::Minus, call(Cosine, infix(Expression::PiConstant(), I::Plus, addr("i", 0)))))], &[0]);
        emit(ctx, &d, &[Spec::Frame(k, prefix(PrefixOperator::Minus, call(Cosine, infix(addr("u", 0), I::Plus, addr("r", 0)))))], &[0]);
    }
    // both operands of an infix fail: the LEFT error is reported (undefined vs real-value-required)
    emit(ctx, &d, &[Spec::Frame(1, infix(addr("u", 0), I::Plus, var("x")))], &[0]);
    emit(ctx, &d, &[Spec::Frame(1, infix(var("x"), I::Plus, addr("u", 0)))], &[0]);
    // imaginary parts around f64::EPSILON, NaN, negative
    for im in [0.0, f64::EPSILON, 2.0 * f64::EPSILON, -f64::EPSILON, -1.0, 1e-300, f64::NAN, f64::INFINITY] {
        emit(ctx, &d, &[Spec::Frame(2, num(1.0, im))], &[0]);
        emit(ctx, &d, &[Spec::Frame(2, infix(real(2.0), I::Slash, num(f64::NAN, im)))], &[0]);
    }
    // multi-instruction programs: error position, order, duplicates
    let good1 = Spec::Arith(ArithmeticOperator::Add, "i".into(), Operand::Int(1));
    let good2 = Spec::Cmp(ComparisonOperator::Equal, "b".into(), "r".into(), Operand::Real(1.0));
    let bad1 = Spec::Move("r".into(), Operand::Int(1));
    let bad2 = Spec::Unary(UnaryOperator::Not, "u".into());
    emit(ctx, &d, &[good1.clone(), good2.clone()], &[1, 0]);
    emit(ctx, &d, &[good1.clone(), bad1.clone()], &[1, 0]);
    emit(ctx, &d, &[bad1.clone(), good1.clone()], &[1, 0]);
    emit(ctx, &d, &[good1.clone(), bad1.clone(), good2.clone(), bad2.clone()], &[3, 2, 1, 0]);
    emit(ctx, &d, &[bad2.clone(), bad1.clone(), bad2.clone(), bad1.clone()], &[1, 0, 3, 2]);
    emit(ctx, &d, &[good1.clone(), good1.clone(), good1.clone(), bad1.clone()], &[3, 0, 1, 2]);
    emit(ctx, &d, &[], &[]);
    // not the type checker's business: MEASURE into an undeclared region, CONVERT between mismatched types
    emit(ctx, &d, &[Spec::Other(4), Spec::Other(5), Spec::Other(3)], &[2, 0, 1]);
    // re-declaration: the last DECLARE wins (memory_regions is a map)
    let mut redecl = std_decls();
    redecl.push(("r".into(), ScalarType::Integer, None));
    emit(ctx, &redecl, &[Spec::Frame(1, addr("r", 0)), good1.clone()], &[1, 0]);
    // no declarations at all
    emit(ctx, &vec![], &[Spec::Frame(1, real(1.0)), Spec::Frame(1, addr("r", 0))], &[1, 0]);
    // other region names (renaming sends n to "~n")
    let d2: DeclSpec = vec![("theta".into(), ScalarType::Real, None), ("ro".into(), ScalarType::Bit, None), ("~b".into(), ScalarType::Integer, None)];
    emit(ctx, &d2, &[Spec::Frame(4, addr("theta", 0)), Spec::Cmp(ComparisonOperator::LessThan, "ro".into(), "theta".into(), Operand::Ref("theta".into())), Spec::Unary(UnaryOperator::Neg, "~b".into())], &[2, 1, 0]);
}

fn main() {
    main_with(run)
}

fn run(ctx: &mut Ctx) {
    use ExpressionFunction::*;
    let d = std_decls();
    // 1. corpus
    corpus(ctx);

    // 2a. exhaustive: every single-instruction classical program over {b,i,o,r,u}, every operator
    for s in classical_pool(true) {
        emit(ctx, &d, &[s], &[0]);
    }
    // 2a'. the same shapes (one operator per kind) under declarations with SHARING/OFFSET (+ 40 unrelated
    //      regions, another order) and under re-declarations (first a wrong type, then the right one)
    for decls in [sharing_decls(), redeclared_decls()] {
        for s in classical_pool(false) {
            emit(ctx, &decls, &[s], &[0]);
        }
        for leaf in leaf_alphabet_full() {
            emit(ctx, &decls, &[Spec::Frame(4, call(Sine, leaf))], &[0]);
        }
    }
    // 2b. exhaustive: expressions of depth ≤ 1 over 9 leaves and EVERY operator, in each of the 5 instructions
    let full = Alphabet::full(leaf_alphabet_full());
    for e in all_exprs(&full, 1) {
        for k in 0..5 {
            emit(ctx, &d, &[Spec::Frame(k, e.clone())], &[0]);
        }
    }
    // 2c. exhaustive: depth 2 (quick) / depth 3 (thorough) over a reduced alphabet (the checker treats all
    //     functions / prefix / infix operators alike)
    let small = Alphabet {
        leaves: vec![addr("r", 0), addr("i", 0), var("x"), real(1.0)],
        functions: vec![Cosine],
        prefix: vec![],
        infix: vec![InfixOperator::Caret],
    };
    let mid = Alphabet {
        leaves: vec![addr("r", 0), addr("i", 0), addr("u", 0), var("x"), real(1.0), num(0.0, 1.0), Expression::PiConstant()],
        functions: vec![Cosine],
        prefix: vec![PrefixOperator::Minus],
        infix: vec![InfixOperator::Caret],
    };
    let mut k = 0usize;
    let deep = if ctx.quick() { all_exprs(&mid, 2) } else { all_exprs(&small, 3) };
    for e in deep {
        emit(ctx, &d, &[Spec::Frame(k % 5, e)], &[0]);
        k += 1;
    }
    if !ctx.quick() {
        for e in all_exprs(&mid, 2) {
            emit(ctx, &d, &[Spec::Frame(k % 5, e)], &[0]);
            k += 1;
        }
    }

    // 2d. exhaustive pairs over a representative pool (one operator per kind; every well-typed shape and a
    //     sample of ill-typed ones of every error kind), both orders
    let pool1 = classical_pool(false);
    let good: Vec<Spec> = pool1.iter().filter(|s| is_ok(&d, s)).cloned().collect();
    let bad: Vec<Spec> = pool1.iter().filter(|s| !is_ok(&d, s)).cloned().collect();
    let mut rep: Vec<Spec> = good.iter().step_by(if ctx.quick() { 3 } else { 1 }).cloned().collect();
    rep.extend(bad.iter().step_by(if ctx.quick() { 23 } else { 7 }).cloned());
    rep.push(Spec::Frame(1, infix(addr("r", 0), InfixOperator::Plus, Expression::PiConstant())));
    rep.push(Spec::Frame(3, call(Sine, var("x"))));
    for a in &rep {
        for b in &rep {
            emit(ctx, &d, &[a.clone(), b.clone()], &[1, 0]);
        }
    }

    // 3. random programs of 1–4 (thorough: 1–8) instructions, biased towards well-typed instructions so that
    //    errors occur at every position; random expressions to depth 3 (thorough: 6)
    let mut rng = ctx.rng(30);
    let n = if ctx.quick() { 25_000 } else { 400_000 };
    let max_len = if ctx.quick() { 4 } else { 8 };
    let max_depth = if ctx.quick() { 3 } else { 6 };
    let real_alphabet = Alphabet::full(vec![addr("r", 0), addr("r", 1), real(0.5), real(-3.0), Expression::PiConstant(), num(2.0, 1e-17)]);
    let all_ops_pool = classical_pool(true);
    let good_all: Vec<Spec> = all_ops_pool.iter().filter(|s| is_ok(&d, s)).cloned().collect();
    for _ in 0..n {
        let len = 1 + rng.below(max_len) as usize;
        let p_bad = *rng.pick(&[0u64, 5, 15, 40]);
        let mut body = Vec::with_capacity(len);
        for _ in 0..len {
            let want_bad = rng.below(100) < p_bad;
            if rng.chance(1, 4) {
                let depth = rng.below(max_depth + 1) as usize;
                let e = if want_bad {
                    random_expr(&mut rng, &full, depth)
                } else {
                    random_expr(&mut rng, &real_alphabet, depth)
                };
                body.push(Spec::Frame(rng.below(5) as usize, e));
            } else if want_bad {
                body.push(rng.pick(&all_ops_pool).clone());
            } else {
                body.push(rng.pick(&good_all).clone());
            }
        }
        let body: Vec<Spec> = body.iter().map(|s| vary(s, &mut rng)).collect();
        let perm = random_perm(&mut rng, len);
        match rng.below(6) {
            0 => emit(ctx, &sharing_decls(), &body, &perm),
            1 => emit(ctx, &redeclared_decls(), &body, &perm),
            _ => emit(ctx, &d, &body, &perm),
        }
    }

    // 4. long programs (33–130 instructions, beyond any small-collection fast path): well-typed except for at
    //    most two ill-typed instructions at random positions, so that the error index is large
    let n_long = if ctx.quick() { 150 } else { 3_000 };
    for k in 0..n_long {
        let len = 33 + rng.below(98) as usize;
        let mut body: Vec<Spec> = (0..len)
            .map(|_| {
                if rng.chance(1, 5) {
                    Spec::Frame(rng.below(5) as usize, random_expr(&mut rng, &real_alphabet, 2))
                } else if rng.chance(1, 6) {
                    Spec::Other(rng.below(N_OTHER as u64) as usize)
                } else {
                    rng.pick(&good_all).clone()
                }
            })
            .collect();
        for _ in 0..(k % 3) {
            let at = rng.below(len as u64) as usize;
            body[at] = if rng.chance(1, 3) {
                Spec::Frame(2, random_expr(&mut rng, &full, 3))
            } else {
                rng.pick(&all_ops_pool).clone()
            };
        }
        let perm = random_perm(&mut rng, len);
        let decls = if k % 4 == 0 { sharing_decls() } else { d.clone() };
        emit(ctx, &decls, &body, &perm);
    }
}
