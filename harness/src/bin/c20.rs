//! C20 — gate-sequence expansion substitutes correctly and keeps needed definitions.
//! Input `(prog (defs …) (body …) (sel …) (extras b))`; output: the shared observation of BOTH entry points
//! (`Program::expand_defgate_sequences`, `Program::expand_defgate_sequences_with_source_map`), see
//! `seqgate::observe`. Streams: `seqgate::run_streams`.
use qvh::seqgate::run_streams;
use qvh::*;

fn main() {
    main_with(|ctx| run_streams(ctx, 20))
}
