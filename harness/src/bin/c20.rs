//! C20 — gate-sequence expansion substitutes correctly and keeps needed definitions.
//! Input `(prog (defs …) (body …) (sel …))`, output of the real `Program::expand_defgate_sequences`:
//! `(ok (body instr…) (kept "name"…) (intact b))` or `(err <error>)` (wire format: `seqgate.rs`).
use qvh::seqgate::*;
use qvh::*;

fn emit(ctx: &mut Ctx, c: &Case) {
    let Some(program) = c.build() else { return };
    let mut table = PhTable::default();
    let input = case_to_sexp(c, &mut table);
    let sel = c.sel.clone();
    ctx.case(input, move || {
        let original = program.clone();
        match program.expand_defgate_sequences(filter_of(&sel)) {
            Ok(result) => {
                let (kept, intact) = kept_to_sexp(&original, &result);
                tagged("ok", vec![body_to_sexp(&result, &mut table), kept, intact])
            }
            Err(e) => tagged("err", vec![program_error_to_sexp(&e, &mut table)]),
        }
    });
}

fn run(ctx: &mut Ctx) {
    // (1) corpus
    for c in corpus() {
        emit(ctx, &c);
    }
    // (2) exhaustive small alphabet: definitions of a, b with bodies of ≤ 1 (quick) / ≤ 2 (thorough) elements
    let mut cases = vec![];
    exhaustive(if ctx.quick() { 1 } else { 2 }, &mut |c| cases.push(c));
    for c in &cases {
        emit(ctx, c);
    }
    drop(cases);
    // (3) seeded random, larger
    let mut rng = ctx.rng(20);
    let n = if ctx.quick() { 20_000 } else { 300_000 };
    for i in 0..n {
        let c = if i % 4 == 3 { random_case(&mut rng, 5, 10) } else { random_case(&mut rng, 4, 6) };
        emit(ctx, &c);
    }
    // (4) definitions that bypass try_new (defensive error paths)
    let mut rng = ctx.rng(21);
    let n = if ctx.quick() { 3_000 } else { 40_000 };
    for _ in 0..n {
        let c = random_unchecked_case(&mut rng);
        emit(ctx, &c);
    }
}

fn main() {
    main_with(run)
}
