//! C31 — extern signatures round-trip and CALL resolution follows the rules.
//!
//! Streams: `sig` (build a signature with the public constructors, print it, lex the text with the real
//! lexer, parse it back with `ExternSignature::from_str`), `parse` (`from_str` on arbitrary token soup; the
//! token list the real lexer produced is sent along, identifiers annotated with `validate_user_identifier`),
//! `call` (a real `Program` with DECLAREs and PRAGMA EXTERNs, `try_extern_signature_map_from_pragma_map`,
//! `Call::resolve_arguments`).
use num_complex::Complex64;
use qvh::*;
use quil_rs::instruction::{
    DefaultHandler, InstructionHandler, Call, CallArgumentError, CallArgumentResolutionError, CallResolutionError, CallSignatureError, Declaration,
    ExternError, ExternParameter, ExternParameterType, ExternSignature, Instruction, Pragma, PragmaArgument,
    ResolvedCallArgument, ScalarType, UnresolvedCallArgument, Vector, MemoryReference, Offset, Sharing,
};
use quil_rs::quil::Quil;
use quil_rs::validation::identifier::validate_user_identifier;
use quil_rs::verif_hooks::{self, DataType, Token};
use quil_rs::Program;
use std::str::FromStr;

const TYPES: [ScalarType; 4] = [ScalarType::Bit, ScalarType::Integer, ScalarType::Octet, ScalarType::Real];

fn ty_atom(t: ScalarType) -> Sexp {
    atom(match t {
        ScalarType::Bit => "BIT",
        ScalarType::Integer => "INTEGER",
        ScalarType::Octet => "OCTET",
        ScalarType::Real => "REAL",
    })
}

fn enc_ptype(t: &ExternParameterType) -> Sexp {
    match t {
        ExternParameterType::Scalar(s) => tagged("s", vec![ty_atom(*s)]),
        ExternParameterType::FixedLengthVector(v) => tagged("f", vec![ty_atom(v.data_type), nat(v.length)]),
        ExternParameterType::VariableLengthVector(s) => tagged("v", vec![ty_atom(*s)]),
    }
}

fn enc_sig(s: &ExternSignature) -> Sexp {
    let mut v = vec![match s.return_type() {
        None => atom("none"),
        Some(t) => ty_atom(*t),
    }];
    for p in s.parameters() {
        v.push(tagged("p", vec![st(p.name()), boolean(p.mutable()), enc_ptype(p.data_type())]));
    }
    tagged("sig", v)
}

/// A signature before it is built with the public constructors.
#[derive(Clone, Debug)]
struct SigSpec {
    ret: Option<ScalarType>,
    params: Vec<(String, bool, ExternParameterType)>,
}

fn enc_sigspec(s: &SigSpec) -> Sexp {
    let mut v = vec![match s.ret {
        None => atom("none"),
        Some(t) => ty_atom(t),
    }];
    for (n, m, t) in &s.params {
        v.push(tagged("p", vec![st(n.clone()), boolean(*m), enc_ptype(t)]));
    }
    tagged("sig", v)
}

fn build_sig(s: &SigSpec) -> Result<ExternSignature, ExternError> {
    let mut ps = Vec::new();
    for (n, m, t) in &s.params {
        ps.push(ExternParameter::try_new(n.clone(), *m, t.clone())?);
    }
    Ok(ExternSignature::new(s.ret, ps))
}

fn enc_token(t: &Token) -> Sexp {
    match t {
        Token::DataType(d) => tagged(
            "dt",
            vec![atom(match d {
                DataType::Bit => "BIT",
                DataType::Integer => "INTEGER",
                DataType::Octet => "OCTET",
                DataType::Real => "REAL",
            })],
        ),
        Token::LParenthesis => atom("lp"),
        Token::RParenthesis => atom("rp"),
        Token::Comma => atom("comma"),
        Token::Colon => atom("colon"),
        Token::Mutable => atom("mut"),
        Token::LBracket => atom("lb"),
        Token::RBracket => atom("rb"),
        Token::Integer(n) => tagged("int", vec![nat(*n)]),
        Token::Identifier(s) => tagged("id", vec![st(s.clone()), boolean(validate_user_identifier(s).is_ok())]),
        other => tagged("other", vec![st(format!("{other:?}"))]),
    }
}

fn enc_lex(text: &str) -> Sexp {
    match verif_hooks::lex_tokens(text) {
        Ok(toks) => tagged("toks", toks.iter().map(enc_token).collect()),
        Err(_) => tagged("lexerr", vec![]),
    }
}

fn enc_from_str(text: &str) -> Sexp {
    let r = ExternSignature::from_str(text);
    if let Err(e) = &r {
        let _ = format!("{e} {e:#} {e:?}");
    }
    match r {
        Ok(s) => tagged("ok", vec![enc_sig(&s)]),
        Err(ExternError::Lex(_)) => tagged("err", vec![atom("lex")]),
        Err(ExternError::Syntax(_)) => tagged("err", vec![atom("syntax")]),
        Err(ExternError::NoReturnOrParameters) => tagged("err", vec![atom("noret")]),
        Err(ExternError::Name(_)) => tagged("err", vec![atom("name")]),
        Err(_) => tagged("err", vec![atom("other")]),
    }
}

fn sig_case(ctx: &mut Ctx, s: &SigSpec) {
    let names = tagged(
        "names",
        s.params.iter().map(|(n, _, _)| list(vec![st(n.clone()), boolean(validate_user_identifier(n).is_ok())])).collect(),
    );
    ctx.case(tagged("sig-roundtrip", vec![enc_sigspec(s), names]), || {
        let sig = match build_sig(s) {
            Ok(sig) => sig,
            Err(_) => return tagged("ctorerr", vec![]),
        };
        let text = match sig.to_quil() {
            Ok(t) => t,
            Err(_) => return tagged("printerr", vec![]),
        };
        tagged("printed", vec![st(text.clone()), enc_lex(&text), enc_from_str(&text)])
    });
}

fn parse_case(ctx: &mut Ctx, text: &str) {
    let text = text.to_string();
    ctx.case(tagged("parse", vec![st(text.clone()), enc_lex(&text)]), || enc_from_str(&text));
}

// ---------------------------------------------------------------------------------------------
// CALL resolution

#[derive(Clone, Debug)]
enum ArgSpec {
    Id(String),
    Ref(String, u64),
    Imm(usize),
}

/// every kind of immediate: zero, positive, negative, complex, purely imaginary negative, huge, subnormal, -0.0,
/// infinite, NaN (values are copied, never inspected, by resolution)
const IMMEDIATES: [(f64, f64); 10] = [
    (0.0, 0.0),
    (1.5, 0.0),
    (-2.0, 0.0),
    (1.0, 2.0),
    (0.0, -3.5),
    (1.7976931348623157e308, -1.7976931348623157e308),
    (5e-324, 0.0),
    (-0.0, 0.0),
    (f64::INFINITY, f64::NEG_INFINITY),
    (f64::NAN, 0.0),
];

fn enc_arg(a: &ArgSpec) -> Sexp {
    match a {
        ArgSpec::Id(n) => tagged("id", vec![st(n.clone())]),
        ArgSpec::Ref(n, i) => tagged("ref", vec![st(n.clone()), nat(*i)]),
        ArgSpec::Imm(k) => tagged("imm", vec![nat(*k as u64)]),
    }
}

fn imm_index(v: &Complex64) -> u64 {
    IMMEDIATES.iter().position(|(re, im)| re.to_bits() == v.re.to_bits() && im.to_bits() == v.im.to_bits()).map(|i| i as u64).unwrap_or(1000)
}

fn enc_resolved(r: &ResolvedCallArgument) -> Sexp {
    match r {
        ResolvedCallArgument::Vector { memory_region_name, vector, mutable } => {
            tagged("vec", vec![st(memory_region_name.clone()), ty_atom(vector.data_type), nat(vector.length), boolean(*mutable)])
        }
        ResolvedCallArgument::MemoryReference { memory_reference, scalar_type, mutable } => tagged(
            "ref",
            vec![st(memory_reference.name.clone()), nat(memory_reference.index), ty_atom(*scalar_type), boolean(*mutable)],
        ),
        ResolvedCallArgument::Immediate { value, scalar_type } => tagged("imm", vec![nat(imm_index(value)), ty_atom(*scalar_type)]),
    }
}

// error enums are matched with wildcard arms: a new variant is reported as `other…`, never a build failure
#[allow(unreachable_patterns)]
fn enc_argerr(e: &CallArgumentResolutionError) -> Sexp {
    match e {
        CallArgumentResolutionError::UndeclaredMemoryReference(n) => tagged("undeclared", vec![st(n.clone())]),
        CallArgumentResolutionError::MismatchedVector { expected, found } => tagged(
            "mvec",
            vec![ty_atom(expected.data_type), nat(expected.length), ty_atom(found.data_type), nat(found.length)],
        ),
        CallArgumentResolutionError::MismatchedScalar { expected, found } => tagged("mscal", vec![ty_atom(*expected), ty_atom(*found)]),
        CallArgumentResolutionError::InvalidVectorArgument(_) => atom("invvec"),
        CallArgumentResolutionError::ReturnArgument { .. } => atom("retarg"),
        CallArgumentResolutionError::ImmediateArgumentForMutable(p) => tagged("immmut", vec![st(p.clone())]),
        _ => atom("otherargerr"),
    }
}

/// `SHARING parent [OFFSET n type ...]` of a declaration
type Sh = Option<(String, Vec<(u64, ScalarType)>)>;
type Region = (String, ScalarType, u64, Sh);

fn sh(parent: &str, offsets: &[(u64, ScalarType)]) -> Sh {
    Some((parent.to_string(), offsets.to_vec()))
}

struct CallCase {
    /// `Call::try_new` (validates the name) or the struct literal (public fields, no validation)
    direct: bool,
    regions: Vec<Region>,
    externs: Vec<(String, SigSpec)>,
    name: String,
    args: Vec<ArgSpec>,
}

fn call_case(ctx: &mut Ctx, c: &CallCase) {
    let input = tagged(
        "call",
        vec![
            tagged(
                "regions",
                c.regions
                    .iter()
                    .map(|(n, t, l, sh)| {
                        // the sharing clause is part of the input (replay) but the model ignores it, as `resolve` does
                        let mut v = vec![st(n.clone()), ty_atom(*t), nat(*l)];
                        if let Some((parent, offsets)) = sh {
                            let mut w = vec![st(parent.clone())];
                            w.extend(offsets.iter().map(|(o, t)| list(vec![nat(*o), ty_atom(*t)])));
                            v.push(tagged("sharing", w));
                        }
                        tagged("r", v)
                    })
                    .collect(),
            ),
            tagged("externs", c.externs.iter().map(|(n, s)| tagged("e", vec![st(n.clone()), enc_sigspec(s)])).collect()),
            st(c.name.clone()),
            tagged("args", c.args.iter().map(enc_arg).collect()),
            tagged("how", vec![atom(if c.direct { "direct" } else { "new" }), boolean(validate_user_identifier(&c.name).is_ok())]),
        ],
    );
    ctx.case(input, || {
        let mut program = Program::new();
        for (n, t, l, sh) in &c.regions {
            let sharing = sh.as_ref().map(|(parent, offsets)| {
                Sharing::new(parent.clone(), offsets.iter().map(|(o, t)| Offset::new(*o, *t)).collect())
            });
            program.add_instruction(Instruction::Declaration(Declaration::new(n.clone(), Vector::new(*t, *l), sharing)));
        }
        for (n, s) in &c.externs {
            let sig = match build_sig(s) {
                Ok(sig) => sig,
                Err(_) => return tagged("ctorerr", vec![]),
            };
            let text = match sig.to_quil() {
                Ok(t) => t,
                Err(_) => return tagged("printerr", vec![]),
            };
            program.add_instruction(Instruction::Pragma(Pragma::new(
                "EXTERN".to_string(),
                vec![PragmaArgument::Identifier(n.clone())],
                Some(text),
            )));
        }
        let map = match program.try_extern_signature_map_from_pragma_map() {
            Ok(m) => m,
            Err(_) => return tagged("externerr", vec![]),
        };
        let args = c
            .args
            .iter()
            .map(|a| match a {
                ArgSpec::Id(n) => UnresolvedCallArgument::Identifier(n.clone()),
                ArgSpec::Ref(n, i) => UnresolvedCallArgument::MemoryReference(MemoryReference::new(n.clone(), *i)),
                ArgSpec::Imm(k) => UnresolvedCallArgument::Immediate(Complex64::new(IMMEDIATES[*k].0, IMMEDIATES[*k].1)),
            })
            .collect();
        let call = if c.direct {
            Call { name: c.name.clone(), arguments: args }
        } else {
            match Call::try_new(c.name.clone(), args) {
                Ok(c) => c,
                Err(e) => {
                    let _ = format!("{e} {e:?}");
                    return tagged("callnameerr", vec![]);
                }
            }
        };
        // sibling observation: the memory accesses the default handler reports for the same CALL
        let accesses = match DefaultHandler.memory_accesses(&map, &Instruction::Call(call.clone())) {
            Ok(a) => {
                let mut reads: Vec<String> = a.reads.into_iter().collect();
                let mut writes: Vec<String> = a.writes.into_iter().collect();
                reads.sort();
                writes.sort();
                tagged(
                    "acc",
                    vec![
                        tagged("reads", reads.into_iter().map(st).collect()),
                        tagged("writes", writes.into_iter().map(st).collect()),
                        boolean(a.captures.is_empty()),
                    ],
                )
            }
            Err(e) => {
                let _ = format!("{e} {e:?}");
                tagged("accerr", vec![])
            }
        };
        let outcome = match call.resolve_arguments(&program.memory_regions, &map) {
            Ok(rs) => tagged("ok", rs.iter().map(enc_resolved).collect()),
            Err(e) => {
                // formatting is part of the observation (Display, alternate, Debug)
                let _ = format!("{e} {e:#} {e:?}");
                match e {
                    CallResolutionError::NoMatchingExternInstruction(_) => tagged("noextern", vec![]),
                    CallResolutionError::ExternSignature(_) => tagged("externerr", vec![]),
                    CallResolutionError::Signature { error, .. } => match error {
                        CallSignatureError::ParameterCount { expected, found } => {
                            tagged("count", vec![nat(expected as u64), nat(found as u64)])
                        }
                        CallSignatureError::Arguments(es) => tagged(
                            "args",
                            es.iter()
                                .map(|e| match e {
                                    CallArgumentError::Return(e) => tagged("ret", vec![enc_argerr(e)]),
                                    CallArgumentError::Argument { index, error } => {
                                        tagged("arg", vec![nat(*index as u64), enc_argerr(error)])
                                    }
                                    #[allow(unreachable_patterns)]
                                    _ => atom("othercallargerr"),
                                })
                                .collect(),
                        ),
                        #[allow(unreachable_patterns)]
                        _ => tagged("othersigerr", vec![]),
                    },
                    #[allow(unreachable_patterns)]
                    _ => tagged("otherresolutionerr", vec![]),
                }
            }
        };
        tagged("res", vec![outcome, accesses])
    });
}


// ---------------------------------------------------------------------------------------------
// the PRAGMA EXTERN route: Program::add_instruction -> ExternPragmaMap -> ExternSignatureMap

#[derive(Clone, Debug)]
enum PArg {
    Id(String),
    Int(u64),
}

#[derive(Clone, Debug)]
struct PragmaSpec {
    pname: &'static str,
    args: Vec<PArg>,
    data: Option<String>,
}

fn real_pragma(p: &PragmaSpec) -> Pragma {
    Pragma::new(
        p.pname.to_string(),
        p.args
            .iter()
            .map(|a| match a {
                PArg::Id(s) => PragmaArgument::Identifier(s.clone()),
                PArg::Int(n) => PragmaArgument::Integer(*n),
            })
            .collect(),
        p.data.clone(),
    )
}

#[allow(unreachable_patterns)]
fn extern_err_class(e: &ExternError) -> &'static str {
    let _ = format!("{e} {e:#} {e:?}");
    match e {
        ExternError::Syntax(_) => "syntax",
        ExternError::Lex(_) => "lex",
        ExternError::InvalidPragmaArguments => "invalidargs",
        ExternError::NoSignature => "nosignature",
        ExternError::NoName => "noname",
        ExternError::PragmaIsNotExtern => "notextern",
        ExternError::NoReturnOrParameters => "noret",
        ExternError::Name(_) => "name",
        _ => "other",
    }
}

fn map_result(program: &Program) -> Sexp {
    match program.try_extern_signature_map_from_pragma_map() {
        Ok(map) => tagged("ok", map.iter().map(|(n, s)| tagged("e", vec![st(n.clone()), enc_sig(s)])).collect()),
        Err((pragma, e)) => {
            let key = match pragma.arguments.first() {
                Some(PragmaArgument::Identifier(n)) => tagged("some", vec![st(n.clone())]),
                _ => atom("none"),
            };
            tagged("err", vec![key, atom(extern_err_class(&e))])
        }
    }
}

fn pragma_case(ctx: &mut Ctx, pragmas: &[PragmaSpec]) {
    let input = tagged(
        "externmap",
        pragmas
            .iter()
            .map(|p| {
                tagged(
                    "pragma",
                    vec![
                        st(p.pname),
                        tagged(
                            "args",
                            p.args
                                .iter()
                                .map(|a| match a {
                                    PArg::Id(s) => tagged("id", vec![st(s.clone()), boolean(validate_user_identifier(s).is_ok())]),
                                    PArg::Int(n) => tagged("int", vec![nat(*n)]),
                                })
                                .collect(),
                        ),
                        match &p.data {
                            None => atom("nodata"),
                            Some(t) => tagged("data", vec![st(t.clone()), enc_lex(t)]),
                        },
                    ],
                )
            })
            .collect(),
    );
    ctx.case(input, || {
        // route 1: the API
        let mut program = Program::new();
        for p in pragmas {
            program.add_instruction(Instruction::Pragma(real_pragma(p)));
        }
        let api = map_result(&program);
        // sibling: `ExternSignature::try_from(pragma)` on every pragma separately
        let each = pragmas
            .iter()
            .map(|p| match ExternSignature::try_from(real_pragma(p)) {
                Ok(s) => tagged("ok", vec![enc_sig(&s)]),
                Err(e) => tagged("err", vec![atom(extern_err_class(&e))]),
            })
            .collect();
        // route 2: print the pragmas, parse the text, convert again; route 3: `+` of one program per pragma
        let text: Option<String> = pragmas.iter().map(|p| Instruction::Pragma(real_pragma(p)).to_quil().ok()).collect::<Option<Vec<_>>>().map(|v| v.join("\n"));
        let via_text = match text.and_then(|t| Program::from_str(&t).ok()) {
            // only comparable when the text reads back as the same pragmas
            Some(p2) if p2.to_instructions() == program.to_instructions() => {
                if map_result(&p2) == api {
                    atom("same")
                } else {
                    atom("differs")
                }
            }
            _ => atom("skipped"),
        };
        let mut sum = Program::new();
        for p in pragmas {
            sum = sum + Program::from_instructions(vec![Instruction::Pragma(real_pragma(p))]);
        }
        let via_add = if map_result(&sum) == api { atom("same") } else { atom("differs") };
        tagged("res", vec![api, tagged("each", each), via_text, via_add])
    });
}

// ---------------------------------------------------------------------------------------------

fn param_kinds(types: &[ScalarType], lens: &[u64]) -> Vec<(bool, ExternParameterType)> {
    let mut v = Vec::new();
    for &t in types {
        for m in [false, true] {
            v.push((m, ExternParameterType::Scalar(t)));
            v.push((m, ExternParameterType::VariableLengthVector(t)));
            for &l in lens {
                v.push((m, ExternParameterType::FixedLengthVector(Vector::new(t, l))));
            }
        }
    }
    v
}

fn sequences<T: Clone>(alphabet: &[T], min_len: usize, max_len: usize, f: &mut impl FnMut(&[T])) {
    fn rec<T: Clone>(alphabet: &[T], min_len: usize, max_len: usize, cur: &mut Vec<T>, f: &mut impl FnMut(&[T])) {
        if cur.len() >= min_len {
            f(cur);
        }
        if cur.len() == max_len {
            return;
        }
        for a in alphabet {
            cur.push(a.clone());
            rec(alphabet, min_len, max_len, cur, f);
            cur.pop();
        }
    }
    rec(alphabet, min_len, max_len, &mut Vec::new(), f);
}

const GOOD_NAMES: [&str; 12] = ["a", "b", "bar", "b-c", "x--1", "_", "_9", "Q0", "integer", "Mut", "pi2", "mutable"];
const BAD_NAMES: [&str; 16] =
    ["mut", "INTEGER", "BIT", "H", "pi", "i", "DAGGER", "a-", "-a", "1a", "", "a b", "AS", "MEASURE", "é", "PAULI-SUM"];

fn main() {
    main_with(run)
}

fn run(ctx: &mut Ctx) {
    let quick = ctx.quick();
    let pname = |i: usize| ["a", "b", "c", "d"][i].to_string();

    // ---- 1. corpus ------------------------------------------------------------------------------
    for text in [
        "INTEGER (bar : INTEGER, baz : mut BIT[2])",
        "(bar : INTEGER, baz : mut BIT[2])",
        "INTEGER",
        "INTEGER ()",
        "()",
        "",
        "(a : REAL[])",
        "(a : mut REAL[])",
        "(a : REAL[ ])",
        "(a : REAL [2])",
        "(a : REAL[2][3])",
        "(a : REAL,)",
        "(a : REAL,, b : BIT)",
        "(,a : REAL)",
        "(a : REAL b : BIT)",
        "(a REAL)",
        "(a : mut mut REAL)",
        "(mut : REAL)",
        "(H : REAL)",
        "(pi : REAL)",
        "(a : REAL) INTEGER",
        "INTEGER INTEGER",
        "INTEGER (a : REAL",
        "(a : REAL))",
        "(a : real)",
        "(a-b : REAL)",
        "(a- : REAL)",
        "(a : REAL[-1])",
        "(a : REAL[1.5])",
        "(a : REAL[0x10])",
        "INTEGER # comment",
        "INTEGER\n(a : REAL)",
        "\t(a : REAL)",
        "(a : REAL[18446744073709551615])",
        "(a : REAL[18446744073709551616])",
        "(a:REAL,b:mut BIT[2])",
        "(\"a\" : REAL)",
        "(%a : REAL)",
        "Integer",
        "integer (a : REAL)",
        "(a : Real)",
        "(a : MUT REAL)",
        "(a : Mut REAL)",
        "(A : mut REAL)",
        "INTEGER  (  a  :  mut   REAL [ 2 ] ,b:BIT[  ]  )",
        "INTEGER\t(a : REAL)",
        "(a\t:\tREAL)",
        "    (a : REAL)",
        "(a : REAL)    ",
        "(a : REAL)\n",
        "(a : REAL);",
        "(a : REAL[02])",
        "(a : REAL[0b10])",
        "(a : REAL[1_0])",
        "(a : REAL[4294967296])",
        "(a:mut REAL[],b:mut REAL[],c:mut REAL[],d:mut REAL[],e:mut REAL[],f:mut REAL[],g:mut REAL[],h:mut REAL[])",
    ] {
        parse_case(ctx, text);
    }
    sig_case(ctx, &SigSpec { ret: None, params: vec![] });
    for n in GOOD_NAMES.iter().chain(BAD_NAMES.iter()) {
        sig_case(ctx, &SigSpec { ret: None, params: vec![(n.to_string(), false, ExternParameterType::Scalar(ScalarType::Real))] });
        sig_case(ctx, &SigSpec {
            ret: Some(ScalarType::Bit),
            params: vec![
                ("ok".to_string(), true, ExternParameterType::VariableLengthVector(ScalarType::Octet)),
                (n.to_string(), true, ExternParameterType::FixedLengthVector(Vector::new(ScalarType::Integer, 3))),
            ],
        });
    }

    // ---- 2. exhaustive signatures -----------------------------------------------------------------
    // arity <= 2 (quick) / <= 3 (thorough) over 4 scalar types x {scalar, fixed[n], variable[]} x mutability,
    // with and without return type (thorough arity 3 restricted to two element types to stay within budget)
    {
        let kinds = param_kinds(&TYPES, &[2]);
        let kinds_small = param_kinds(&[ScalarType::Integer, ScalarType::Real], &[0, 2]);
        let rets: Vec<Option<ScalarType>> = std::iter::once(None).chain(TYPES.iter().map(|t| Some(*t))).collect();
        for ret in &rets {
            sequences(&kinds, 0, 2, &mut |ps| {
                let params = ps.iter().enumerate().map(|(i, (m, t))| (pname(i), *m, t.clone())).collect();
                sig_case(ctx, &SigSpec { ret: *ret, params });
            });
        }
        if !quick {
            for ret in [None, Some(ScalarType::Bit)] {
                sequences(&kinds_small, 3, 3, &mut |ps| {
                    let params = ps.iter().enumerate().map(|(i, (m, t))| (pname(i), *m, t.clone())).collect();
                    sig_case(ctx, &SigSpec { ret, params });
                });
            }
        }
    }

    // ---- 3. the parser on token soup ---------------------------------------------------------------
    {
        let vocab = ["INTEGER", "BIT", "(", ")", ",", ":", "mut", "[", "]", "2", "a", "H"];
        sequences(&vocab, 0, if quick { 4 } else { 5 }, &mut |ws| parse_case(ctx, &ws.join(" ")));
    }

    let mut rng = ctx.rng(31);
    let all_kinds = param_kinds(&TYPES, &[0, 1, 2, 7, 2_147_483_648, 4_294_967_296, u64::MAX]);
    let rand_sig = |rng: &mut Rng, max_arity: u64, names: &[&str]| {
        let n = rng.below(max_arity + 1) as usize;
        SigSpec {
            ret: if rng.chance(1, 2) { None } else { Some(*rng.pick(&TYPES)) },
            params: (0..n)
                .map(|_| {
                    let (m, t) = rng.pick(&all_kinds).clone();
                    (rng.pick(names).to_string(), m, t)
                })
                .collect(),
        }
    };
    // random signatures with awkward names, larger arity
    for _ in 0..(if quick { 3000 } else { 60_000 }) {
        let s = if rng.chance(1, 6) {
            let names: Vec<&str> = GOOD_NAMES.iter().chain(BAD_NAMES.iter()).copied().collect();
            rand_sig(&mut rng, 4, &names)
        } else {
            rand_sig(&mut rng, 6, &GOOD_NAMES)
        };
        sig_case(ctx, &s);
    }
    // mutations of printed signatures: drop / duplicate / replace / swap one word
    {
        let words = ["INTEGER", "BIT", "REAL", "OCTET", "(", ")", ",", ":", "mut", "[", "]", "[]", "2", "0", "a", "H", "x-1", "1.5", "#c", "%v", "pi", "-"];
        for _ in 0..(if quick { 8000 } else { 200_000 }) {
            let s = rand_sig(&mut rng, 3, &GOOD_NAMES);
            let text = match build_sig(&s).ok().and_then(|x| x.to_quil().ok()) {
                Some(t) => t,
                None => continue,
            };
            // split into words, keeping punctuation separate
            let spaced = text.replace('(', " ( ").replace(')', " ) ").replace(',', " , ").replace('[', " [ ").replace(']', " ] ");
            let mut ws: Vec<String> = spaced.split_whitespace().map(str::to_string).collect();
            let n_mut = 1 + rng.below(2);
            for _ in 0..n_mut {
                let len = ws.len();
                match rng.below(4) {
                    0 if len > 0 => {
                        ws.remove(rng.below(len as u64) as usize);
                    }
                    1 if len > 0 => {
                        let i = rng.below(len as u64) as usize;
                        let w = ws[i].clone();
                        ws.insert(i, w);
                    }
                    2 if len > 0 => {
                        let i = rng.below(len as u64) as usize;
                        ws[i] = rng.pick(&words).to_string();
                    }
                    _ => {
                        let i = rng.below(len as u64 + 1) as usize;
                        ws.insert(i, rng.pick(&words).to_string());
                    }
                }
            }
            let joined = if rng.chance(1, 2) { ws.join(" ") } else { ws.join("") };
            parse_case(ctx, &joined);
        }
    }

    // ---- 4. CALL resolution -------------------------------------------------------------------------
    // corpus: a region declared SHARING a parent of another type resolves by its OWN declared type
    {
        let regions: Vec<Region> = vec![
            ("ro".into(), ScalarType::Bit, 8, None),
            ("o".into(), ScalarType::Octet, 1, sh("ro", &[])),
            ("o2".into(), ScalarType::Octet, 1, sh("ro", &[(4, ScalarType::Bit)])),
        ];
        for (ret, arg) in [
            (ScalarType::Octet, ArgSpec::Id("o".into())),
            (ScalarType::Bit, ArgSpec::Id("o".into())),
            (ScalarType::Octet, ArgSpec::Ref("o2".into(), 0)),
            (ScalarType::Bit, ArgSpec::Ref("o2".into(), 0)),
            (ScalarType::Bit, ArgSpec::Id("ro".into())),
        ] {
            call_case(ctx, &CallCase {
                direct: false,
                regions: regions.clone(),
                externs: vec![("f".into(), SigSpec { ret: Some(ret), params: vec![] })],
                name: "f".into(),
                args: vec![arg.clone()],
            });
            for (m, t) in [
                (false, ExternParameterType::Scalar(ret)),
                (true, ExternParameterType::Scalar(ret)),
                (true, ExternParameterType::VariableLengthVector(ret)),
                (false, ExternParameterType::FixedLengthVector(Vector::new(ret, 1))),
            ] {
                call_case(ctx, &CallCase {
                    direct: false,
                    regions: regions.clone(),
                    externs: vec![("f".into(), SigSpec { ret: None, params: vec![("p".into(), m, t)] })],
                    name: "f".into(),
                    args: vec![arg.clone()],
                });
            }
        }
    }
    // 4a. exhaustive: signatures of arity <= 1 (quick) / <= 2 (thorough) over {INTEGER, REAL} x {scalar, [2], [3], []} x
    // mutability, with return none/INTEGER/REAL; all argument lists of the matching length (and all of length
    // +-1 built from a 3-argument sub-alphabet) over a 4-region alphabet
    {
        // plain regions, and regions declared SHARING a same-typed / different-typed / undeclared parent, with and
        // without OFFSET, and a chain (sc -> sr -> i2); resolution looks only at the region's own declaration
        let regions: Vec<Region> = vec![
            ("i1".into(), ScalarType::Integer, 1, None),
            ("i2".into(), ScalarType::Integer, 2, None),
            ("r2".into(), ScalarType::Real, 2, None),
            ("si".into(), ScalarType::Integer, 2, sh("r2", &[])),
            ("sr".into(), ScalarType::Real, 2, sh("i2", &[(1, ScalarType::Integer)])),
            ("ss".into(), ScalarType::Integer, 1, sh("i1", &[])),
            ("su".into(), ScalarType::Real, 2, sh("nope", &[(2, ScalarType::Bit)])),
            ("sc".into(), ScalarType::Integer, 2, sh("sr", &[])),
        ];
        let kinds = param_kinds(&[ScalarType::Integer, ScalarType::Real], &[2, 3]);
        let args: Vec<ArgSpec> = vec![
            ArgSpec::Id("i1".into()),
            ArgSpec::Id("i2".into()),
            ArgSpec::Id("r2".into()),
            ArgSpec::Id("nope".into()),
            ArgSpec::Ref("i1".into(), 0),
            ArgSpec::Ref("i2".into(), 1),
            ArgSpec::Ref("r2".into(), 5),
            ArgSpec::Ref("nope".into(), 0),
            ArgSpec::Imm(1),
            ArgSpec::Id("si".into()),
            ArgSpec::Id("sr".into()),
            ArgSpec::Ref("si".into(), 0),
            ArgSpec::Ref("sr".into(), 1),
            ArgSpec::Id("ss".into()),
            ArgSpec::Id("su".into()),
            ArgSpec::Id("sc".into()),
        ];
        // for three-slot calls (thorough) a 10-argument sub-alphabet keeps the product within budget
        let args3: Vec<ArgSpec> = [0usize, 2, 3, 4, 6, 8, 9, 10, 12, 15].iter().map(|&i| args[i].clone()).collect();
        let few: Vec<ArgSpec> = vec![ArgSpec::Id("i1".into()), ArgSpec::Ref("r2".into(), 0), ArgSpec::Imm(0)];
        let max_arity = if quick { 1 } else { 2 };
        for ret in [None, Some(ScalarType::Integer), Some(ScalarType::Real)] {
            let mut sigs = Vec::new();
            sequences(&kinds, 0, max_arity, &mut |ps| {
                sigs.push(SigSpec { ret, params: ps.iter().enumerate().map(|(i, (m, t))| (pname(i), *m, t.clone())).collect() });
            });
            for s in sigs {
                if s.ret.is_none() && s.params.is_empty() {
                    continue;
                }
                let n = s.params.len() + s.ret.is_some() as usize;
                let mut lists = Vec::new();
                sequences(if n >= 3 { &args3 } else { &args }, n, n, &mut |l| lists.push(l.to_vec()));
                if n > 0 {
                    sequences(&few, n - 1, n - 1, &mut |l| lists.push(l.to_vec()));
                }
                sequences(&few, n + 1, n + 1, &mut |l| lists.push(l.to_vec()));
                for l in lists {
                    call_case(ctx, &CallCase { direct: false, regions: regions.clone(), externs: vec![("foo".into(), s.clone())], name: "foo".into(), args: l });
                }
            }
        }
    }
    // 4b. random: arity <= 3 (sometimes up to 5), all four element types, random region declarations
    let region_pool: Vec<(&str, ScalarType, u64, Sh)> = vec![
        ("b1", ScalarType::Bit, 1, None),
        ("b2", ScalarType::Bit, 2, None),
        ("i1", ScalarType::Integer, 1, None),
        ("i2", ScalarType::Integer, 2, None),
        ("i7", ScalarType::Integer, 7, None),
        ("o1", ScalarType::Octet, 1, None),
        ("o2", ScalarType::Octet, 2, None),
        ("r1", ScalarType::Real, 1, None),
        ("r2", ScalarType::Real, 2, None),
        ("r0", ScalarType::Real, 0, None),
        // SHARING: same-typed parent, different-typed parents (every element type), OFFSET, undeclared parent, chain
        ("sb", ScalarType::Bit, 2, sh("b2", &[])),
        ("so", ScalarType::Octet, 1, sh("b2", &[(1, ScalarType::Bit)])),
        ("si", ScalarType::Integer, 2, sh("r2", &[])),
        ("sr", ScalarType::Real, 2, sh("i2", &[(1, ScalarType::Integer), (3, ScalarType::Bit)])),
        ("sq", ScalarType::Bit, 1, sh("o1", &[])),
        ("su", ScalarType::Real, 1, sh("nope", &[])),
        ("sc", ScalarType::Integer, 1, sh("so", &[])),
        // boundary lengths
        ("g32", ScalarType::Integer, 4_294_967_296, None),
        ("g31", ScalarType::Real, 2_147_483_648, None),
        ("gmax", ScalarType::Bit, u64::MAX, None),
    ];
    for _ in 0..(if quick { 20_000 } else { 400_000 }) {
        let regions: Vec<Region> =
            region_pool.iter().filter(|_| rng.chance(3, 4)).map(|(n, t, l, sh)| (n.to_string(), *t, *l, sh.clone())).collect();
        let max_arity = if rng.chance(1, 8) { 5 } else { 3 };
        let mut sig = rand_sig(&mut rng, max_arity, &["p"]);
        for (i, p) in sig.params.iter_mut().enumerate() {
            p.0 = format!("p{i}");
        }
        if sig.ret.is_none() && sig.params.is_empty() {
            sig.ret = Some(ScalarType::Integer);
        }
        let mut externs = vec![("foo".to_string(), sig.clone())];
        if rng.chance(1, 3) {
            let mut other = rand_sig(&mut rng, 2, &["q"]);
            if other.ret.is_none() && other.params.is_empty() {
                other.ret = Some(ScalarType::Bit);
            }
            if rng.chance(1, 2) {
                externs.insert(0, ("bar".to_string(), other));
            } else {
                externs.push(("bar".to_string(), other));
            }
        }
        let name = match rng.below(16) {
            0 => "bar",
            1 => "baz",
            // names `Call::try_new` must reject (reserved / malformed); the struct literal accepts them
            2 => *rng.pick(&["H", "pi", "mut", "a-", "DAGGER", "", "1x", "INTEGER"]),
            _ => "foo",
        };
        let direct = rng.chance(1, 4);
        let target = externs.iter().find(|(n, _)| n == name).map(|(_, s)| s.clone()).unwrap_or(sig.clone());
        // arguments: mostly fitting the target signature, each perturbed with probability 1/4
        let mut args = Vec::new();
        let fitting_region = |rng: &mut Rng, t: ScalarType, len: Option<u64>| -> String {
            let c: Vec<&(&str, ScalarType, u64, Sh)> =
                region_pool.iter().filter(|(_, rt, rl, _)| *rt == t && len.map(|l| l == *rl).unwrap_or(true)).collect();
            if c.is_empty() {
                "nope".to_string()
            } else {
                rng.pick(&c).0.to_string()
            }
        };
        let random_arg = |rng: &mut Rng| match rng.below(3) {
            0 => ArgSpec::Id(if rng.chance(1, 8) { "nope".to_string() } else { rng.pick(&region_pool).0.to_string() }),
            1 => ArgSpec::Ref(
                if rng.chance(1, 8) { "nope".to_string() } else { rng.pick(&region_pool).0.to_string() },
                if rng.chance(1, 10) { *rng.pick(&[u64::MAX, 4_294_967_296, 9_007_199_254_740_993]) } else { rng.below(3) },
            ),
            _ => ArgSpec::Imm(rng.below(IMMEDIATES.len() as u64) as usize),
        };
        if let Some(t) = target.ret {
            let n = fitting_region(&mut rng, t, None);
            args.push(if rng.chance(1, 2) { ArgSpec::Id(n) } else { ArgSpec::Ref(n, rng.below(2)) });
        }
        for (_, m, t) in &target.params {
            args.push(match t {
                ExternParameterType::Scalar(t) => {
                    if !*m && rng.chance(1, 3) {
                        ArgSpec::Imm(rng.below(IMMEDIATES.len() as u64) as usize)
                    } else {
                        let n = fitting_region(&mut rng, *t, None);
                        if rng.chance(1, 3) {
                            ArgSpec::Id(n)
                        } else {
                            ArgSpec::Ref(n, rng.below(2))
                        }
                    }
                }
                ExternParameterType::FixedLengthVector(v) => ArgSpec::Id(fitting_region(&mut rng, v.data_type, Some(v.length))),
                ExternParameterType::VariableLengthVector(t) => ArgSpec::Id(fitting_region(&mut rng, *t, None)),
            });
        }
        for a in args.iter_mut() {
            if rng.chance(1, 4) {
                *a = random_arg(&mut rng);
            }
        }
        if rng.chance(1, 12) && !args.is_empty() {
            let i = rng.below(args.len() as u64) as usize;
            args.remove(i);
        }
        if rng.chance(1, 12) {
            args.push(random_arg(&mut rng));
        }
        // argument lists shorter / longer than the signature by many
        if rng.chance(1, 40) {
            args.clear();
        }
        if rng.chance(1, 40) {
            for _ in 0..(2 + rng.below(12)) {
                args.push(random_arg(&mut rng));
            }
        }
        call_case(ctx, &CallCase { direct, regions, externs, name: name.to_string(), args });
    }

    // ---- 5. the PRAGMA EXTERN route: nameless / integer-first / multi-argument pragmas, missing and malformed
    // signatures, reserved extern names, duplicate names (the last definition wins and keeps the first position) ----
    {
        let shapes = |n: &str, m: &str| -> Vec<Vec<PArg>> {
            vec![
                vec![],
                vec![PArg::Id(n.into())],
                vec![PArg::Id(n.into()), PArg::Id(m.into())],
                vec![PArg::Int(3)],
                vec![PArg::Int(3), PArg::Id(n.into())],
                vec![PArg::Id(n.into()), PArg::Int(3)],
            ]
        };
        let datas: Vec<Option<String>> = [
            None,
            Some("INTEGER"),
            Some("(a : REAL)"),
            Some("INTEGER (a : mut BIT[2], b : REAL[])"),
            Some(""),
            Some("()"),
            Some("(H : REAL)"),
            Some("(a : REAL"),
            Some("integer"),
            Some("\""),
            Some("(a : REAL) # c"),
            Some("  OCTET  "),
        ]
        .iter()
        .map(|d| d.map(str::to_string))
        .collect();
        let mut singles = Vec::new();
        for n in ["foo", "H", "x-1", "mut", "pi"] {
            for args in shapes(n, "bar") {
                for d in &datas {
                    singles.push(PragmaSpec { pname: "EXTERN", args: args.clone(), data: d.clone() });
                }
            }
        }
        for p in &singles {
            pragma_case(ctx, std::slice::from_ref(p));
        }
        for pname in ["extern", "EXTERNS", "Extern"] {
            pragma_case(ctx, &[PragmaSpec { pname, args: vec![PArg::Id("foo".into())], data: Some("INTEGER".into()) }]);
        }
        // pairs and triples over a small pool: duplicates, an invalid one before/after a valid one
        let pool: Vec<PragmaSpec> = vec![
            PragmaSpec { pname: "EXTERN", args: vec![PArg::Id("foo".into())], data: Some("INTEGER".into()) },
            PragmaSpec { pname: "EXTERN", args: vec![PArg::Id("foo".into())], data: Some("(a : REAL)".into()) },
            PragmaSpec { pname: "EXTERN", args: vec![PArg::Id("bar".into())], data: Some("BIT (v : mut OCTET[3])".into()) },
            PragmaSpec { pname: "EXTERN", args: vec![PArg::Id("foo".into())], data: None },
            PragmaSpec { pname: "EXTERN", args: vec![PArg::Id("foo".into()), PArg::Id("bar".into())], data: Some("INTEGER".into()) },
            PragmaSpec { pname: "EXTERN", args: vec![], data: Some("INTEGER".into()) },
            PragmaSpec { pname: "EXTERN", args: vec![PArg::Int(1)], data: Some("REAL".into()) },
            PragmaSpec { pname: "EXTERN", args: vec![PArg::Id("H".into())], data: Some("INTEGER".into()) },
            PragmaSpec { pname: "EXTERN", args: vec![PArg::Id("bar".into())], data: Some("(a : REAL".into()) },
            PragmaSpec { pname: "OTHER", args: vec![PArg::Id("foo".into())], data: Some("garbage".into()) },
            PragmaSpec { pname: "EXTERN", args: vec![PArg::Id("baz".into())], data: Some("REAL (x : INTEGER, y : mut REAL[])".into()) },
            PragmaSpec { pname: "EXTERN", args: vec![PArg::Id("bar".into())], data: Some("OCTET".into()) },
        ];
        let valid: Vec<PragmaSpec> = [0usize, 1, 2, 10, 11, 9].iter().map(|&i| pool[i].clone()).collect();
        sequences(&pool, 2, if quick { 2 } else { 3 }, &mut |ps| pragma_case(ctx, ps));
        for _ in 0..(if quick { 1500 } else { 40_000 }) {
            let n = 1 + rng.below(5) as usize;
            let ps: Vec<PragmaSpec> = (0..n)
                .map(|_| {
                    if rng.chance(4, 5) {
                        rng.pick(&valid).clone()
                    } else if rng.chance(1, 2) {
                        rng.pick(&pool).clone()
                    } else {
                        rng.pick(&singles).clone()
                    }
                })
                .collect();
            pragma_case(ctx, &ps);
        }
    }
}
