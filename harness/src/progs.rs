//! Shared by C11 / C33 / C34: pools of definition and body instructions written as Quil text and
//! parsed by the real parser, plus small helpers to build `Program`s from them.
use quil_rs::instruction::Instruction;
use quil_rs::quil::Quil;
use quil_rs::Program;
use std::str::FromStr;

use crate::rng::Rng;
use quil_rs::instruction::{QubitPlaceholder, TargetPlaceholder};

/// Identity of a placeholder as the harness sees it: the value of the `Arc` pointer the newtype wraps, read
/// as raw bytes — deliberately NOT through the type's own `==` / `Hash` / `Ord` / `Debug` (those are part of
/// what C33/C34 check) and not through `as_inner().as_ptr()` (an empty base label has no buffer).
/// `TargetPlaceholder(Arc<String>)` and `QubitPlaceholder(Arc<()>)` are single-field newtypes; the size
/// assertions make a layout change a loud harness failure instead of a silent misreading.
pub fn target_id(p: &TargetPlaceholder) -> usize {
    assert_eq!(std::mem::size_of::<TargetPlaceholder>(), std::mem::size_of::<usize>());
    // SAFETY: same size (asserted), plain read of the pointer bits, nothing is dereferenced or dropped
    unsafe { std::mem::transmute_copy::<TargetPlaceholder, usize>(p) }
}

pub fn qubit_id(p: &QubitPlaceholder) -> usize {
    assert_eq!(std::mem::size_of::<QubitPlaceholder>(), std::mem::size_of::<usize>());
    // SAFETY: as above
    unsafe { std::mem::transmute_copy::<QubitPlaceholder, usize>(p) }
}


/// Parse a Quil text into the instruction list of the resulting program (definitions first).
pub fn parse_all(text: &str) -> Vec<Instruction> {
    Program::from_str(text).unwrap_or_else(|e| panic!("pool text does not parse: {text:?}: {e}")).to_instructions()
}

/// Parse a text holding exactly one instruction.
pub fn parse_one(text: &str) -> Instruction {
    let v = parse_all(text);
    assert_eq!(v.len(), 1, "pool entry is not one instruction: {text:?}");
    v.into_iter().next().unwrap()
}

/// Printed form of an instruction (Debug fallback where Quil text is impossible).
pub fn text_of(i: &Instruction) -> String {
    i.to_quil_or_debug()
}

/// Definition instructions of every kind `Program` stores outside the body. Several entries share a
/// key (same region / frame / waveform / gate / circuit / calibration signature / extern name) but
/// differ in value, so that "keyed in both" has something to show.
pub const DEF_POOL: &[&str] = &[
    // memory regions
    "DECLARE ro BIT[2]",
    "DECLARE ro BIT[4]",
    "DECLARE theta REAL[1]",
    "DECLARE theta REAL[3]",
    "DECLARE acc INTEGER[2]",
    "DECLARE oct OCTET[8]",
    "DECLARE shr BIT[8] SHARING oct OFFSET 1 BIT",
    "DECLARE cnt INTEGER[3]",
    "DECLARE cnt REAL[1] SHARING theta",
    // frames
    "DEFFRAME 0 \"rf\":\n\tINITIAL-FREQUENCY: 1000000000",
    "DEFFRAME 0 \"rf\":\n\tINITIAL-FREQUENCY: 2000000000\n\tDIRECTION: \"tx\"",
    "DEFFRAME 1 \"rf\":\n\tSAMPLE-RATE: 1000000000",
    "DEFFRAME 0 1 \"cz\":\n\tHARDWARE-OBJECT: \"q0_q1\"",
    "DEFFRAME 0 \"ro_rx\":\n\tDIRECTION: \"rx\"",
    // waveforms
    "DEFWAVEFORM wf:\n\t1, 0.5, 0.25",
    "DEFWAVEFORM wf:\n\t0.5i, 1",
    "DEFWAVEFORM wg(%a):\n\t%a, 2*%a",
    // calibrations
    "DEFCAL X 0:\n\tPULSE 0 \"rf\" wf",
    "DEFCAL X 0:\n\tPULSE 0 \"rf\" wg(a: 1)\n\tDELAY 0 1",
    "DEFCAL X q:\n\tPULSE q \"rf\" wf",
    "DEFCAL RX(%t) 0:\n\tSHIFT-PHASE 0 \"rf\" %t",
    "DEFCAL RX(pi/2) 0:\n\tPULSE 0 \"rf\" wf",
    "DEFCAL CZ 0 1:\n\tFENCE 0 1",
    // measure calibrations
    "DEFCAL MEASURE 0 addr:\n\tCAPTURE 0 \"ro_rx\" wf addr",
    "DEFCAL MEASURE 0 addr:\n\tNOP",
    "DEFCAL MEASURE q addr:\n\tNOP",
    "DEFCAL MEASURE 1:\n\tFENCE 1",
    // gate definitions
    "DEFGATE FOO:\n\t1, 0\n\t0, 1",
    "DEFGATE FOO:\n\t0, 1\n\t1, 0",
    "DEFGATE BAR(%t):\n\tcos(%t), 0\n\t0, sin(%t)",
    "DEFGATE PERM AS PERMUTATION:\n\t0, 1",
    // circuits
    "DEFCIRCUIT BELL a b:\n\tH a\n\tCNOT a b",
    "DEFCIRCUIT BELL a b:\n\tH b\n\tCNOT b a",
    "DEFCIRCUIT ROT(%t) q:\n\tRX(%t) q",
    // extern pragmas (key = first identifier argument; the last one has no identifier: key None)
    "PRAGMA EXTERN foo \"INTEGER (x : INTEGER)\"",
    "PRAGMA EXTERN foo \"REAL (x : REAL)\"",
    "PRAGMA EXTERN bar \"(y : mut INTEGER)\"",
    "PRAGMA EXTERN \"OCTET\"",
    "PRAGMA EXTERN \"REAL (x : REAL)\"",
    "PRAGMA EXTERN 5 \"INTEGER\"",
    "PRAGMA EXTERN",
    "PRAGMA EXTERN foo",
    // redefinitions whose overwritten body mentions a qubit used nowhere else (stale used-qubit cache)
    "DEFCAL X 0:\n\tY 7",
    "DEFCAL X 0:\n\tY 13",
    "DEFCAL X 5:\n\tNOP",
    "DEFCAL Y q:\n\tX q\n\tZ 9",
    "DEFCAL Y q:\n\tX q",
    "DEFCAL MEASURE 2 addr:\n\tX 11",
    "DEFCAL MEASURE 2 addr:\n\tX 2",
    // ---- shapes shared with harness/src/progwire.rs EXTRA_POOL (copied, so that this pool is stable) ----
    // PRAGMA EXTERN in every shape: 0-3 arguments, first argument identifier / integer / none, with and
    // without data string, one name across arities, different names with equal tails (the key is the
    // FIRST argument when it is an identifier, else none)
    "PRAGMA EXTERN foo legacy \"(c : REAL)\"",
    "PRAGMA EXTERN foo 1 \"INTEGER (x : INTEGER)\"",
    "PRAGMA EXTERN bar legacy \"(c : REAL)\"",
    "PRAGMA EXTERN foo legacy",
    "PRAGMA EXTERN foo a b \"(d : BIT)\"",
    "PRAGMA EXTERN foo a b",
    "PRAGMA EXTERN baz 1 2",
    "PRAGMA EXTERN baz legacy \"(c : REAL)\"",
    "PRAGMA EXTERN 1",
    "PRAGMA EXTERN 1 \"INTEGER\"",
    "PRAGMA EXTERN 1 foo \"(c : REAL)\"",
    "PRAGMA EXTERN 1 2 3",
    "PRAGMA EXTERN 2 foo bar \"x\"",
    // one key, values of different shape, in every other keyed container
    "DEFGATE FOO(%t):\n\tcos(%t), 0\n\t0, sin(%t)",
    "DEFGATE FOO AS PERMUTATION:\n\t1, 0",
    "DEFGATE FOO a AS SEQUENCE:\n\tX a",
    "DEFGATE FOO(%t) p q AS PAULI-SUM:\n\tZZ(-%t/4) p q\n\tY(%t/4) p",
    "DEFGATE FOO:\n\t1, 0, 0, 0\n\t0, 1, 0, 0\n\t0, 0, 0, 1\n\t0, 0, 1, 0",
    "DEFWAVEFORM wf(%a, %b):\n\t%a, %b",
    "DEFWAVEFORM wf:\n\t1",
    "DECLARE ro REAL[1]",
    "DECLARE ro INTEGER",
    "DECLARE ro BIT[8] SHARING oct OFFSET 1 BIT",
    "DECLARE ro BIT[8] SHARING oct OFFSET 1 BIT 2 REAL",
    "DEFFRAME 0 \"rf\":\n\tDIRECTION: \"tx\"\n\tINITIAL-FREQUENCY: 1\n\tHARDWARE-OBJECT: \"h\"\n\tSAMPLE-RATE: 2",
    "DEFFRAME 0 \"rf\":\n\tCENTER-FREQUENCY: 3",
    "DEFCIRCUIT BELL:\n\tX 0",
    "DEFCIRCUIT BELL(%a) q:\n\tRX(%a) q",
    "DEFCIRCUIT BELL(%a, %b) a b c:\n\tRX(%a) a\n\tRZ(%b) b\n\tCCNOT a b c",
    // calibrations that a sloppy signature comparison could confuse: identical up to modifiers …
    "DEFCAL X 0 1:\n\tX 22",
    "DEFCAL DAGGER X 0 1:\n\tX 23",
    "DEFCAL CONTROLLED X 0 1:\n\tX 24",
    "DEFCAL DAGGER DAGGER X 0 1:\n\tX 25",
    "DEFCAL DAGGER CONTROLLED X 0 1:\n\tX 26",
    "DEFCAL CONTROLLED DAGGER X 0 1:\n\tX 27",
    "DEFCAL FORKED X 0 1:\n\tX 28",
    "DEFCAL DAGGER X 0:\n\tY 14",
    "DEFCAL CONTROLLED X 0:\n\tY 15",
    "DEFCAL RX(pi) 0:\n\tX 30",
    "DEFCAL DAGGER RX(pi) 0:\n\tX 31",
    // … up to parameters (equal only after simplification / evaluation, not syntactically) …
    "DEFCAL RX(1.5707963267948966) 0:\n\tX 32",
    "DEFCAL RX(2*pi/4) 0:\n\tX 33",
    "DEFCAL RX(0.5*pi) 0:\n\tX 34",
    "DEFCAL RX(%u) 0:\n\tX 35",
    "DEFCAL RX(pi, pi) 0:\n\tX 36",
    "DEFCAL RX 0:\n\tX 37",
    // … up to qubits fixed / variable / order / count …
    "DEFCAL X r:\n\tX r",
    "DEFCAL X 0 q:\n\tX 38",
    "DEFCAL X q 0:\n\tX 39",
    "DEFCAL X q r:\n\tX 40",
    "DEFCAL X 1 0:\n\tX 41",
    "DEFCAL RX(pi) q:\n\tX 42",
    // … measure calibrations: named / unnamed, with / without target, target names, fixed / variable
    "DEFCAL MEASURE 0:\n\tX 43",
    "DEFCAL MEASURE 0 dest:\n\tX 44",
    "DEFCAL MEASURE q:\n\tX 45",
    "DEFCAL MEASURE r addr:\n\tX 46",
    "DEFCAL MEASURE!mid 0 addr:\n\tX 47",
    "DEFCAL MEASURE!mid 0:\n\tX 48",
    "DEFCAL MEASURE!end 0 addr:\n\tX 49",
    // … frames: qubit order and count
    "DEFFRAME 1 0 \"cz\":\n\tDIRECTION: \"tx\"",
    "DEFFRAME 0 \"cz\":\n\tDIRECTION: \"tx\"",
    "DEFFRAME 0 1 \"rf\":\n\tDIRECTION: \"tx\"",
];

/// Body instructions without control flow: gates, pragmas, pulses, classical instructions.
pub const BODY_POOL: &[&str] = &[
    "X 0",
    "H 1",
    "CNOT 0 1",
    "RX(pi/2) 1",
    "RZ(theta[0]) 0",
    "CONTROLLED X 2 0",
    "FOO 3",
    "MEASURE 0 ro[0]",
    "MEASURE 1",
    "PRAGMA hello \"w\"",
    "PRAGMA PRESERVE_BLOCK",
    "PULSE 0 \"rf\" wf",
    "NONBLOCKING PULSE 0 1 \"cz\" wf",
    "CAPTURE 0 \"ro_rx\" wf ro[1]",
    "DELAY 0 1",
    "FENCE 0 1",
    "FENCE",
    "SET-PHASE 0 \"rf\" 1",
    "SHIFT-FREQUENCY 1 \"rf\" theta[0]",
    "RESET",
    "RESET 0",
    "NOP",
    "WAIT",
    "ADD acc[0] 1",
    "MUL acc[1] acc[0]",
    "MOVE acc[0] 7",
    "MOVE acc[1] -3",
    "MOVE theta[0] 1.5",
    "MOVE acc[0] acc[1]",
    "SUB acc[0] 2",
    "SUB theta[0] 0.5",
    "AND ro[0] ro[1]",
    "NOT ro[0]",
    "EXCHANGE acc[0] acc[1]",
    "CONVERT theta[0] acc[0]",
    "LOAD acc[0] oct acc[1]",
    "STORE oct acc[1] acc[0]",
    "EQ ro[0] acc[0] acc[1]",
];

pub struct Pools {
    pub defs: Vec<Instruction>,
    pub body: Vec<Instruction>,
}

impl Pools {
    pub fn new() -> Self {
        Pools {
            defs: DEF_POOL.iter().map(|t| parse_one(t)).collect(),
            body: BODY_POOL
                .iter()
                .map(|t| {
                    let p = Program::from_str(t).unwrap_or_else(|e| panic!("body pool: {t:?}: {e}"));
                    let v: Vec<Instruction> = p.into_body_instructions().collect();
                    assert_eq!(v.len(), 1, "body pool entry {t:?}");
                    v.into_iter().next().unwrap()
                })
                .collect(),
        }
    }
    /// `k` definitions drawn at random (with repetition across keys allowed).
    pub fn random_defs(&self, rng: &mut Rng, max: u64) -> Vec<Instruction> {
        let k = rng.below(max + 1);
        (0..k).map(|_| rng.pick(&self.defs).clone()).collect()
    }
    pub fn random_body(&self, rng: &mut Rng, max: u64) -> Vec<Instruction> {
        let k = rng.below(max + 1);
        (0..k).map(|_| rng.pick(&self.body).clone()).collect()
    }
}

impl Default for Pools {
    fn default() -> Self {
        Self::new()
    }
}
