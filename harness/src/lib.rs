//! qvh — correspondence harness library. Each property has its own binary `src/bin/cXX.rs`:
//! `cXX --seed N --tier quick|thorough [--only IDX]` prints one
//! `(case <idx> <input> <implementation-output>)` line per case on stdout.
pub mod isolated;
pub mod rng;
pub mod wire;
pub mod progs;

use std::io::Write;
use std::panic::{catch_unwind, AssertUnwindSafe};

pub use isolated::Isolated;
pub use rng::Rng;
pub use wire::*;

#[derive(Clone, Copy, PartialEq, Eq)]
pub enum Tier {
    Quick,
    Thorough,
}

pub struct Ctx {
    pub seed: u64,
    pub tier: Tier,
    pub only: Option<u64>,
    pub next_index: u64,
    out: std::io::BufWriter<std::io::Stdout>,
}

impl Ctx {
    pub fn rng(&self, stream: u64) -> Rng {
        Rng::new(self.seed.wrapping_mul(0x100_0000_01B3).wrapping_add(stream))
    }
    pub fn quick(&self) -> bool {
        self.tier == Tier::Quick
    }
    /// Emit one case: `input` and the implementation's output computed by `run` (under
    /// `catch_unwind`; a panic becomes `(crash "message")`).
    pub fn case(&mut self, input: Sexp, run: impl FnOnce() -> Sexp) {
        let idx = self.next_index;
        self.next_index += 1;
        if let Some(only) = self.only {
            if only != idx {
                return;
            }
        }
        let out = match catch_unwind(AssertUnwindSafe(run)) {
            Ok(s) => s,
            Err(e) => {
                let msg = if let Some(s) = e.downcast_ref::<&str>() {
                    s.to_string()
                } else if let Some(s) = e.downcast_ref::<String>() {
                    s.clone()
                } else {
                    "panic".to_string()
                };
                tagged("crash", vec![st(msg)])
            }
        };
        writeln!(self.out, "(case {idx} {input} {out})").expect("write");
    }
}

/// Entry point for binaries that isolate the real code in a child process (see `isolated`):
/// with `--child` the process serves `handler` over stdin/stdout, otherwise it is the generator.
pub fn main_with_child(run: impl FnOnce(&mut Ctx), handler: impl Fn(&Sexp) -> Sexp) {
    if std::env::args().nth(1).as_deref() == Some("--child") {
        isolated::child_loop(handler);
    } else {
        main_with(run);
    }
}

/// Entry point shared by the per-property binaries.
pub fn main_with(run: impl FnOnce(&mut Ctx)) {
    let args: Vec<String> = std::env::args().collect();
    let mut seed = 0u64;
    let mut tier = Tier::Quick;
    let mut only = None;
    let mut i = 1;
    while i < args.len() {
        match args[i].as_str() {
            "--seed" => {
                seed = args[i + 1].parse().expect("seed");
                i += 2;
            }
            "--tier" => {
                tier = if args[i + 1] == "thorough" { Tier::Thorough } else { Tier::Quick };
                i += 2;
            }
            "--only" => {
                only = Some(args[i + 1].parse().expect("index"));
                i += 2;
            }
            other => {
                eprintln!("unknown argument {other}");
                std::process::exit(2);
            }
        }
    }
    // Panics are outcomes, not noise.
    std::panic::set_hook(Box::new(|_| {}));
    let mut ctx = Ctx {
        seed,
        tier,
        only,
        next_index: 0,
        out: std::io::BufWriter::with_capacity(1 << 20, std::io::stdout()),
    };
    run(&mut ctx);
    ctx.out.flush().expect("flush");
}
pub mod expr;
pub mod instrgen;
pub mod lexwire;
pub mod seqgate;
pub mod sched;
pub mod gatewire;
pub mod progwire;
pub mod ast;
pub mod calgen;
