//! Shared generator of `quil_rs::instruction::Instruction` values covering EVERY variant of the enum
//! (40), built through quil-rs's public types only.  Used by C26 (frame matching) and C27 (memory
//! accesses); deterministic given the `Rng`.
//!
//! * `VARIANTS` / `variant_name`: the 40 variant names (exhaustive `match`, so a new variant in quil-rs
//!   is a compile error here rather than a silent gap).
//! * `Alpha`: the small alphabet (memory regions, qubits, frame names) everything is drawn from.
//! * `gen_variant(rng, alpha, name, depth)`: a random instruction of the named variant; definitions with
//!   bodies (DEFCAL, DEFCAL MEASURE, DEFCIRCUIT) nest up to `depth` levels.
use crate::expr::{self, Alphabet};
use crate::rng::Rng;
use num_complex::Complex64;
use quil_rs::expression::Expression;
use quil_rs::instruction::*;

pub const VARIANTS: [&str; 40] = [
    "Arithmetic",
    "BinaryLogic",
    "CalibrationDefinition",
    "Call",
    "Capture",
    "CircuitDefinition",
    "Convert",
    "Comparison",
    "Declaration",
    "Delay",
    "Exchange",
    "Fence",
    "FrameDefinition",
    "Gate",
    "GateDefinition",
    "Halt",
    "Include",
    "Jump",
    "JumpUnless",
    "JumpWhen",
    "Label",
    "Load",
    "MeasureCalibrationDefinition",
    "Measurement",
    "Move",
    "Nop",
    "Pragma",
    "Pulse",
    "RawCapture",
    "Reset",
    "SetFrequency",
    "SetPhase",
    "SetScale",
    "ShiftFrequency",
    "ShiftPhase",
    "Store",
    "SwapPhases",
    "UnaryLogic",
    "WaveformDefinition",
    "Wait",
];

pub fn variant_name(i: &Instruction) -> &'static str {
    match i {
        Instruction::Arithmetic(_) => "Arithmetic",
        Instruction::BinaryLogic(_) => "BinaryLogic",
        Instruction::CalibrationDefinition(_) => "CalibrationDefinition",
        Instruction::Call(_) => "Call",
        Instruction::Capture(_) => "Capture",
        Instruction::CircuitDefinition(_) => "CircuitDefinition",
        Instruction::Convert(_) => "Convert",
        Instruction::Comparison(_) => "Comparison",
        Instruction::Declaration(_) => "Declaration",
        Instruction::Delay(_) => "Delay",
        Instruction::Exchange(_) => "Exchange",
        Instruction::Fence(_) => "Fence",
        Instruction::FrameDefinition(_) => "FrameDefinition",
        Instruction::Gate(_) => "Gate",
        Instruction::GateDefinition(_) => "GateDefinition",
        Instruction::Halt() => "Halt",
        Instruction::Include(_) => "Include",
        Instruction::Jump(_) => "Jump",
        Instruction::JumpUnless(_) => "JumpUnless",
        Instruction::JumpWhen(_) => "JumpWhen",
        Instruction::Label(_) => "Label",
        Instruction::Load(_) => "Load",
        Instruction::MeasureCalibrationDefinition(_) => "MeasureCalibrationDefinition",
        Instruction::Measurement(_) => "Measurement",
        Instruction::Move(_) => "Move",
        Instruction::Nop() => "Nop",
        Instruction::Pragma(_) => "Pragma",
        Instruction::Pulse(_) => "Pulse",
        Instruction::RawCapture(_) => "RawCapture",
        Instruction::Reset(_) => "Reset",
        Instruction::SetFrequency(_) => "SetFrequency",
        Instruction::SetPhase(_) => "SetPhase",
        Instruction::SetScale(_) => "SetScale",
        Instruction::ShiftFrequency(_) => "ShiftFrequency",
        Instruction::ShiftPhase(_) => "ShiftPhase",
        Instruction::Store(_) => "Store",
        Instruction::SwapPhases(_) => "SwapPhases",
        Instruction::UnaryLogic(_) => "UnaryLogic",
        Instruction::WaveformDefinition(_) => "WaveformDefinition",
        Instruction::Wait() => "Wait",
    }
}

/// The alphabet instructions are drawn from.
#[derive(Clone)]
pub struct Alpha {
    pub regions: Vec<String>,
    pub qubits: Vec<Qubit>,
    pub frame_names: Vec<String>,
    /// names CALL may use (some of them have a signature, some do not — the caller decides)
    pub externs: Vec<String>,
    /// maximal expression depth
    pub expr_depth: usize,
}

impl Alpha {
    pub fn small() -> Self {
        Alpha {
            regions: ["a", "b", "c"].iter().map(|s| s.to_string()).collect(),
            qubits: vec![Qubit::Fixed(0), Qubit::Fixed(1), Qubit::Fixed(2)],
            frame_names: ["a", "b", "c"].iter().map(|s| s.to_string()).collect(),
            externs: ["f", "g", "h"].iter().map(|s| s.to_string()).collect(),
            expr_depth: 3,
        }
    }
}

pub fn mref(rng: &mut Rng, a: &Alpha) -> MemoryReference {
    MemoryReference { name: rng.pick(&a.regions).clone(), index: rng.below(3) }
}

pub fn region(rng: &mut Rng, a: &Alpha) -> String {
    rng.pick(&a.regions).clone()
}

pub fn expr_alphabet(a: &Alpha) -> Alphabet {
    let mut leaves: Vec<Expression> = vec![expr::real(1.5), Expression::PiConstant(), expr::var("theta"), expr::num(0.0, 1.0)];
    for r in &a.regions {
        leaves.push(expr::addr(r, 0));
        leaves.push(expr::addr(r, 1));
    }
    Alphabet::full(leaves)
}

/// A random expression; about half of them mention at least one region.
pub fn expression(rng: &mut Rng, a: &Alpha) -> Expression {
    let alphabet = expr_alphabet(a);
    let d = rng.below(a.expr_depth as u64 + 1) as usize;
    expr::random_expr(rng, &alphabet, d)
}

pub fn expressions(rng: &mut Rng, a: &Alpha, max: u64) -> Vec<Expression> {
    (0..rng.below(max + 1)).map(|_| expression(rng, a)).collect()
}

pub fn qubit(rng: &mut Rng, a: &Alpha) -> Qubit {
    rng.pick(&a.qubits).clone()
}

pub fn qubits(rng: &mut Rng, a: &Alpha, min: u64, max: u64) -> Vec<Qubit> {
    (0..min + rng.below(max - min + 1)).map(|_| qubit(rng, a)).collect()
}

pub fn frame(rng: &mut Rng, a: &Alpha) -> FrameIdentifier {
    FrameIdentifier { name: rng.pick(&a.frame_names).clone(), qubits: qubits(rng, a, 1, 2) }
}

pub fn waveform_invocation(rng: &mut Rng, a: &Alpha) -> WaveformInvocation {
    let mut parameters = WaveformParameters::new();
    for k in 0..rng.below(3) {
        parameters.insert(["duration", "amp", "phase"][k as usize].to_string(), expression(rng, a));
    }
    WaveformInvocation { name: "wf".to_string(), parameters }
}

pub fn gate(rng: &mut Rng, a: &Alpha) -> Gate {
    Gate {
        name: rng.pick(&["RX", "CPHASE", "mygate"]).to_string(),
        parameters: expressions(rng, a, 2),
        qubits: qubits(rng, a, 1, 2),
        modifiers: if rng.chance(1, 4) { vec![GateModifier::Dagger] } else { vec![] },
    }
}

fn arithmetic_operand(rng: &mut Rng, a: &Alpha) -> ArithmeticOperand {
    match rng.below(3) {
        0 => ArithmeticOperand::LiteralInteger(rng.range(-3, 3)),
        1 => ArithmeticOperand::LiteralReal(1.25),
        _ => ArithmeticOperand::MemoryReference(mref(rng, a)),
    }
}

pub fn call_argument(rng: &mut Rng, a: &Alpha) -> UnresolvedCallArgument {
    match rng.below(3) {
        0 => UnresolvedCallArgument::Identifier(region(rng, a)),
        1 => UnresolvedCallArgument::MemoryReference(mref(rng, a)),
        _ => UnresolvedCallArgument::Immediate(Complex64::new(rng.range(-2, 2) as f64, 0.0)),
    }
}

pub fn body(rng: &mut Rng, a: &Alpha, depth: u32) -> Vec<Instruction> {
    (0..rng.below(4))
        .map(|_| {
            let v = loop {
                let v = *rng.pick(&VARIANTS);
                let nested = matches!(v, "CalibrationDefinition" | "MeasureCalibrationDefinition" | "CircuitDefinition");
                if depth > 0 || !nested {
                    break v;
                }
            };
            gen_variant(rng, a, v, depth.saturating_sub(1))
        })
        .collect()
}

/// A random instruction of the named variant.
pub fn gen_variant(rng: &mut Rng, a: &Alpha, variant: &str, depth: u32) -> Instruction {
    match variant {
        "Arithmetic" => Instruction::Arithmetic(Arithmetic {
            operator: *rng.pick(&[
                ArithmeticOperator::Add,
                ArithmeticOperator::Subtract,
                ArithmeticOperator::Divide,
                ArithmeticOperator::Multiply,
            ]),
            destination: mref(rng, a),
            source: arithmetic_operand(rng, a),
        }),
        "BinaryLogic" => Instruction::BinaryLogic(BinaryLogic {
            operator: *rng.pick(&[
                BinaryOperator::And,
                BinaryOperator::Ior,
                BinaryOperator::Xor,
                BinaryOperator::Shl,
                BinaryOperator::Shr,
                BinaryOperator::Ashr,
            ]),
            destination: mref(rng, a),
            source: if rng.chance(1, 2) {
                BinaryOperand::LiteralInteger(rng.range(0, 3))
            } else {
                BinaryOperand::MemoryReference(mref(rng, a))
            },
        }),
        "CalibrationDefinition" => Instruction::CalibrationDefinition(CalibrationDefinition {
            identifier: CalibrationIdentifier {
                modifiers: vec![],
                name: "RX".to_string(),
                parameters: expressions(rng, a, 2),
                qubits: qubits(rng, a, 1, 2),
            },
            instructions: body(rng, a, depth),
        }),
        "Call" => Instruction::Call(Call {
            name: rng.pick(&a.externs).clone(),
            arguments: (0..rng.below(4)).map(|_| call_argument(rng, a)).collect(),
        }),
        "Capture" => Instruction::Capture(Capture {
            blocking: rng.chance(1, 2),
            frame: frame(rng, a),
            memory_reference: mref(rng, a),
            waveform: waveform_invocation(rng, a),
        }),
        "CircuitDefinition" => Instruction::CircuitDefinition(CircuitDefinition {
            name: "circ".to_string(),
            parameters: vec!["theta".to_string()],
            qubit_variables: vec!["q".to_string()],
            instructions: body(rng, a, depth),
        }),
        "Convert" => Instruction::Convert(Convert { destination: mref(rng, a), source: mref(rng, a) }),
        "Comparison" => Instruction::Comparison(Comparison {
            operator: *rng.pick(&[
                ComparisonOperator::Equal,
                ComparisonOperator::GreaterThanOrEqual,
                ComparisonOperator::GreaterThan,
                ComparisonOperator::LessThanOrEqual,
                ComparisonOperator::LessThan,
            ]),
            destination: mref(rng, a),
            lhs: mref(rng, a),
            rhs: match rng.below(3) {
                0 => ComparisonOperand::LiteralInteger(rng.range(-3, 3)),
                1 => ComparisonOperand::LiteralReal(0.5),
                _ => ComparisonOperand::MemoryReference(mref(rng, a)),
            },
        }),
        "Declaration" => Instruction::Declaration(Declaration {
            name: region(rng, a),
            size: Vector { data_type: ScalarType::Real, length: 1 + rng.below(3) },
            sharing: if rng.chance(1, 2) {
                Some(Sharing {
                    name: region(rng, a),
                    offsets: vec![Offset { offset: rng.below(3), data_type: ScalarType::Bit }],
                })
            } else {
                None
            },
        }),
        "Delay" => Instruction::Delay(Delay {
            duration: expression(rng, a),
            frame_names: (0..rng.below(3)).map(|_| rng.pick(&a.frame_names).clone()).collect(),
            qubits: qubits(rng, a, 0, 2),
        }),
        "Exchange" => Instruction::Exchange(Exchange { left: mref(rng, a), right: mref(rng, a) }),
        "Fence" => Instruction::Fence(Fence { qubits: qubits(rng, a, 0, 2) }),
        "FrameDefinition" => {
            let mut attributes = FrameAttributes::new();
            if rng.chance(1, 2) {
                attributes.insert("DIRECTION".to_string(), AttributeValue::String("tx".to_string()));
            }
            if rng.chance(2, 3) {
                attributes.insert("INITIAL-FREQUENCY".to_string(), AttributeValue::Expression(expression(rng, a)));
            }
            if rng.chance(1, 3) {
                attributes.insert("SAMPLE-RATE".to_string(), AttributeValue::Expression(expression(rng, a)));
            }
            Instruction::FrameDefinition(FrameDefinition { identifier: frame(rng, a), attributes })
        }
        "Gate" => Instruction::Gate(gate(rng, a)),
        "GateDefinition" => {
            let specification = match rng.below(4) {
                0 => GateSpecification::Matrix(
                    (0..2).map(|_| (0..2).map(|_| expression(rng, a)).collect()).collect(),
                ),
                1 => GateSpecification::Permutation(vec![0, 1]),
                2 => GateSpecification::PauliSum(PauliSum {
                    arguments: vec!["p".to_string()],
                    terms: (0..1 + rng.below(2))
                        .map(|_| PauliTerm {
                            arguments: vec![(PauliGate::X, "p".to_string())],
                            expression: expression(rng, a),
                        })
                        .collect(),
                }),
                _ => {
                    let gates: Vec<Gate> = (0..1 + rng.below(3))
                        .map(|_| Gate {
                            name: "RZ".to_string(),
                            parameters: expressions(rng, a, 2),
                            qubits: vec![Qubit::Variable("p".to_string())],
                            modifiers: vec![],
                        })
                        .collect();
                    GateSpecification::Sequence(
                        DefGateSequence::try_new(vec!["p".to_string()], gates).expect("valid sequence"),
                    )
                }
            };
            Instruction::GateDefinition(GateDefinition {
                name: "mygate".to_string(),
                parameters: vec!["theta".to_string()],
                specification,
            })
        }
        "Halt" => Instruction::Halt(),
        "Include" => Instruction::Include(Include { filename: "file.quil".to_string() }),
        "Jump" => Instruction::Jump(Jump { target: Target::Fixed("l".to_string()) }),
        "JumpUnless" => {
            Instruction::JumpUnless(JumpUnless { target: Target::Fixed("l".to_string()), condition: mref(rng, a) })
        }
        "JumpWhen" => {
            Instruction::JumpWhen(JumpWhen { target: Target::Fixed("l".to_string()), condition: mref(rng, a) })
        }
        "Label" => Instruction::Label(Label { target: Target::Fixed("l".to_string()) }),
        "Load" => Instruction::Load(Load { destination: mref(rng, a), source: region(rng, a), offset: mref(rng, a) }),
        "MeasureCalibrationDefinition" => Instruction::MeasureCalibrationDefinition(MeasureCalibrationDefinition {
            identifier: MeasureCalibrationIdentifier {
                name: None,
                qubit: qubit(rng, a),
                target: if rng.chance(1, 2) { Some("dest".to_string()) } else { None },
            },
            instructions: body(rng, a, depth),
        }),
        "Measurement" => Instruction::Measurement(Measurement {
            name: None,
            qubit: qubit(rng, a),
            target: if rng.chance(2, 3) { Some(mref(rng, a)) } else { None },
        }),
        "Move" => Instruction::Move(Move { destination: mref(rng, a), source: arithmetic_operand(rng, a) }),
        "Nop" => Instruction::Nop(),
        "Pragma" => Instruction::Pragma(Pragma {
            name: "NOTE".to_string(),
            arguments: vec![PragmaArgument::Identifier(region(rng, a))],
            data: Some(format!("{}[0]", region(rng, a))),
        }),
        "Pulse" => Instruction::Pulse(Pulse {
            blocking: rng.chance(1, 2),
            frame: frame(rng, a),
            waveform: waveform_invocation(rng, a),
        }),
        "RawCapture" => Instruction::RawCapture(RawCapture {
            blocking: rng.chance(1, 2),
            frame: frame(rng, a),
            duration: expression(rng, a),
            memory_reference: mref(rng, a),
        }),
        "Reset" => Instruction::Reset(Reset { qubit: if rng.chance(1, 2) { Some(qubit(rng, a)) } else { None } }),
        "SetFrequency" => Instruction::SetFrequency(SetFrequency { frame: frame(rng, a), frequency: expression(rng, a) }),
        "SetPhase" => Instruction::SetPhase(SetPhase { frame: frame(rng, a), phase: expression(rng, a) }),
        "SetScale" => Instruction::SetScale(SetScale { frame: frame(rng, a), scale: expression(rng, a) }),
        "ShiftFrequency" => {
            Instruction::ShiftFrequency(ShiftFrequency { frame: frame(rng, a), frequency: expression(rng, a) })
        }
        "ShiftPhase" => Instruction::ShiftPhase(ShiftPhase { frame: frame(rng, a), phase: expression(rng, a) }),
        "Store" => Instruction::Store(Store {
            destination: region(rng, a),
            offset: mref(rng, a),
            source: arithmetic_operand(rng, a),
        }),
        "SwapPhases" => Instruction::SwapPhases(SwapPhases { frame_1: frame(rng, a), frame_2: frame(rng, a) }),
        "UnaryLogic" => Instruction::UnaryLogic(UnaryLogic {
            operator: *rng.pick(&[UnaryOperator::Neg, UnaryOperator::Not]),
            operand: mref(rng, a),
        }),
        "WaveformDefinition" => Instruction::WaveformDefinition(WaveformDefinition {
            name: "wf".to_string(),
            definition: Waveform { matrix: expressions(rng, a, 3), parameters: vec!["theta".to_string()] },
        }),
        "Wait" => Instruction::Wait(),
        other => panic!("unknown variant {other}"),
    }
}

/// A random instruction of a uniformly chosen variant.
pub fn any_instruction(rng: &mut Rng, a: &Alpha, depth: u32) -> Instruction {
    let v = *rng.pick(&VARIANTS);
    gen_variant(rng, a, v, depth)
}
