//! Wire format of gates, matrices and `to_unitary` results shared by the C14 and C15 harnesses
//! (Lean side: `lean/QV/Shared/GateWire.lean`).
//!
//!   entry      (e ROW COL xRE xIM)      only entries that are not exactly zero (±0 ± 0i) are sent
//!   matrix     (mat DIM entry*)
//!   parameter  (num xRE xIM) | (other)   projection of `Expression`: a `Number` literal or anything else
//!   qubit      (f K) | (v) | (p)
//!   modifier   C | D | F                 outermost first (the order of `Gate::modifiers`)
//!   gate       (gate "NAME" (mods M*) (params P*) (qubits Q*))
//!   result     (ok matrix) | (err KIND)  (a panic becomes `(crash "msg")` in `Ctx::case`)
use crate::wire::*;
use crate::Rng;
use ndarray::Array2;
use num_complex::Complex64;
use quil_rs::expression::Expression;
use quil_rs::instruction::{Gate, GateError, GateModifier, Instruction, Qubit};

pub type Matrix = Array2<Complex64>;

pub fn mat_to_sexp(m: &Matrix) -> Sexp {
    let (r, c) = (m.shape()[0], m.shape()[1]);
    assert_eq!(r, c, "square matrices only");
    let mut v = vec![atom("mat"), nat(r as u64)];
    for i in 0..r {
        for j in 0..c {
            let z = m[[i, j]];
            if z.re != 0.0 || z.im != 0.0 || z.re.is_nan() || z.im.is_nan() {
                v.push(tagged("e", vec![nat(i as u64), nat(j as u64), f64bits(z.re), f64bits(z.im)]));
            }
        }
    }
    Sexp::List(v)
}

/// A gate parameter crosses the wire as the expression itself (`(expr E)`, shared ExprWire format); the Lean
/// model evaluates it with the shared expression model and decides constant / non-constant on its own.
pub fn param_to_sexp(e: &Expression) -> Sexp {
    tagged("expr", vec![crate::expr::expr_to_sexp(e)])
}

pub fn qubit_to_sexp(q: &Qubit) -> Sexp {
    match q {
        Qubit::Fixed(k) => tagged("f", vec![nat(*k)]),
        Qubit::Variable(_) => tagged("v", vec![]),
        Qubit::Placeholder(_) => tagged("p", vec![]),
    }
}

pub fn modifier_to_sexp(m: &GateModifier) -> Sexp {
    atom(match m {
        GateModifier::Controlled => "C",
        GateModifier::Dagger => "D",
        GateModifier::Forked => "F",
    })
}

pub fn gate_to_sexp(g: &Gate) -> Sexp {
    tagged(
        "gate",
        vec![
            st(g.name.clone()),
            tagged("mods", g.modifiers.iter().map(modifier_to_sexp).collect()),
            tagged("params", g.parameters.iter().map(param_to_sexp).collect()),
            tagged("qubits", g.qubits.iter().map(qubit_to_sexp).collect()),
        ],
    )
}

pub fn gate_error_kind(e: &GateError) -> &'static str {
    match e {
        GateError::UndefinedGate { parameterized: false, .. } => "undefined-constant",
        GateError::UndefinedGate { parameterized: true, .. } => "undefined-parameterized",
        GateError::MatrixArgumentLength { .. } => "arg-length",
        GateError::MatrixNonConstantParams { .. } => "non-constant",
        GateError::MatrixVariableQubit { .. } => "variable-qubit",
        GateError::UnresolvedQubitPlaceholder { .. } => "placeholder",
        GateError::ForkedGateOddNumParams { .. } => "forked-odd",
        _ => "other",
    }
}

pub fn unitary_result(r: Result<Matrix, GateError>) -> Sexp {
    match r {
        Ok(m) => tagged("ok", vec![mat_to_sexp(&m)]),
        Err(e) => {
            // format the error every way a caller might: a panic in Display/Debug is a crash outcome
            let _ = format!("{e} {e:#} {e:?}");
            tagged("err", vec![atom(gate_error_kind(&e))])
        }
    }
}

/// Result of `Program::to_unitary`.
pub fn program_unitary_result(r: Result<Matrix, quil_rs::program::ProgramError>) -> Sexp {
    use quil_rs::program::ProgramError;
    match r {
        Ok(m) => tagged("ok", vec![mat_to_sexp(&m)]),
        Err(e) => {
            let _ = format!("{e} {e:#} {e:?}");
            match e {
                ProgramError::UnsupportedForUnitary(_) => tagged("err", vec![atom("unsupported")]),
                ProgramError::GateError(e) => tagged("err", vec![atom(format!("gate-{}", gate_error_kind(&e)))]),
                _ => tagged("err", vec![atom("other")]),
            }
        }
    }
}

/// Build a `Program` from body instructions by one of three public routes: 0 `add_instruction` one by one,
/// 1 `Program::from_instructions`, 2 `add_instructions`.
pub fn build_program(instrs: Vec<Instruction>, route: u64) -> quil_rs::Program {
    match route % 3 {
        0 => {
            let mut p = quil_rs::Program::new();
            for i in instrs {
                p.add_instruction(i);
            }
            p
        }
        1 => quil_rs::Program::from_instructions(instrs),
        _ => {
            let mut p = quil_rs::Program::new();
            p.add_instructions(instrs);
            p
        }
    }
}

pub fn real(x: f64) -> Expression {
    Expression::Number(Complex64::new(x, 0.0))
}

/// The 22 standard gates: (name, number of qubits, number of parameters).
pub const STANDARD_GATES: [(&str, usize, usize); 22] = [
    ("I", 1, 0),
    ("X", 1, 0),
    ("Y", 1, 0),
    ("Z", 1, 0),
    ("H", 1, 0),
    ("S", 1, 0),
    ("T", 1, 0),
    ("CNOT", 2, 0),
    ("CCNOT", 3, 0),
    ("CZ", 2, 0),
    ("SWAP", 2, 0),
    ("CSWAP", 3, 0),
    ("ISWAP", 2, 0),
    ("RX", 1, 1),
    ("RY", 1, 1),
    ("RZ", 1, 1),
    ("PHASE", 1, 1),
    ("CPHASE", 2, 1),
    ("CPHASE00", 2, 1),
    ("CPHASE01", 2, 1),
    ("CPHASE10", 2, 1),
    ("PSWAP", 2, 1),
];

/// All injective placements of `k` qubits into `0..n`, in lexicographic order.
pub fn placements(k: usize, n: u64) -> Vec<Vec<u64>> {
    fn go(k: usize, n: u64, cur: &mut Vec<u64>, out: &mut Vec<Vec<u64>>) {
        if cur.len() == k {
            out.push(cur.clone());
            return;
        }
        for q in 0..n {
            if !cur.contains(&q) {
                cur.push(q);
                go(k, n, cur, out);
                cur.pop();
            }
        }
    }
    let mut out = Vec::new();
    go(k, n, &mut Vec::new(), &mut out);
    out
}

/// A random injective placement of `k` qubits into `0..n` (`k <= n`).
pub fn random_placement(rng: &mut Rng, k: usize, n: u64) -> Vec<u64> {
    let mut pool: Vec<u64> = (0..n).collect();
    let mut out = Vec::new();
    for _ in 0..k {
        let i = rng.below(pool.len() as u64) as usize;
        out.push(pool.remove(i));
    }
    out
}

const SPECIAL_ANGLES: [f64; 12] = [
    0.0,
    std::f64::consts::FRAC_PI_2,
    std::f64::consts::PI,
    -std::f64::consts::FRAC_PI_4,
    2.0 * std::f64::consts::PI,
    1e-9,
    37.5,
    -1000.25,
    -0.0,
    1.0,
    -std::f64::consts::PI,
    0.1,
];

/// The `i`-th angle of a stream: the special ones first, then uniform in (-2π, 2π).
pub fn angle(rng: &mut Rng, i: usize) -> f64 {
    if i < SPECIAL_ANGLES.len() {
        SPECIAL_ANGLES[i]
    } else {
        (rng.unit() * 4.0 - 2.0) * std::f64::consts::PI
    }
}

pub fn instr_to_sexp(i: &Instruction) -> Sexp {
    match i {
        Instruction::Gate(g) => gate_to_sexp(g),
        Instruction::Halt() => tagged("halt", vec![]),
        _ => tagged("other", vec![]),
    }
}

/// The parameterised table gates: (name, number of qubits).
pub const PARAM_GATES: [(&str, usize); 9] = [
    ("RX", 1),
    ("RY", 1),
    ("RZ", 1),
    ("PHASE", 1),
    ("CPHASE", 2),
    ("CPHASE00", 2),
    ("CPHASE01", 2),
    ("CPHASE10", 2),
    ("PSWAP", 2),
];

/// Exact special angles the way a user writes them: as an `f64` product of `std::f64::consts::PI`, and as Quil
/// text (evaluated by quil-rs's own parser + simplifier). 0, ±π/4, ±π/2, ±π, ±3π/2, ±2π, ±3π, ±4π, 6π.
pub fn exact_angles() -> Vec<(f64, &'static str)> {
    use std::f64::consts::PI;
    vec![
        (0.0, "0"),
        (PI / 4.0, "pi/4"),
        (-PI / 4.0, "-pi/4"),
        (PI / 2.0, "pi/2"),
        (-PI / 2.0, "-pi/2"),
        (PI, "pi"),
        (-PI, "-pi"),
        (3.0 * PI / 2.0, "3*pi/2"),
        (-3.0 * PI / 2.0, "-3*pi/2"),
        (2.0 * PI, "2*pi"),
        (-2.0 * PI, "-2*pi"),
        (3.0 * PI, "3*pi"),
        (-3.0 * PI, "-3*pi"),
        (4.0 * PI, "4*pi"),
        (-4.0 * PI, "-4*pi"),
        (6.0 * PI, "6*pi"),
    ]
}

/// `NAME(text) q…` parsed by `Program::from_str`; the single gate of the program, parameter as parsed.
pub fn parse_gate(name: &str, angle_text: &str, qubits: &[u64]) -> Gate {
    use std::str::FromStr;
    let qs: Vec<String> = qubits.iter().map(|q| q.to_string()).collect();
    let text = format!("{}({}) {}", name, angle_text, qs.join(" "));
    let p = quil_rs::Program::from_str(&text).unwrap_or_else(|e| panic!("{text}: {e}"));
    match p.to_instructions().as_slice() {
        [Instruction::Gate(g)] => g.clone(),
        other => panic!("{text}: parsed to {other:?}"),
    }
}

/// Parameter texts that only become numbers after simplification, integer-valued, huge and tiny angles.
pub const EXPR_TEXTS: [&str; 16] = [
    "2*pi/4", "pi - pi", "-(-1.0)", "1", "2", "-3", "1e6", "1e-12", "0.5*pi", "pi/2 + pi/2", "cos(0)", "sqrt(4)",
    "123456789.0", "1e15", "2^2", "1 + 2i",
];

/// `stack name(params…) qubits` as a struct literal: `stack` outermost first, `extra` the qubits consumed by the
/// CONTROLLED / FORKED modifiers (in order), `base_params` / `base_qubits` what is left after `to_unitary` consumed
/// the modifiers (each FORKED gets a fresh first half, so the residual parameters are exactly `base_params`).
pub fn modified_raw(
    rng: &mut Rng,
    stack: &[GateModifier],
    name: &str,
    base_params: &[Expression],
    extra: &[u64],
    base_qubits: &[u64],
) -> Gate {
    let mut params: Vec<Expression> = base_params.to_vec();
    for m in stack.iter().rev() {
        if matches!(m, GateModifier::Forked) {
            let mut alt: Vec<Expression> = (0..params.len()).map(|i| real(angle(rng, 12 + i))).collect();
            alt.extend(params);
            params = alt;
        }
    }
    let mut qubits: Vec<Qubit> = extra.iter().map(|q| Qubit::Fixed(*q)).collect();
    qubits.extend(base_qubits.iter().map(|q| Qubit::Fixed(*q)));
    Gate { name: name.to_string(), parameters: params, qubits, modifiers: stack.to_vec() }
}

/// The same constant VALUE `v` written in every expression form the AST allows (built through the API, not the
/// parser — the parser never produces unary plus): literal, prefix minus / plus, nested prefixes, an infix of
/// constants for every operator, a function call of a constant for every function, `pi` forms, complex literals
/// with zero / signed-zero / tiny imaginary part, and combinations up to depth 3.
pub fn constant_forms(v: f64) -> Vec<Expression> {
    use crate::expr::{call, infix, num, prefix, real as r};
    use quil_rs::expression::{ExpressionFunction as F, InfixOperator as I, PrefixOperator as P};
    let pi = || Expression::PiConstant();
    let plus = |e| prefix(P::Plus, e);
    let minus = |e| prefix(P::Minus, e);
    vec![
        r(v),
        minus(r(-v)),
        plus(r(v)),
        minus(plus(r(-v))),
        plus(minus(r(-v))),
        plus(plus(r(v))),
        minus(minus(r(v))),
        plus(minus(plus(r(-v)))),
        infix(r(v - 0.25), I::Plus, r(0.25)),
        infix(r(v + 0.25), I::Minus, r(0.25)),
        infix(r(v / 2.0), I::Star, r(2.0)),
        infix(r(v * 2.0), I::Slash, r(2.0)),
        infix(r(v), I::Caret, r(1.0)),
        infix(r(v), I::Star, infix(r(2.0), I::Caret, r(0.0))),
        infix(call(F::Cosine, r(0.0)), I::Star, r(v)),
        infix(call(F::Sine, r(0.0)), I::Plus, r(v)),
        infix(call(F::Exponent, r(0.0)), I::Star, r(v)),
        infix(call(F::SquareRoot, r(4.0)), I::Star, r(v / 2.0)),
        infix(call(F::Cis, r(0.0)), I::Star, r(v)),
        infix(infix(r(v), I::Slash, pi()), I::Star, pi()),
        infix(pi(), I::Star, r(v / std::f64::consts::PI)),
        plus(infix(r(v - 0.5), I::Plus, r(0.5))),
        minus(infix(r(0.5), I::Minus, r(v + 0.5))),
        infix(plus(r(v + 1.0)), I::Minus, plus(r(1.0))),
        infix(plus(r(v / 2.0)), I::Star, minus(r(-2.0))),
        minus(call(F::SquareRoot, infix(r(v), I::Star, r(v)))), // = -|v|
        plus(call(F::SquareRoot, infix(r(v), I::Star, r(v)))),  // = +|v|
        call(F::Sine, plus(r(v))),                              // some other real value
        plus(call(F::Cosine, minus(r(v)))),
        num(v, 0.0),
        num(v, -0.0),
        num(v, 1e-300),
        num(v, 1e-17),
        plus(num(v, -0.0)),
    ]
}

/// `pi` itself and signed multiples, as the AST writes them.
pub fn pi_forms() -> Vec<Expression> {
    use crate::expr::{infix, prefix, real as r};
    use quil_rs::expression::{InfixOperator as I, PrefixOperator as P};
    let pi = || Expression::PiConstant();
    vec![
        pi(),
        prefix(P::Minus, pi()),
        prefix(P::Plus, pi()),
        prefix(P::Plus, prefix(P::Minus, pi())),
        infix(r(2.0), I::Star, pi()),
        prefix(P::Plus, infix(pi(), I::Slash, r(2.0))),
        infix(pi(), I::Minus, pi()),
        infix(prefix(P::Plus, pi()), I::Slash, r(4.0)),
    ]
}

/// Parameters that are NOT constant: `to_unitary` must reject them (`MatrixNonConstantParams`).
pub fn nonconstant_forms() -> Vec<Expression> {
    use crate::expr::{addr, call, infix, prefix, real as r, var};
    use quil_rs::expression::{ExpressionFunction as F, InfixOperator as I, PrefixOperator as P};
    vec![
        var("theta"),
        addr("ro", 0),
        prefix(P::Minus, var("theta")),
        prefix(P::Plus, addr("ro", 1)),
        infix(var("theta"), I::Plus, r(0.5)),
        infix(r(2.0), I::Star, addr("ro", 0)),
        call(F::Cosine, var("theta")),
    ]
}

/// Random constant trees of depth ≤ 3 over a small leaf alphabet whose value (by quil-rs's own evaluator, used here
/// only as a filter) is finite, real and of moderate size.
pub fn random_constant_expr(rng: &mut Rng) -> Expression {
    use crate::expr::{random_expr, real as r, Alphabet};
    let alphabet = Alphabet::full(vec![r(0.7), r(-1.3), r(2.0), r(0.5), r(1.0), r(3.0), Expression::PiConstant(), r(0.0)]);
    loop {
        let e = random_expr(rng, &alphabet, 3);
        if let Ok(z) = e.evaluate(&std::collections::HashMap::<String, Complex64>::new(), &std::collections::HashMap::<&str, Vec<f64>>::new()) {
            if z.re.is_finite() && z.im == 0.0 && z.re.abs() < 1e3 {
                return e;
            }
        }
    }
}
