//! Shared: wire encoding of the FULL quil-rs AST (`Instruction` and every payload type) as
//! s-expressions.  Must match `lean/QV/Shared/AstWire.lean` (decoder + encoder) and
//! `lean/QV/Shared/Ast.lean` (the types).  Built for C01, meant for C02/C04 too.
//!
//! Grammar (N = decimal `u64`, Z = decimal `i64`, xBITS = `x` + 16 hex digits of an `f64`):
//!
//! ```text
//! qubit        (f N) | (ph K) | (v "name")                 K = number by first occurrence (seqgate::PhTable)
//! target       (tf "name") | (tp K "base_label")           K = number by first occurrence
//! memref       (ref "name" N)                              (expr::memref_to_sexp)
//! expr         (addr "n" N) | (call fn e) | (infix op l r) | (num xRE xIM) | (pi) | (prefix op e) | (var "n")
//! scalar       BIT | INTEGER | OCTET | REAL
//! vector       (vec scalar N)          offset (off N scalar)       sharing (sharing "name" (offset…))
//! option       (none) | (some x)       bool  true | false
//! operand      (int Z) | (real xBITS) | memref             (arithmetic, comparison; binary: no real)
//! frame        (frame "name" (qubit…))
//! invocation   (wf "name" (("key" expr)…))                 IndexMap order
//! attribute    ("key" (s "string")) | ("key" (e expr))
//! modifier     controlled | dagger | forked                gate (g "name" (expr…) (qubit…) (modifier…))
//! pauli term   (term ((I|X|Y|Z "arg")…) expr)
//! spec         (matrix ((expr…)…)) | (permutation (N…)) | (paulisum ("arg"…) (term…)) | (sequence ("q"…) (gate…))
//! call arg     (id "x") | memref | (imm xRE xIM)           pragma arg (id "x") | (int N)
//! extern       (sig option<scalar> (param…))   param (param "name" bool type)
//!              type (scalar scalar) | (fixed vector) | (variable scalar)
//! instruction  (VariantName field…)                         fields in the Rust struct's declaration order
//! ```
use crate::expr::{expr_to_sexp, memref_to_sexp};
use crate::seqgate::{gate_to_sexp, modifier_to_sexp, qubit_to_sexp, PhTable};
use crate::{atom, boolean, f64bits, int, list, nat, st, tagged, Sexp};
use quil_rs::expression::Expression;
use quil_rs::instruction::*;
use quil_rs::verif_hooks::c01 as hook;

/// Encoder state: placeholder numbering by first occurrence.
#[derive(Default)]
pub struct Enc {
    pub qubits: PhTable,
    pub targets: Vec<TargetPlaceholder>,
}

pub fn none() -> Sexp {
    tagged("none", vec![])
}
pub fn some(x: Sexp) -> Sexp {
    tagged("some", vec![x])
}
pub fn opt<T>(o: Option<T>, f: impl FnOnce(T) -> Sexp) -> Sexp {
    match o {
        None => none(),
        Some(x) => some(f(x)),
    }
}
pub fn strings(v: &[String]) -> Sexp {
    list(v.iter().map(|s| st(s.clone())).collect())
}
pub fn exprs(v: &[Expression]) -> Sexp {
    list(v.iter().map(expr_to_sexp).collect())
}

pub fn scalar(t: ScalarType) -> Sexp {
    atom(match t {
        ScalarType::Bit => "BIT",
        ScalarType::Integer => "INTEGER",
        ScalarType::Octet => "OCTET",
        ScalarType::Real => "REAL",
    })
}
pub fn vector(v: &Vector) -> Sexp {
    tagged("vec", vec![scalar(v.data_type), nat(v.length)])
}

pub fn arithmetic_operand(o: &ArithmeticOperand) -> Sexp {
    match o {
        ArithmeticOperand::LiteralInteger(v) => tagged("int", vec![int(*v)]),
        ArithmeticOperand::LiteralReal(v) => tagged("real", vec![f64bits(*v)]),
        ArithmeticOperand::MemoryReference(r) => memref_to_sexp(r),
    }
}
pub fn comparison_operand(o: &ComparisonOperand) -> Sexp {
    match o {
        ComparisonOperand::LiteralInteger(v) => tagged("int", vec![int(*v)]),
        ComparisonOperand::LiteralReal(v) => tagged("real", vec![f64bits(*v)]),
        ComparisonOperand::MemoryReference(r) => memref_to_sexp(r),
    }
}
pub fn binary_operand(o: &BinaryOperand) -> Sexp {
    match o {
        BinaryOperand::LiteralInteger(v) => tagged("int", vec![int(*v)]),
        BinaryOperand::MemoryReference(r) => memref_to_sexp(r),
    }
}

pub fn extern_signature(s: &ExternSignature) -> Sexp {
    tagged(
        "sig",
        vec![
            opt(s.return_type(), |t| scalar(*t)),
            list(
                s.parameters()
                    .iter()
                    .map(|p| {
                        tagged(
                            "param",
                            vec![
                                st(p.name()),
                                boolean(p.mutable()),
                                match p.data_type() {
                                    ExternParameterType::Scalar(t) => tagged("scalar", vec![scalar(*t)]),
                                    ExternParameterType::FixedLengthVector(v) => tagged("fixed", vec![vector(v)]),
                                    ExternParameterType::VariableLengthVector(t) => {
                                        tagged("variable", vec![scalar(*t)])
                                    }
                                },
                            ],
                        )
                    })
                    .collect(),
            ),
        ],
    )
}

impl Enc {
    pub fn new() -> Self {
        Self::default()
    }

    pub fn qubit(&mut self, q: &Qubit) -> Sexp {
        qubit_to_sexp(q, &mut self.qubits)
    }
    pub fn qubit_list(&mut self, qs: &[Qubit]) -> Sexp {
        list(qs.iter().map(|q| self.qubit(q)).collect())
    }
    pub fn target(&mut self, t: &Target) -> Sexp {
        match t {
            Target::Fixed(name) => tagged("tf", vec![st(name.clone())]),
            Target::Placeholder(p) => {
                let k = match self.targets.iter().position(|x| x == p) {
                    Some(k) => k,
                    None => {
                        self.targets.push(p.clone());
                        self.targets.len() - 1
                    }
                };
                tagged("tp", vec![nat(k as u64), st(p.as_inner())])
            }
        }
    }
    pub fn frame(&mut self, f: &FrameIdentifier) -> Sexp {
        tagged("frame", vec![st(f.name.clone()), self.qubit_list(&f.qubits)])
    }
    pub fn invocation(&mut self, w: &WaveformInvocation) -> Sexp {
        tagged(
            "wf",
            vec![
                st(w.name.clone()),
                list(w.parameters.iter().map(|(k, e)| list(vec![st(k.clone()), expr_to_sexp(e)])).collect()),
            ],
        )
    }
    pub fn gate(&mut self, g: &Gate) -> Sexp {
        gate_to_sexp(g, &mut self.qubits)
    }
    pub fn modifiers(&mut self, ms: &[GateModifier]) -> Sexp {
        list(ms.iter().map(modifier_to_sexp).collect())
    }
    pub fn pauli_term(&mut self, t: &PauliTerm) -> Sexp {
        tagged(
            "term",
            vec![
                list(
                    t.arguments
                        .iter()
                        .map(|(g, a)| {
                            tagged(
                                match g {
                                    PauliGate::I => "I",
                                    PauliGate::X => "X",
                                    PauliGate::Y => "Y",
                                    PauliGate::Z => "Z",
                                },
                                vec![st(a.clone())],
                            )
                        })
                        .collect(),
                ),
                expr_to_sexp(&t.expression),
            ],
        )
    }
    pub fn specification(&mut self, s: &GateSpecification) -> Sexp {
        match s {
            GateSpecification::Matrix(rows) => tagged("matrix", vec![list(rows.iter().map(|r| exprs(r)).collect())]),
            GateSpecification::Permutation(p) => {
                tagged("permutation", vec![list(p.iter().map(|n| nat(*n)).collect())])
            }
            GateSpecification::PauliSum(s) => tagged(
                "paulisum",
                vec![strings(&s.arguments), list(s.terms.iter().map(|t| self.pauli_term(t)).collect())],
            ),
            GateSpecification::Sequence(s) => {
                let (qubits, gates) = hook::def_gate_sequence_parts(s);
                tagged("sequence", vec![strings(qubits), list(gates.iter().map(|g| self.gate(g)).collect())])
            }
        }
    }
    pub fn instructions(&mut self, is: &[Instruction]) -> Sexp {
        list(is.iter().map(|i| self.instruction(i)).collect())
    }

    /// `(VariantName field…)`, fields in the Rust declaration order.
    pub fn instruction(&mut self, i: &Instruction) -> Sexp {
        match i {
            Instruction::Arithmetic(a) => tagged(
                "Arithmetic",
                vec![
                    atom(match a.operator {
                        ArithmeticOperator::Add => "add",
                        ArithmeticOperator::Subtract => "subtract",
                        ArithmeticOperator::Divide => "divide",
                        ArithmeticOperator::Multiply => "multiply",
                    }),
                    memref_to_sexp(&a.destination),
                    arithmetic_operand(&a.source),
                ],
            ),
            Instruction::BinaryLogic(b) => tagged(
                "BinaryLogic",
                vec![
                    atom(match b.operator {
                        BinaryOperator::And => "and",
                        BinaryOperator::Ior => "ior",
                        BinaryOperator::Xor => "xor",
                        BinaryOperator::Shl => "shl",
                        BinaryOperator::Shr => "shr",
                        BinaryOperator::Ashr => "ashr",
                    }),
                    memref_to_sexp(&b.destination),
                    binary_operand(&b.source),
                ],
            ),
            Instruction::CalibrationDefinition(c) => tagged(
                "CalibrationDefinition",
                vec![
                    tagged(
                        "calid",
                        vec![
                            self.modifiers(&c.identifier.modifiers),
                            st(c.identifier.name.clone()),
                            exprs(&c.identifier.parameters),
                            self.qubit_list(&c.identifier.qubits),
                        ],
                    ),
                    self.instructions(&c.instructions),
                ],
            ),
            Instruction::Call(c) => tagged(
                "Call",
                vec![
                    st(c.name.clone()),
                    list(
                        c.arguments
                            .iter()
                            .map(|a| match a {
                                UnresolvedCallArgument::Identifier(s) => tagged("id", vec![st(s.clone())]),
                                UnresolvedCallArgument::MemoryReference(r) => memref_to_sexp(r),
                                UnresolvedCallArgument::Immediate(z) => {
                                    tagged("imm", vec![f64bits(z.re), f64bits(z.im)])
                                }
                            })
                            .collect(),
                    ),
                ],
            ),
            Instruction::Capture(c) => tagged(
                "Capture",
                vec![
                    boolean(c.blocking),
                    self.frame(&c.frame),
                    memref_to_sexp(&c.memory_reference),
                    self.invocation(&c.waveform),
                ],
            ),
            Instruction::CircuitDefinition(c) => tagged(
                "CircuitDefinition",
                vec![
                    st(c.name.clone()),
                    strings(&c.parameters),
                    strings(&c.qubit_variables),
                    self.instructions(&c.instructions),
                ],
            ),
            Instruction::Convert(c) => {
                tagged("Convert", vec![memref_to_sexp(&c.destination), memref_to_sexp(&c.source)])
            }
            Instruction::Comparison(c) => tagged(
                "Comparison",
                vec![
                    atom(match c.operator {
                        ComparisonOperator::Equal => "equal",
                        ComparisonOperator::GreaterThanOrEqual => "greaterThanOrEqual",
                        ComparisonOperator::GreaterThan => "greaterThan",
                        ComparisonOperator::LessThanOrEqual => "lessThanOrEqual",
                        ComparisonOperator::LessThan => "lessThan",
                    }),
                    memref_to_sexp(&c.destination),
                    memref_to_sexp(&c.lhs),
                    comparison_operand(&c.rhs),
                ],
            ),
            Instruction::Declaration(d) => tagged(
                "Declaration",
                vec![
                    st(d.name.clone()),
                    vector(&d.size),
                    opt(d.sharing.as_ref(), |s| {
                        tagged(
                            "sharing",
                            vec![
                                st(s.name.clone()),
                                list(
                                    s.offsets
                                        .iter()
                                        .map(|o| tagged("off", vec![nat(o.offset), scalar(o.data_type)]))
                                        .collect(),
                                ),
                            ],
                        )
                    }),
                ],
            ),
            Instruction::Delay(d) => tagged(
                "Delay",
                vec![expr_to_sexp(&d.duration), strings(&d.frame_names), self.qubit_list(&d.qubits)],
            ),
            Instruction::Exchange(e) => tagged("Exchange", vec![memref_to_sexp(&e.left), memref_to_sexp(&e.right)]),
            Instruction::Fence(f) => tagged("Fence", vec![self.qubit_list(&f.qubits)]),
            Instruction::FrameDefinition(f) => tagged(
                "FrameDefinition",
                vec![
                    self.frame(&f.identifier),
                    list(
                        f.attributes
                            .iter()
                            .map(|(k, v)| {
                                list(vec![
                                    st(k.clone()),
                                    match v {
                                        AttributeValue::String(s) => tagged("s", vec![st(s.clone())]),
                                        AttributeValue::Expression(e) => tagged("e", vec![expr_to_sexp(e)]),
                                    },
                                ])
                            })
                            .collect(),
                    ),
                ],
            ),
            Instruction::Gate(g) => tagged("Gate", vec![self.gate(g)]),
            Instruction::GateDefinition(g) => tagged(
                "GateDefinition",
                vec![st(g.name.clone()), strings(&g.parameters), self.specification(&g.specification)],
            ),
            Instruction::Halt() => tagged("Halt", vec![]),
            Instruction::Include(i) => tagged("Include", vec![st(i.filename.clone())]),
            Instruction::Jump(j) => tagged("Jump", vec![self.target(&j.target)]),
            Instruction::JumpUnless(j) => {
                tagged("JumpUnless", vec![self.target(&j.target), memref_to_sexp(&j.condition)])
            }
            Instruction::JumpWhen(j) => tagged("JumpWhen", vec![self.target(&j.target), memref_to_sexp(&j.condition)]),
            Instruction::Label(l) => tagged("Label", vec![self.target(&l.target)]),
            Instruction::Load(l) => tagged(
                "Load",
                vec![memref_to_sexp(&l.destination), st(l.source.clone()), memref_to_sexp(&l.offset)],
            ),
            Instruction::MeasureCalibrationDefinition(m) => tagged(
                "MeasureCalibrationDefinition",
                vec![
                    tagged(
                        "mcalid",
                        vec![
                            opt(m.identifier.name.as_ref(), |s| st(s.clone())),
                            self.qubit(&m.identifier.qubit),
                            opt(m.identifier.target.as_ref(), |s| st(s.clone())),
                        ],
                    ),
                    self.instructions(&m.instructions),
                ],
            ),
            Instruction::Measurement(m) => tagged(
                "Measurement",
                vec![
                    opt(m.name.as_ref(), |s| st(s.clone())),
                    self.qubit(&m.qubit),
                    opt(m.target.as_ref(), memref_to_sexp),
                ],
            ),
            Instruction::Move(m) => tagged("Move", vec![memref_to_sexp(&m.destination), arithmetic_operand(&m.source)]),
            Instruction::Nop() => tagged("Nop", vec![]),
            Instruction::Pragma(p) => tagged(
                "Pragma",
                vec![
                    st(p.name.clone()),
                    list(
                        p.arguments
                            .iter()
                            .map(|a| match a {
                                PragmaArgument::Identifier(s) => tagged("id", vec![st(s.clone())]),
                                PragmaArgument::Integer(n) => tagged("int", vec![nat(*n)]),
                            })
                            .collect(),
                    ),
                    opt(p.data.as_ref(), |s| st(s.clone())),
                ],
            ),
            Instruction::Pulse(p) => {
                tagged("Pulse", vec![boolean(p.blocking), self.frame(&p.frame), self.invocation(&p.waveform)])
            }
            Instruction::RawCapture(r) => tagged(
                "RawCapture",
                vec![
                    boolean(r.blocking),
                    self.frame(&r.frame),
                    expr_to_sexp(&r.duration),
                    memref_to_sexp(&r.memory_reference),
                ],
            ),
            Instruction::Reset(r) => {
                let q = r.qubit.as_ref().map(|q| self.qubit(q));
                tagged("Reset", vec![opt(q, |s| s)])
            }
            Instruction::SetFrequency(s) => {
                tagged("SetFrequency", vec![self.frame(&s.frame), expr_to_sexp(&s.frequency)])
            }
            Instruction::SetPhase(s) => tagged("SetPhase", vec![self.frame(&s.frame), expr_to_sexp(&s.phase)]),
            Instruction::SetScale(s) => tagged("SetScale", vec![self.frame(&s.frame), expr_to_sexp(&s.scale)]),
            Instruction::ShiftFrequency(s) => {
                tagged("ShiftFrequency", vec![self.frame(&s.frame), expr_to_sexp(&s.frequency)])
            }
            Instruction::ShiftPhase(s) => tagged("ShiftPhase", vec![self.frame(&s.frame), expr_to_sexp(&s.phase)]),
            Instruction::Store(s) => tagged(
                "Store",
                vec![st(s.destination.clone()), memref_to_sexp(&s.offset), arithmetic_operand(&s.source)],
            ),
            Instruction::SwapPhases(s) => tagged("SwapPhases", vec![self.frame(&s.frame_1), self.frame(&s.frame_2)]),
            Instruction::UnaryLogic(u) => tagged(
                "UnaryLogic",
                vec![
                    atom(match u.operator {
                        UnaryOperator::Neg => "neg",
                        UnaryOperator::Not => "not",
                    }),
                    memref_to_sexp(&u.operand),
                ],
            ),
            Instruction::WaveformDefinition(w) => tagged(
                "WaveformDefinition",
                vec![st(w.name.clone()), exprs(&w.definition.matrix), strings(&w.definition.parameters)],
            ),
            Instruction::Wait() => tagged("Wait", vec![]),
        }
    }
}

/// One instruction with a fresh placeholder table.
pub fn instruction_to_sexp(i: &Instruction) -> Sexp {
    Enc::new().instruction(i)
}
/// A list of instructions sharing one placeholder table.
pub fn instructions_to_sexp(is: &[Instruction]) -> Sexp {
    Enc::new().instructions(is)
}
pub fn frame_identifier_to_sexp(f: &FrameIdentifier) -> Sexp {
    Enc::new().frame(f)
}
