//! Shared by C22 / C23 / C24 / C25: projection of a program's basic blocks to what the
//! `InstructionHandler` reports about each instruction (wire format: lean/QV/Shared/SchedWire.lean),
//! canonical encoding of the real dependency graphs, a table-driven `InstructionHandler` that lets the
//! harness drive `ScheduledBasicBlock::build` with arbitrary handler answers, and text generators for
//! scheduling-flavoured Quil programs.
use std::collections::{BTreeSet, HashSet};
use std::str::FromStr;

use quil_rs::instruction::{
    DefaultHandler, ExternSignatureMap, FrameIdentifier, Instruction, InstructionHandler, InstructionRole, Pragma,
};
use quil_rs::program::analysis::{BasicBlock, ControlFlowGraph};
use quil_rs::program::scheduling::{
    ExecutionDependency, MemoryAccessType, ScheduleErrorVariant, ScheduledBasicBlock, ScheduledGraphNode,
    ScheduledProgram,
};
use quil_rs::program::{MatchedFrames, MemoryAccesses, MemoryAccessesError};
use quil_rs::quil::Quil;
use quil_rs::Program;

use crate::rng::Rng;
use crate::wire::*;

/// Injective numbering of the program's frames and of the memory regions its instructions mention.
/// Frame keys are computed from the frame's fields (name, qubits; placeholders numbered by first occurrence
/// through the shared AST encoder), NOT with the implementation's `Eq`/`Hash`/`Display` for frame identifiers.
pub struct Numbering {
    pub regions: Vec<String>,
    pub frames: Vec<String>,
    enc: std::cell::RefCell<crate::ast::Enc>,
}

fn frame_key(f: &FrameIdentifier) -> String {
    f.to_quil_or_debug()
}

impl Numbering {
    pub fn region(&self, name: &str) -> u64 {
        self.regions.iter().position(|r| r == name).expect("region numbered") as u64
    }
    fn key(&self, f: &FrameIdentifier) -> String {
        self.enc.borrow_mut().frame(f).to_string()
    }
    pub fn frame(&self, f: &FrameIdentifier) -> u64 {
        let k = self.key(f);
        self.frames.iter().position(|r| *r == k).expect("frame numbered") as u64
    }
}

pub fn node_code(n: usize, node: ScheduledGraphNode) -> u64 {
    match node {
        ScheduledGraphNode::BlockStart => 0,
        ScheduledGraphNode::InstructionIndex(i) => i as u64 + 1,
        ScheduledGraphNode::BlockEnd => n as u64 + 1,
    }
}

pub fn kind_atom(k: MemoryAccessType) -> &'static str {
    match k {
        MemoryAccessType::Read => "r",
        MemoryAccessType::Write => "w",
        MemoryAccessType::Capture => "c",
    }
}

fn label_code(d: &ExecutionDependency) -> (u8, &'static str) {
    match d {
        ExecutionDependency::AwaitMemoryAccess(MemoryAccessType::Read) => (0, "r"),
        ExecutionDependency::AwaitMemoryAccess(MemoryAccessType::Write) => (1, "w"),
        ExecutionDependency::AwaitMemoryAccess(MemoryAccessType::Capture) => (2, "c"),
        ExecutionDependency::Scheduled => (3, "S"),
        ExecutionDependency::StableOrdering => (4, "O"),
    }
}

fn sorted_nats(mut v: Vec<u64>) -> Sexp {
    v.sort();
    list(v.into_iter().map(nat).collect())
}

/// What the handler says about one instruction: `(i role sched memErr (reads) (writes) (captures) frames)`.
pub fn project_instruction<H: InstructionHandler>(
    program: &Program,
    handler: &H,
    externs: &ExternSignatureMap,
    numbering: &Numbering,
    instruction: &Instruction,
) -> Sexp {
    let role = match handler.role(instruction) {
        InstructionRole::ClassicalCompute => "c",
        InstructionRole::RFControl => "r",
        InstructionRole::ControlFlow => "f",
        InstructionRole::ProgramComposition => "p",
    };
    let sched = handler.is_scheduled(instruction);
    let (mem_err, reads, writes, captures) = match handler.memory_accesses(externs, instruction) {
        Ok(a) => (
            false,
            a.reads.iter().map(|r| numbering.region(r)).collect::<Vec<_>>(),
            a.writes.iter().map(|r| numbering.region(r)).collect::<Vec<_>>(),
            a.captures.iter().map(|r| numbering.region(r)).collect::<Vec<_>>(),
        ),
        Err(_) => (true, vec![], vec![], vec![]),
    };
    let frames = match handler.matching_frames(program, instruction) {
        None => atom("none"),
        Some(m) => tagged(
            "fr",
            vec![
                sorted_nats(m.used.iter().map(|f| numbering.frame(f)).collect()),
                sorted_nats(m.blocked.iter().map(|f| numbering.frame(f)).collect()),
            ],
        ),
    };
    tagged(
        "i",
        vec![
            atom(role),
            nat(sched as u64),
            nat(mem_err as u64),
            sorted_nats(reads),
            sorted_nats(writes),
            sorted_nats(captures),
            frames,
        ],
    )
}

pub fn numbering_for<H: InstructionHandler>(
    program: &Program,
    handler: &H,
    externs: &ExternSignatureMap,
    blocks: &[BasicBlock<'_>],
) -> Numbering {
    let mut regions = BTreeSet::new();
    let mut visit = |i: &Instruction| {
        if let Ok(a) = handler.memory_accesses(externs, i) {
            regions.extend(a.reads);
            regions.extend(a.writes);
            regions.extend(a.captures);
        }
    };
    for b in blocks {
        for i in b.instructions() {
            visit(i);
        }
        if let Some(t) = b.terminator().clone().into_instruction() {
            visit(&t);
        }
    }
    let mut numbering =
        Numbering { regions: regions.into_iter().collect(), frames: vec![], enc: Default::default() };
    let mut frames: Vec<String> = program.frames.get_keys().into_iter().map(|f| numbering.key(f)).collect();
    frames.sort();
    frames.dedup();
    numbering.frames = frames;
    numbering
}

pub fn project_block<H: InstructionHandler>(
    program: &Program,
    handler: &H,
    externs: &ExternSignatureMap,
    numbering: &Numbering,
    block: &BasicBlock<'_>,
) -> Sexp {
    let instrs =
        block.instructions().iter().map(|i| project_instruction(program, handler, externs, numbering, i)).collect();
    let term = match block.terminator().clone().into_instruction() {
        Some(t) => project_instruction(program, handler, externs, numbering, &t),
        None => atom("none"),
    };
    tagged("b", vec![list(instrs), term])
}

/// `(prog externErr (block…))` — the model's input for a whole program.
pub fn project_program<H: InstructionHandler>(program: &Program, handler: &H) -> Sexp {
    let (externs, extern_err) = match ExternSignatureMap::try_from(program.extern_pragma_map.clone()) {
        Ok(m) => (m, false),
        Err(_) => (ExternSignatureMap::default(), true),
    };
    let blocks = ControlFlowGraph::from(program).into_blocks();
    let numbering = numbering_for(program, handler, &externs, &blocks);
    let bs = blocks.iter().map(|b| project_block(program, handler, &externs, &numbering, b)).collect();
    tagged("prog", vec![nat(extern_err as u64), list(bs)])
}

/// `(g (nodes…) ((src dst label)…))`, nodes and edges sorted, one entry per label.
pub fn encode_graph(block: &ScheduledBasicBlock<'_>) -> Sexp {
    let n = block.instructions().len();
    let g = block.get_dependency_graph();
    let mut nodes: Vec<u64> = g.nodes().map(|x| node_code(n, x)).collect();
    nodes.sort();
    let mut edges: Vec<(u64, u64, u8, &'static str)> = Vec::new();
    for (s, d, labels) in g.all_edges() {
        for l in labels {
            let (c, a) = label_code(l);
            edges.push((node_code(n, s), node_code(n, d), c, a));
        }
    }
    edges.sort();
    tagged(
        "g",
        vec![
            list(nodes.into_iter().map(nat).collect()),
            list(edges.into_iter().map(|(s, d, _, a)| list(vec![nat(s), nat(d), atom(a)])).collect()),
        ],
    )
}

pub fn error_variant(v: ScheduleErrorVariant) -> &'static str {
    match v {
        ScheduleErrorVariant::DuplicateLabel => "duplabel",
        ScheduleErrorVariant::Extern => "extern",
        ScheduleErrorVariant::UncalibratedInstruction => "uncal",
        ScheduleErrorVariant::UnresolvedCallInstruction => "call",
        ScheduleErrorVariant::ControlFlowNotBlockTerminator => "cf",
        ScheduleErrorVariant::UnschedulableInstruction => "unsched",
    }
}

/// Format an error every way a caller can (a panic in there becomes `(crash …)` under `catch_unwind`).
pub fn format_error<E: std::error::Error>(e: &E) {
    let _ = e.to_string();
    let _ = format!("{e:#}");
    let _ = format!("{e:?}");
    let mut src = e.source();
    while let Some(inner) = src {
        let _ = inner.to_string();
        src = inner.source();
    }
}

/// The real `ScheduledProgram::from_program`: `(ok graph…)` or `(err variant node)`; the node code of an
/// error is relative to the block in which it arose (found by re-building the blocks one by one).
/// Sibling entry points are driven too and must agree with it: the consuming `into_basic_blocks`, the
/// per-block `ScheduledBasicBlock::build`, and the `ScheduledBasicBlockOwned` round trip; a difference is
/// reported as `(sibling-mismatch which)` (which the model never produces).
pub fn run_from_program<H: InstructionHandler>(program: &Program, handler: &H) -> Sexp {
    match ScheduledProgram::from_program(program, handler) {
        Ok(sp) => {
            let direct: Vec<Sexp> = sp.basic_blocks().iter().map(encode_graph).collect();
            // accessors consistent with the underlying block
            for b in sp.basic_blocks() {
                if b.len() != b.instructions().len()
                    || b.is_empty() != b.instructions().is_empty()
                    || b.get_instruction(b.len()).is_some()
                    || (0..b.len()).any(|i| b.get_instruction(i) != b.instructions().get(i).copied())
                {
                    return tagged("sibling-mismatch", vec![atom("accessors")]);
                }
            }
            // per-block build
            let per_block: Result<Vec<Sexp>, _> = ControlFlowGraph::from(program)
                .into_blocks()
                .into_iter()
                .map(|b| ScheduledBasicBlock::build(b, program, handler).map(|sb| encode_graph(&sb)))
                .collect();
            match per_block {
                Ok(v) if v == direct => {}
                _ => return tagged("sibling-mismatch", vec![atom("build")]),
            }
            // owned round trip
            let owned: Vec<quil_rs::program::scheduling::ScheduledBasicBlockOwned> =
                sp.basic_blocks().iter().cloned().map(Into::into).collect();
            let back: Vec<Sexp> = owned.iter().map(|o| encode_graph(&ScheduledBasicBlock::from(o))).collect();
            if back != direct {
                return tagged("sibling-mismatch", vec![atom("owned")]);
            }
            // consuming variant
            let consumed: Vec<Sexp> = sp.into_basic_blocks().iter().map(encode_graph).collect();
            if consumed != direct {
                return tagged("sibling-mismatch", vec![atom("into_basic_blocks")]);
            }
            tagged("ok", direct)
        }
        Err(e) => {
            format_error(&e);
            let mut n = 0usize;
            for b in ControlFlowGraph::from(program).into_blocks() {
                let len = b.instructions().len();
                if let Err(e2) = ScheduledBasicBlock::build(b, program, handler) {
                    format_error(&e2);
                    n = len;
                    break;
                }
            }
            let node = e.instruction_node.map_or(0, |x| node_code(n, x));
            tagged("err", vec![atom(error_variant(e.variant)), nat(node)])
        }
    }
}

// ---------------------------------------------------------------------------------------------------
// Table handler: `PRAGMA T <k>` is answered from row k of a table; everything else by the default.
// ---------------------------------------------------------------------------------------------------

#[derive(Clone, Debug, Default)]
pub struct Row {
    pub role: u8, // 0 classical, 1 rf, 2 control flow, 3 composition
    pub scheduled: bool,
    pub mem_err: bool,
    pub reads: Vec<usize>,
    pub writes: Vec<usize>,
    pub captures: Vec<usize>,
    pub frames: Option<(Vec<usize>, Vec<usize>)>,
}

pub struct TableHandler {
    pub rows: Vec<Row>,
}

pub const TABLE_REGIONS: [&str; 3] = ["ma", "mb", "mc"];
/// Table frames 0 and 1 are equal up to qubit ORDER (`0 1 "fa"`, `1 0 "fa"`): they are distinct frames.
pub const TABLE_FRAMES: [(&str, [u64; 2]); 3] = [("fa", [0, 1]), ("fa", [1, 0]), ("fc", [2, 3])];

fn is_table_frame(f: &FrameIdentifier, i: usize) -> bool {
    let (name, qs) = TABLE_FRAMES[i];
    f.name == name && f.qubits == qs.iter().map(|&q| quil_rs::instruction::Qubit::Fixed(q)).collect::<Vec<_>>()
}

impl TableHandler {
    fn row(&self, instruction: &Instruction) -> Option<&Row> {
        match instruction {
            Instruction::Pragma(Pragma { name, arguments, .. }) if name == "T" => match arguments.first() {
                Some(quil_rs::instruction::PragmaArgument::Integer(k)) => self.rows.get(*k as usize),
                _ => None,
            },
            _ => None,
        }
    }
    /// Program text: three frames `0 "fa"`, `0 "fb"`, `0 "fc"` and one `PRAGMA T k` per body entry
    /// (`Ok(k)`) or a raw line (`Err(text)`: labels, jumps, …).
    pub fn program(&self, body: &[Result<usize, String>]) -> Program {
        let mut text = String::new();
        for (f, qs) in TABLE_FRAMES {
            text.push_str(&format!("DEFFRAME {} {} \"{f}\":\n    SAMPLE-RATE: 1.0\n", qs[0], qs[1]));
        }
        for e in body {
            match e {
                Ok(k) => text.push_str(&format!("PRAGMA T {k}\n")),
                Err(t) => {
                    text.push_str(t);
                    text.push('\n');
                }
            }
        }
        Program::from_str(&text).unwrap_or_else(|e| panic!("table program does not parse: {text:?}: {e}"))
    }
}

impl InstructionHandler for TableHandler {
    fn is_scheduled(&self, instruction: &Instruction) -> bool {
        match self.row(instruction) {
            Some(r) => r.scheduled,
            None => DefaultHandler.is_scheduled(instruction),
        }
    }
    fn role(&self, instruction: &Instruction) -> InstructionRole {
        match self.row(instruction) {
            Some(r) => match r.role {
                0 => InstructionRole::ClassicalCompute,
                1 => InstructionRole::RFControl,
                2 => InstructionRole::ControlFlow,
                _ => InstructionRole::ProgramComposition,
            },
            None => DefaultHandler.role(instruction),
        }
    }
    fn matching_frames<'p>(&self, program: &'p Program, instruction: &Instruction) -> Option<MatchedFrames<'p>> {
        match self.row(instruction) {
            Some(r) => r.frames.as_ref().map(|(used, blocked)| {
                let pick = |ix: &Vec<usize>| -> HashSet<&'p FrameIdentifier> {
                    program
                        .frames
                        .get_keys()
                        .into_iter()
                        .filter(|f| ix.iter().any(|&i| is_table_frame(f, i)))
                        .collect()
                };
                MatchedFrames { used: pick(used), blocked: pick(blocked) }
            }),
            None => DefaultHandler.matching_frames(program, instruction),
        }
    }
    fn memory_accesses(
        &self,
        extern_signature_map: &ExternSignatureMap,
        instruction: &Instruction,
    ) -> Result<MemoryAccesses, MemoryAccessesError> {
        match self.row(instruction) {
            Some(r) => {
                if r.mem_err {
                    return Err(MemoryAccessesError::InstructionHandlerError("table".to_string()));
                }
                let set = |ix: &Vec<usize>| ix.iter().map(|&i| TABLE_REGIONS[i].to_string()).collect();
                Ok(MemoryAccesses { reads: set(&r.reads), writes: set(&r.writes), captures: set(&r.captures) })
            }
            None => DefaultHandler.memory_accesses(extern_signature_map, instruction),
        }
    }
}

// ---------------------------------------------------------------------------------------------------
// Text generators (DefaultHandler streams)
// ---------------------------------------------------------------------------------------------------

pub const REGIONS: [&str; 3] = ["a", "b", "c"];

/// Frames on overlapping qubit sets: one-qubit frames on 0 and 1, a second frame on 0, a two-qubit frame.
/// From position 5 on: frames equal up to qubit ORDER (`0 1 "z"` / `1 0 "z"`, three orders of `w`), the same name on
/// an overlapping but different qubit set (`1 2 "z"`), a repeated qubit (`0 0 "y"`). A frame's identity is its
/// name and its qubit LIST.
pub const FRAME_DEFS: [(&str, &str); 11] = [
    ("0", "x"),
    ("0", "y"),
    ("1", "x"),
    ("0 1", "z"),
    ("2", "x"),
    ("1 0", "z"),
    ("1 2", "z"),
    ("0 0", "y"),
    ("2 1 0", "w"),
    ("0 2 1", "w"),
    ("0 1 2", "w"),
];

pub fn frame_header(nframes: usize) -> String {
    let mut s = String::new();
    for (q, n) in FRAME_DEFS.iter().take(nframes) {
        s.push_str(&format!("DEFFRAME {q} \"{n}\":\n    SAMPLE-RATE: 1.0\n    INITIAL-FREQUENCY: 1.0\n"));
    }
    s
}

fn pick_frame(rng: &mut Rng, nframes: usize) -> String {
    // sometimes an undefined frame: matches nothing
    if rng.chance(1, 12) || nframes == 0 {
        return "3 \"u\"".to_string();
    }
    let (q, n) = FRAME_DEFS[rng.below(nframes.min(FRAME_DEFS.len()) as u64) as usize];
    format!("{q} \"{n}\"")
}

fn region(rng: &mut Rng, nreg: usize) -> &'static str {
    REGIONS[rng.below(nreg as u64) as usize]
}

/// Durations are dyadic so that sums are exact in f64 (C25).
pub const DURATIONS: [&str; 6] = ["0.5", "1.0", "0.25", "2.0", "1.5", "0.0"];

fn duration(rng: &mut Rng) -> &'static str {
    DURATIONS[rng.below(DURATIONS.len() as u64) as usize]
}

/// One classical instruction over `nreg` regions.
pub fn classical_line(rng: &mut Rng, nreg: usize) -> String {
    let a = region(rng, nreg);
    let b = region(rng, nreg);
    let c = region(rng, nreg);
    match rng.below(14) {
        0 => format!("MOVE {a}[0] 1"),
        1 => format!("MOVE {a}[0] {b}[0]"),
        2 => format!("ADD {a}[0] 1"),
        3 => format!("ADD {a}[0] {b}[0]"),
        4 => format!("LOAD {a}[0] {b} {c}[0]"),
        5 => format!("STORE {a} {b}[0] {c}[0]"),
        6 => format!("EXCHANGE {a}[0] {b}[0]"),
        7 => format!("NOT {a}[0]"),
        8 => format!("EQ {a}[0] {b}[0] {c}[0]"),
        9 => "NOP".to_string(),
        10 => "PRAGMA note".to_string(),
        11 => format!("EXCHANGE {a}[0] {a}[1]"),
        12 => format!("STORE {a} {a}[0] {a}[1]"),
        _ => format!("CONVERT {a}[0] {b}[0]"),
    }
}

/// One RF-control instruction over the first `nframes` frames and `nreg` regions.
pub fn rf_line(rng: &mut Rng, nframes: usize, nreg: usize) -> String {
    let f = pick_frame(rng, nframes);
    let a = region(rng, nreg);
    let nb = if rng.chance(1, 3) { "NONBLOCKING " } else { "" };
    let d = duration(rng);
    let b = region(rng, nreg);
    match rng.below(20) {
        // an instruction whose read set overlaps its capture set (through a waveform parameter / the duration
        // expression), on the same or on another region
        16 => format!("{nb}CAPTURE {f} flat(duration: {d}, iq: {a}[1]) {a}[0]"),
        17 => format!("{nb}CAPTURE {f} flat(duration: {d}, iq: {b}[1], scale: {a}[2]) {a}[0]"),
        18 => format!("{nb}RAW-CAPTURE {f} {a}[0] {a}"),
        19 => format!("{nb}RAW-CAPTURE {f} {b}[0] {a}[1]"),
        0 | 1 | 2 => format!("{nb}PULSE {f} flat(duration: {d}, iq: 1.0)"),
        3 | 4 => format!("{nb}CAPTURE {f} flat(duration: {d}, iq: 1.0) {a}[0]"),
        5 => format!("{nb}RAW-CAPTURE {f} {d} {a}[0]"),
        6 => format!("DELAY {} {d}", rng.below(3)),
        7 => {
            let (q, n) = FRAME_DEFS[rng.below(FRAME_DEFS.len() as u64) as usize];
            format!("DELAY {q} \"{n}\" {d}")
        }
        8 => "FENCE".to_string(),
        9 => format!("FENCE {}", rng.below(3)),
        10 => format!("FENCE {} {}", rng.below(2), 1 + rng.below(2)),
        11 => format!("SHIFT-PHASE {f} {a}[0]"),
        12 => format!("SET-FREQUENCY {f} 2*{a}[0]"),
        13 => format!("SET-PHASE {f} 0.5"),
        14 => {
            if rng.chance(1, 2) {
                "RESET".to_string()
            } else {
                format!("RESET {}", rng.below(3))
            }
        }
        _ => {
            let g = pick_frame(rng, nframes);
            format!("SWAP-PHASES {f} {g}")
        }
    }
}

pub struct ProgCfg {
    pub nframes: usize,
    pub nreg: usize,
    pub max_len: u64,
    /// out of 100: share of RF instructions
    pub rf_pct: u64,
    /// out of 100: chance per position of a control-flow line (label / jump / halt)
    pub cf_pct: u64,
    /// out of 1000: chance per position of an instruction that makes scheduling fail
    pub bad_permille: u64,
}

/// A scheduling-flavoured program text (frames, classical and RF instructions, control flow).
pub fn program_text(rng: &mut Rng, cfg: &ProgCfg) -> String {
    let mut s = frame_header(cfg.nframes);
    let len = rng.below(cfg.max_len + 1);
    let mut label = 0;
    for _ in 0..len {
        if rng.below(100) < cfg.cf_pct {
            let a = region(rng, cfg.nreg);
            match rng.below(6) {
                0 | 1 => {
                    s.push_str(&format!("LABEL @l{label}\n"));
                    label += 1;
                }
                2 => s.push_str(&format!("JUMP @l{}\n", rng.below(label + 1))),
                3 => s.push_str(&format!("JUMP-WHEN @l{} {a}[0]\n", rng.below(label + 1))),
                4 => s.push_str(&format!("JUMP-UNLESS @l{} {a}[0]\n", rng.below(label + 1))),
                _ => s.push_str("HALT\n"),
            }
            continue;
        }
        if rng.below(1000) < cfg.bad_permille {
            match rng.below(4) {
                0 => s.push_str("WAIT\n"),
                1 => s.push_str("X 0\n"),
                2 => s.push_str(&format!("MEASURE 0 {}[0]\n", region(rng, cfg.nreg))),
                _ => s.push_str(&format!("CALL undefined_fn {}[0]\n", region(rng, cfg.nreg))),
            }
            continue;
        }
        if rng.below(100) < cfg.rf_pct {
            s.push_str(&rf_line(rng, cfg.nframes, cfg.nreg));
        } else {
            s.push_str(&classical_line(rng, cfg.nreg));
        }
        s.push('\n');
    }
    s
}

pub fn parse(text: &str) -> Program {
    Program::from_str(text).unwrap_or_else(|e| panic!("generated program does not parse: {text:?}: {e}"))
}

// ---------------------------------------------------------------------------------------------------
// "ast" streams: the program crosses the wire as the shared full AST (harness/src/ast.rs); the driver
// computes blocks and handler answers itself (lean/QV/Shared/HandlerFromAst.lean).
// ---------------------------------------------------------------------------------------------------

/// `err | ((name hasReturn (mutable…))…)`
pub fn sigs_sexp(program: &Program) -> Sexp {
    match ExternSignatureMap::try_from(program.extern_pragma_map.clone()) {
        Err(_) => atom("err"),
        Ok(m) => list(
            m.iter()
                .map(|(name, sig)| {
                    list(vec![
                        st(name.clone()),
                        nat(sig.return_type().is_some() as u64),
                        list(sig.parameters().iter().map(|p| nat(p.mutable() as u64)).collect()),
                    ])
                })
                .collect(),
        ),
    }
}

/// the REAL default handler's answer about one instruction, by name (cross-check of `answersOf`)
pub fn real_answer(program: &Program, externs: &ExternSignatureMap, instruction: &Instruction) -> Sexp {
    let handler = DefaultHandler;
    let role = match handler.role(instruction) {
        InstructionRole::ClassicalCompute => "c",
        InstructionRole::RFControl => "r",
        InstructionRole::ControlFlow => "f",
        InstructionRole::ProgramComposition => "p",
    };
    let names = |s: HashSet<String>| {
        let mut v: Vec<String> = s.into_iter().collect();
        v.sort();
        list(v.into_iter().map(st).collect())
    };
    let (mem_err, r, w, c) = match handler.memory_accesses(externs, instruction) {
        Ok(a) => (false, names(a.reads), names(a.writes), names(a.captures)),
        Err(_) => (true, list(vec![]), list(vec![]), list(vec![])),
    };
    let frames = |s: &HashSet<&FrameIdentifier>| {
        let mut v: Vec<&FrameIdentifier> = s.iter().copied().collect();
        v.sort_by_key(|f| frame_key(f));
        list(v.into_iter().map(crate::ast::frame_identifier_to_sexp).collect())
    };
    let fr = match handler.matching_frames(program, instruction) {
        None => atom("none"),
        Some(m) => tagged("fr", vec![frames(&m.used), frames(&m.blocked)]),
    };
    tagged("a", vec![atom(role), nat(handler.is_scheduled(instruction) as u64), nat(mem_err as u64), r, w, c, fr])
}

/// Build the program from `instructions` by `add_instruction` calls and return it with the case input
/// `(instruction-list-AST, sigs, real blocks/answers)`.
pub fn ast_parts(instructions: &[Instruction]) -> (Program, Vec<Sexp>) {
    let program = Program::from_instructions(instructions.to_vec());
    let parts = ast_parts_of(&program, instructions);
    (program, parts)
}

/// The same for a program object that was built from `instructions` by some route of `add_instruction` calls
/// (e.g. in several stages, with scheduling in between: `used_qubits` is maintained incrementally).
pub fn ast_parts_of(program: &Program, instructions: &[Instruction]) -> Vec<Sexp> {
    let externs = ExternSignatureMap::try_from(program.extern_pragma_map.clone()).unwrap_or_default();
    let blocks = ControlFlowGraph::from(program).into_blocks();
    let real = blocks
        .iter()
        .map(|b| {
            let is = b.instructions().iter().map(|i| real_answer(program, &externs, i)).collect();
            let t = match b.terminator().clone().into_instruction() {
                Some(t) => real_answer(program, &externs, &t),
                None => atom("none"),
            };
            tagged("b", vec![list(is), t])
        })
        .collect();
    vec![crate::ast::instructions_to_sexp(instructions), sigs_sexp(program), list(real)]
}

/// SEQUENCE of calls on one `Program` object: add the first `cut` instructions, schedule, add the rest, schedule
/// again (and once more, unchanged). Each observation is an ast case over the instructions added so far.
pub fn staged_ast_cases(ctx: &mut crate::Ctx, instructions: &[Instruction], cut: usize) {
    let cut = cut.min(instructions.len());
    let mut program = Program::new();
    program.add_instructions(instructions[..cut].to_vec());
    let parts = ast_parts_of(&program, &instructions[..cut]);
    ctx.case(tagged("ast", parts), || run_from_program(&program, &DefaultHandler));
    program.add_instructions(instructions[cut..].to_vec());
    for _ in 0..2 {
        let parts = ast_parts_of(&program, instructions);
        ctx.case(tagged("ast", parts), || run_from_program(&program, &DefaultHandler));
    }
}

/// Special shapes: a long block (> 64 instructions), an instruction touching > 32 frames, > 32 regions.
pub fn large_programs(rng: &mut Rng) -> Vec<String> {
    let mut out = Vec::new();
    // 40 single-qubit frames + a 40-qubit frame; FENCE / RESET / blocking pulses over them
    let mut s = String::new();
    for q in 0..40 {
        s.push_str(&format!("DEFFRAME {q} \"x\":\n    SAMPLE-RATE: 1.0\n"));
    }
    let all: Vec<String> = (0..40).map(|q| q.to_string()).collect();
    s.push_str(&format!("DEFFRAME {} \"w\":\n    SAMPLE-RATE: 1.0\n", all.join(" ")));
    s.push_str("FENCE\nRESET\nPULSE 7 \"x\" flat(duration: 1.0, iq: 1.0)\nFENCE 1 2 3\n");
    s.push_str(&format!("PULSE {} \"w\" flat(duration: 1.0, iq: 1.0)\nRESET 39\nFENCE\n", all.join(" ")));
    out.push(s);
    // 40 regions read by one instruction's expression, then written one by one
    let mut s = String::from("DEFFRAME 0 \"x\":\n    SAMPLE-RATE: 1.0\n");
    let sum: Vec<String> = (0..40).map(|r| format!("r{r}[0]")).collect();
    s.push_str(&format!("SET-SCALE 0 \"x\" {}\n", sum.join(" + ")));
    for r in 0..40 {
        s.push_str(&format!("MOVE r{r}[0] 1\n"));
    }
    s.push_str(&format!("SHIFT-PHASE 0 \"x\" {}\n", sum.join(" * ")));
    out.push(s);
    // a block of 100 random instructions
    let cfg = ProgCfg { nframes: 5, nreg: 3, max_len: 100, rf_pct: 50, cf_pct: 0, bad_permille: 0 };
    for _ in 0..3 {
        let mut t = program_text(rng, &cfg);
        while t.lines().count() < 80 {
            t.push_str(&rf_line(rng, 5, 3));
            t.push('\n');
            t.push_str(&classical_line(rng, 3));
            t.push('\n');
        }
        out.push(t);
    }
    out
}

/// API-only shapes: qubit PLACEHOLDERS (compared by address) in frames, pulses, RESET, FENCE, DELAY, and target
/// placeholders in labels / jumps. Only the projected streams can carry them.
pub fn placeholder_programs() -> Vec<Program> {
    use quil_rs::instruction::{
        Fence, FrameAttributes, FrameDefinition, Jump, Label, Pulse, Qubit, QubitPlaceholder, Reset, Target,
        TargetPlaceholder, WaveformInvocation,
    };
    let mut out = Vec::new();
    for shared in [false, true] {
        let p0 = Qubit::Placeholder(QubitPlaceholder::default());
        let p1 = if shared { p0.clone() } else { Qubit::Placeholder(QubitPlaceholder::default()) };
        let frame = |q: &Qubit, n: &str| FrameIdentifier { name: n.to_string(), qubits: vec![q.clone()] };
        let pulse = |q: &Qubit, n: &str, blocking: bool| {
            Instruction::Pulse(Pulse {
                blocking,
                frame: frame(q, n),
                waveform: WaveformInvocation { name: "flat".to_string(), parameters: Default::default() },
            })
        };
        let t = Target::Placeholder(TargetPlaceholder::new("l".to_string()));
        let body = vec![
            Instruction::FrameDefinition(FrameDefinition { identifier: frame(&p0, "x"), attributes: FrameAttributes::new() }),
            Instruction::FrameDefinition(FrameDefinition { identifier: frame(&p1, "y"), attributes: FrameAttributes::new() }),
            Instruction::FrameDefinition(FrameDefinition {
                identifier: FrameIdentifier { name: "z".to_string(), qubits: vec![p0.clone(), Qubit::Fixed(1)] },
                attributes: FrameAttributes::new(),
            }),
            pulse(&p0, "x", true),
            pulse(&p1, "y", false),
            Instruction::Reset(Reset { qubit: Some(p1.clone()) }),
            Instruction::Fence(Fence { qubits: vec![p0.clone()] }),
            Instruction::Jump(Jump { target: t.clone() }),
            Instruction::Label(Label { target: t }),
            Instruction::Reset(Reset { qubit: None }),
            pulse(&p1, "x", true),
        ];
        out.push(Program::from_instructions(body));
    }
    out
}

/// The instruction list a program text parses to (definitions first, as `to_instructions` lists them).
pub fn parsed_instructions(text: &str) -> Vec<Instruction> {
    parse(text).to_instructions()
}

/// Richer program texts for the ast streams: definitions (DECLARE, DEFFRAME with attributes, DEFWAVEFORM,
/// DEFCAL, PRAGMA EXTERN), CALLs, expressions with memory references, on top of `program_text`.
pub fn ast_program_text(rng: &mut Rng, cfg: &ProgCfg) -> String {
    let mut s = String::new();
    let has_foo = rng.chance(2, 3);
    if has_foo {
        s.push_str("PRAGMA EXTERN foo \"INTEGER (x : mut INTEGER, y : REAL)\"\n");
    }
    let has_bar = rng.chance(1, 2);
    if has_bar {
        s.push_str("PRAGMA EXTERN bar \"(z : INTEGER)\"\n");
    }
    if rng.chance(1, 40) {
        s.push_str("PRAGMA EXTERN bad \"not a signature\"\n");
    }
    for r in REGIONS.iter().take(cfg.nreg) {
        if rng.chance(2, 3) {
            s.push_str(&format!("DECLARE {r} REAL[4]\n"));
        }
    }
    if rng.chance(1, 3) {
        s.push_str("DEFCAL X 0:\n    PULSE 0 \"x\" flat(duration: 1.0, iq: 1.0)\n    SHIFT-PHASE 1 \"x\" a[0]\n");
    }
    if rng.chance(1, 4) {
        s.push_str("DEFCAL MEASURE 2 addr:\n    CAPTURE 2 \"x\" flat(duration: 1.0, iq: 1.0) addr\n");
    }
    if rng.chance(1, 4) {
        s.push_str("DEFWAVEFORM w:\n    1, 1, 1, 1\n");
    }
    let body = program_text(rng, cfg);
    // sprinkle CALLs and expression-carrying instructions into the body
    let mut out = String::new();
    for line in body.lines() {
        out.push_str(line);
        out.push('\n');
        if !line.starts_with("DEFFRAME") && !line.starts_with("    ") && rng.chance(1, 8) {
            let a = REGIONS[rng.below(cfg.nreg as u64) as usize];
            let b = REGIONS[rng.below(cfg.nreg as u64) as usize];
            // a CALL of an undeclared function makes scheduling fail: keep that rare
            let pick = rng.below(5);
            let undeclared = (pick == 1 && !has_bar) || ((pick == 0 || pick == 2) && !has_foo);
            match if undeclared && !rng.chance(1, 10) { 3 } else { pick } {
                0 => out.push_str(&format!("CALL foo {a}[0] {b}[1] 1.5\n")),
                1 => out.push_str(&format!("CALL bar {a}\n")),
                2 => out.push_str(&format!("CALL foo {a}[0] {b}\n")),
                3 => out.push_str(&format!("SET-SCALE 0 \"x\" cos({a}[1]) + {b}[2]\n")),
                _ => out.push_str(&format!("PULSE 0 \"x\" flat(duration: 1.0, iq: {a}[0], detuning: -{b}[3])\n")),
            }
        }
    }
    s.push_str(&out);
    s
}

/// Small exhaustive family around "an RF-control instruction that USES no defined frame but BLOCKS some"
/// (and its neighbours): frame sets where a qubit's frames are exact single-qubit / only multi-qubit / absent,
/// × RESET q / bare RESET / blocking and non-blocking PULSE, CAPTURE, RAW-CAPTURE on an UNDEFINED frame sharing
/// a qubit with defined ones / DELAY, FENCE on a qubit without exact frames, × position in the block (alone,
/// first, last, between) × whether a second qubit is used by the program.
pub fn frame_shape_programs() -> Vec<String> {
    let frame_sets: [&[(&str, &str)]; 13] = [
        // frames equal up to qubit order, repeated qubits, same name on overlapping sets
        &[("0 1", "cz"), ("1 0", "cz")],
        &[("1 0", "cz")],
        &[("1 0", "cz"), ("0 1", "cz"), ("1 2", "cz")],
        &[("2 1 0", "w"), ("0 2 1", "w"), ("0 1 2", "w")],
        &[("0 0", "rf"), ("0", "rf")],
        &[("1 0", "cz"), ("1 0", "u"), ("0 1", "u")],
        &[],
        &[("0", "x")],
        &[("0 1", "cz")],
        &[("0", "x"), ("1", "x")],
        &[("0", "x"), ("0 1", "cz")],
        &[("1", "x"), ("0 1", "cz")],
        &[("0 1", "cz"), ("1 2", "cz"), ("2", "x")],
    ];
    let subjects = [
        "RESET 0",
        "RESET 1",
        "RESET",
        "PULSE 0 \"u\" flat(duration: 1.0, iq: 1.0)",
        "NONBLOCKING PULSE 0 \"u\" flat(duration: 1.0, iq: 1.0)",
        "CAPTURE 1 \"u\" flat(duration: 1.0, iq: 1.0) ro[0]",
        "RAW-CAPTURE 0 1 \"u\" 1.0 ro[0]",
        "DELAY 0 1.0",
        "FENCE 0",
        "SWAP-PHASES 0 \"u\" 1 \"u\"",
        "PULSE 0 1 \"cz\" flat(duration: 1.0, iq: 1.0)",
        "PULSE 1 0 \"cz\" flat(duration: 1.0, iq: 1.0)",
        "NONBLOCKING CAPTURE 1 0 \"cz\" flat(duration: 1.0, iq: 1.0) ro[0]",
        "RAW-CAPTURE 0 0 \"rf\" 1.0 ro[0]",
        "DELAY 0 1 1.0",
        "DELAY 1 0 \"cz\" 1.0",
        "FENCE",
        "SWAP-PHASES 0 1 \"cz\" 1 0 \"cz\"",
        "PULSE 2 1 0 \"w\" flat(duration: 1.0, iq: 1.0)",
    ];
    let before = ["", "MOVE ro[1] 1\n", "PULSE 0 1 \"cz\" flat(duration: 1.0, iq: 1.0)\n", "FENCE 1\n"];
    let after = ["", "MOVE ro[2] 1\n", "PULSE 0 \"x\" flat(duration: 1.0, iq: 1.0)\n", "HALT\n"];
    let mut out = Vec::new();
    for fs in frame_sets {
        let mut header = String::new();
        for (q, n) in fs {
            header.push_str(&format!("DEFFRAME {q} \"{n}\":\n    SAMPLE-RATE: 1.0\n"));
        }
        for subject in subjects {
            for b in before {
                for a in after {
                    out.push(format!("{header}{b}{subject}\n{a}"));
                }
            }
        }
    }
    out
}
