//! Shared expression tooling for every property that sends or receives a `quil_rs::expression::Expression`
//! (C13, C30; meant for C12, C03 …).  Lean side: `lean/QV/Shared/{Expr,CFloat,ExprWire}.lean`.
//!
//! * **Encoder** (`expr_to_sexp`, `complex_to_sexp`, `memref_to_sexp`, `var_env_to_sexp`, `mem_env_to_sexp`):
//!   the wire format documented in `ExprWire.lean`; every `f64` crosses as its 16 hex bit digits
//!   (`f64bits`), never as decimal text.
//! * **Constructors** (`num`, `real`, `var`, `addr`, `call`, `prefix`, `infix`): build expressions through
//!   quil-rs's own public types (`ArcIntern` is reached through `.into()`).
//! * **Exhaustive enumerator** (`Alphabet`, `all_exprs`): every tree of depth ≤ d over a given leaf alphabet
//!   and given operator sets, in a fixed deterministic order.
//! * **Seeded random generator** (`random_expr`): structured random trees over an `Alphabet`.
use crate::rng::Rng;
use crate::wire::*;
use num_complex::Complex64;
use quil_rs::expression::{
    Expression, ExpressionFunction, FunctionCallExpression, InfixExpression, InfixOperator, PrefixExpression,
    PrefixOperator,
};
use quil_rs::instruction::MemoryReference;

pub const ALL_FUNCTIONS: [ExpressionFunction; 5] = [
    ExpressionFunction::Cis,
    ExpressionFunction::Cosine,
    ExpressionFunction::Exponent,
    ExpressionFunction::Sine,
    ExpressionFunction::SquareRoot,
];
pub const ALL_PREFIX: [PrefixOperator; 2] = [PrefixOperator::Plus, PrefixOperator::Minus];
pub const ALL_INFIX: [InfixOperator; 5] = [
    InfixOperator::Caret,
    InfixOperator::Plus,
    InfixOperator::Minus,
    InfixOperator::Slash,
    InfixOperator::Star,
];

// ---------------------------------------------------------------- constructors

pub fn num(re: f64, im: f64) -> Expression {
    Expression::Number(Complex64::new(re, im))
}
pub fn real(re: f64) -> Expression {
    num(re, 0.0)
}
pub fn var(name: &str) -> Expression {
    Expression::Variable(name.to_string())
}
pub fn addr(name: &str, index: u64) -> Expression {
    Expression::Address(MemoryReference { name: name.to_string(), index })
}
pub fn call(function: ExpressionFunction, e: Expression) -> Expression {
    Expression::FunctionCall(FunctionCallExpression::new(function, e.into()))
}
pub fn prefix(operator: PrefixOperator, e: Expression) -> Expression {
    Expression::Prefix(PrefixExpression::new(operator, e.into()))
}
pub fn infix(l: Expression, operator: InfixOperator, r: Expression) -> Expression {
    Expression::Infix(InfixExpression::new(l.into(), operator, r.into()))
}

// ---------------------------------------------------------------- encoder

pub fn fn_name(f: ExpressionFunction) -> &'static str {
    match f {
        ExpressionFunction::Cis => "cis",
        ExpressionFunction::Cosine => "cos",
        ExpressionFunction::Exponent => "exp",
        ExpressionFunction::Sine => "sin",
        ExpressionFunction::SquareRoot => "sqrt",
    }
}
pub fn prefix_name(o: PrefixOperator) -> &'static str {
    match o {
        PrefixOperator::Plus => "plus",
        PrefixOperator::Minus => "minus",
    }
}
pub fn infix_name(o: InfixOperator) -> &'static str {
    match o {
        InfixOperator::Caret => "caret",
        InfixOperator::Plus => "plus",
        InfixOperator::Minus => "minus",
        InfixOperator::Slash => "slash",
        InfixOperator::Star => "star",
    }
}

/// `(c xRE xIM)`
pub fn complex_to_sexp(c: Complex64) -> Sexp {
    tagged("c", vec![f64bits(c.re), f64bits(c.im)])
}
/// `(ref "name" index)`
pub fn memref_to_sexp(r: &MemoryReference) -> Sexp {
    tagged("ref", vec![st(r.name.clone()), nat(r.index)])
}
/// The expression as an s-expression (structure exact, numeric leaves as bits).
pub fn expr_to_sexp(e: &Expression) -> Sexp {
    match e {
        Expression::Address(r) => tagged("addr", vec![st(r.name.clone()), nat(r.index)]),
        Expression::FunctionCall(FunctionCallExpression { function, expression }) => {
            tagged("call", vec![atom(fn_name(*function)), expr_to_sexp(expression)])
        }
        Expression::Infix(InfixExpression { left, operator, right }) => {
            tagged("infix", vec![atom(infix_name(*operator)), expr_to_sexp(left), expr_to_sexp(right)])
        }
        Expression::Number(c) => tagged("num", vec![f64bits(c.re), f64bits(c.im)]),
        Expression::PiConstant() => tagged("pi", vec![]),
        Expression::Prefix(PrefixExpression { operator, expression }) => {
            tagged("prefix", vec![atom(prefix_name(*operator)), expr_to_sexp(expression)])
        }
        Expression::Variable(x) => tagged("var", vec![st(x.clone())]),
    }
}
/// `(("x" (c re im)) …)` in the given order (callers pass a `Vec`, never iterate a `HashMap`).
pub fn var_env_to_sexp(env: &[(String, Complex64)]) -> Sexp {
    list(env.iter().map(|(k, v)| list(vec![st(k.clone()), complex_to_sexp(*v)])).collect())
}
/// `(("a" (x… x…)) …)`
pub fn mem_env_to_sexp(env: &[(String, Vec<f64>)]) -> Sexp {
    list(
        env.iter()
            .map(|(k, v)| list(vec![st(k.clone()), list(v.iter().map(|x| f64bits(*x)).collect())]))
            .collect(),
    )
}

// ---------------------------------------------------------------- measures

pub fn depth(e: &Expression) -> usize {
    match e {
        Expression::FunctionCall(FunctionCallExpression { expression, .. })
        | Expression::Prefix(PrefixExpression { expression, .. }) => 1 + depth(expression),
        Expression::Infix(InfixExpression { left, right, .. }) => 1 + depth(left).max(depth(right)),
        _ => 0,
    }
}

// ---------------------------------------------------------------- alphabets, enumeration, random trees

/// What trees are built from.
#[derive(Clone)]
pub struct Alphabet {
    pub leaves: Vec<Expression>,
    pub functions: Vec<ExpressionFunction>,
    pub prefix: Vec<PrefixOperator>,
    pub infix: Vec<InfixOperator>,
}

impl Alphabet {
    /// every operator of the language over the given leaves
    pub fn full(leaves: Vec<Expression>) -> Self {
        Alphabet { leaves, functions: ALL_FUNCTIONS.to_vec(), prefix: ALL_PREFIX.to_vec(), infix: ALL_INFIX.to_vec() }
    }
    /// number of trees of depth ≤ d (to size enumerations before running them)
    pub fn count(&self, d: usize) -> u128 {
        let l = self.leaves.len() as u128;
        let unary = (self.functions.len() + self.prefix.len()) as u128;
        let bin = self.infix.len() as u128;
        let mut n = l;
        for _ in 0..d {
            n = l + unary * n + bin * n * n;
        }
        n
    }
}

/// All expression trees of depth ≤ `d` over the alphabet, each exactly once, in a fixed order: the trees of
/// depth ≤ d-1 first (so the result for d-1 is a prefix of the result for d), then function calls, prefix
/// and infix nodes whose deepest child has depth exactly d-1.
pub fn all_exprs(alphabet: &Alphabet, d: usize) -> Vec<Expression> {
    let mut all: Vec<Expression> = alphabet.leaves.clone();
    let mut prev_len = 0usize; // trees of depth ≤ level-2 are all[..prev_len]
    for _level in 1..=d {
        let cur_len = all.len(); // trees of depth ≤ level-1 are all[..cur_len]
        let mut new: Vec<Expression> = Vec::new();
        // unary nodes over children of depth exactly level-1
        for child in &all[prev_len..cur_len] {
            for f in &alphabet.functions {
                new.push(call(*f, child.clone()));
            }
            for o in &alphabet.prefix {
                new.push(prefix(*o, child.clone()));
            }
        }
        // binary nodes with at least one child of depth exactly level-1
        for (i, l) in all[..cur_len].iter().enumerate() {
            for (j, r) in all[..cur_len].iter().enumerate() {
                if i < prev_len && j < prev_len {
                    continue;
                }
                for o in &alphabet.infix {
                    new.push(infix(l.clone(), *o, r.clone()));
                }
            }
        }
        prev_len = cur_len;
        all.extend(new);
    }
    all
}

/// A random tree of depth ≤ `max_depth`: at each node a leaf with probability growing towards the depth
/// limit, else a function call / prefix / infix node (infix twice as likely).
pub fn random_expr(rng: &mut Rng, alphabet: &Alphabet, max_depth: usize) -> Expression {
    let leaf = max_depth == 0 || rng.chance(1, (max_depth as u64) + 2);
    if leaf {
        return rng.pick(&alphabet.leaves).clone();
    }
    let nf = if alphabet.functions.is_empty() { 0 } else { 1 };
    let np = if alphabet.prefix.is_empty() { 0 } else { 1 };
    let ni = if alphabet.infix.is_empty() { 0 } else { 2 };
    let total = nf + np + ni;
    if total == 0 {
        return rng.pick(&alphabet.leaves).clone();
    }
    let k = rng.below(total);
    if k < nf {
        call(*rng.pick(&alphabet.functions), random_expr(rng, alphabet, max_depth - 1))
    } else if k < nf + np {
        prefix(*rng.pick(&alphabet.prefix), random_expr(rng, alphabet, max_depth - 1))
    } else {
        let l = random_expr(rng, alphabet, max_depth - 1);
        let o = *rng.pick(&alphabet.infix);
        let r = random_expr(rng, alphabet, max_depth - 1);
        infix(l, o, r)
    }
}

/// A random "interesting" double: small integers, simple fractions, special values, and uniform reals.
///
/// Never `-0.0` and never NaN: quil-rs hash-conses expression children under an equality that identifies
/// `+0.0` with `-0.0` and all NaNs, so two live leaves that differ only in that way get merged (known
/// finding C13/interning-merges-signed-zero).  Streams that want such leaves use `random_f64_signed_zero`
/// and tag themselves.
pub fn random_f64(rng: &mut Rng) -> f64 {
    const SPECIAL: [f64; 13] = [
        0.0, 1.0, -1.0, 2.0, 0.5, -0.5, 3.0, 1e-11, 1e10, std::f64::consts::PI, std::f64::consts::FRAC_PI_2, 1e-300, -7.25,
    ];
    let x = match rng.below(4) {
        0 => *rng.pick(&SPECIAL),
        1 => rng.range(-9, 9) as f64,
        2 => (rng.unit() - 0.5) * 6.0,
        _ => (rng.unit() - 0.5) * 200.0,
    };
    if x == 0.0 {
        0.0
    } else {
        x
    }
}

/// Like `random_f64` but half of the time a zero of random sign (see `random_f64`).
pub fn random_f64_signed_zero(rng: &mut Rng) -> f64 {
    if rng.chance(1, 2) {
        if rng.chance(1, 2) {
            0.0
        } else {
            -0.0
        }
    } else {
        random_f64(rng)
    }
}
