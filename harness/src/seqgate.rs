//! Shared tooling for C20 / C21 (expansion of `DEFGATE … AS SEQUENCE` and its source map).
//! Lean side: `lean/QV/C20/{Model,Run}.lean`, `lean/QV/C21/{Model,Run}.lean`.
//!
//! Wire format (expressions as in `expr.rs` / `ExprWire.lean`):
//!
//!   qubit      (f n) | (ph k) | (v "name")            placeholders numbered by first occurrence in the input
//!   modifier   controlled | dagger | forked
//!   gate       (g "name" (E…) (Q…) (M…))
//!   instr      gate | (other k)                        k indexes `other_table()`; (unknown "dbg") if not in the table
//!   def        (def "name" ("p"…) (seq ("q"…) (gate…)))  |  (def "name" ("p"…) (other))
//!   input      (prog (defs def…) (body instr…) (sel "name"…))      filter = membership in `sel`
//!   error      (paramCount e f) | (cyclic "n"…) | (qubitCount e f) | (nonFixed Q) | (modifiers M…)
//!              | (invalidElem Q) | (undefinedElem "v") | (otherError "dbg")
use crate::expr::{self, expr_to_sexp};
use crate::rng::Rng;
use crate::wire::*;
use quil_rs::expression::{Expression, InfixOperator, PrefixOperator};
use quil_rs::instruction::{
    DefGateSequence, DefGateSequenceExpansionError, Fence, Gate, GateDefinition, GateModifier, GateSpecification,
    Instruction, Label, Measurement, MemoryReference, Pragma, Qubit, QubitPlaceholder, Reset, Target,
};
use quil_rs::program::{DefGateSequenceExpansion, ExpansionResult, InstructionIndex, ProgramError, SourceMap};
use quil_rs::quil::Quil;
use std::str::FromStr;
use quil_rs::verif_hooks;
use quil_rs::Program;

// ------------------------------------------------------------------ descriptions

#[derive(Clone, Debug)]
pub enum SpecDesc {
    /// `unchecked`: built through the cfg hook instead of `DefGateSequence::try_new`
    Seq { qvars: Vec<String>, gates: Vec<Gate>, unchecked: bool },
    /// a non-sequence definition (PERMUTATION)
    Other,
}

#[derive(Clone, Debug)]
pub struct DefDesc {
    pub name: String,
    pub params: Vec<String>,
    pub spec: SpecDesc,
}

#[derive(Clone, Debug)]
pub enum Item {
    Gate(Gate),
    Other(usize),
}

#[derive(Clone, Debug)]
pub struct Case {
    pub defs: Vec<DefDesc>,
    pub body: Vec<Item>,
    pub sel: Vec<String>,
}

/// Non-body program components added to a quarter of the cases (see `Case::build_with`).
pub const EXTRAS: &str = "DECLARE ro BIT[2]\nDECLARE theta REAL[1]\nDEFFRAME 0 \"rf\":\n    SAMPLE-RATE: 1.0\n    INITIAL-FREQUENCY: 2.0\nDEFWAVEFORM w:\n    1.0, 0.5\nDEFCAL X 5:\n    PULSE 0 \"rf\" w\n    a 5\nDEFCAL MEASURE 6 addr:\n    CAPTURE 0 \"rf\" w addr\nDEFCIRCUIT circ q:\n    H q\n    b q\nPRAGMA EXTERN foo \"(x : INTEGER)\"\n";

/// The opaque non-gate body instructions (`other k`): 8 hand-written ones, then one instance of EVERY other
/// body-level variant of `Instruction` (from the shared `instrgen`, fixed seed), so that "all other instructions
/// stay unchanged" is observed for rarely used kinds too (JUMP-WHEN, CAPTURE, SET-PHASE, CALL, LOAD, WAIT …).
pub fn other_table() -> &'static Vec<Instruction> {
    static TABLE: std::sync::OnceLock<Vec<Instruction>> = std::sync::OnceLock::new();
    TABLE.get_or_init(|| {
        let mut v = vec![
            Instruction::Reset(Reset { qubit: None }),
            Instruction::Measurement(Measurement {
                name: None,
                qubit: Qubit::Fixed(0),
                target: Some(MemoryReference { name: "ro".to_string(), index: 0 }),
            }),
            Instruction::Halt(),
            Instruction::Nop(),
            Instruction::Label(Label { target: Target::Fixed("l".to_string()) }),
            Instruction::Pragma(Pragma::new("NOTE".to_string(), vec![], Some("a 0".to_string()))),
            Instruction::Fence(Fence { qubits: vec![Qubit::Fixed(0), Qubit::Fixed(1)] }),
            Instruction::Reset(Reset { qubit: Some(Qubit::Fixed(1)) }),
        ];
        let alpha = crate::instrgen::Alpha::small();
        let mut rng = Rng::new(0xC20);
        for name in crate::instrgen::VARIANTS {
            if matches!(
                name,
                "CalibrationDefinition"
                    | "CircuitDefinition"
                    | "Declaration"
                    | "FrameDefinition"
                    | "GateDefinition"
                    | "MeasureCalibrationDefinition"
                    | "WaveformDefinition"
                    | "Gate"
            ) {
                continue;
            }
            for _ in 0..2 {
                let i = crate::instrgen::gen_variant(&mut rng, &alpha, name, 0);
                // must be a body instruction (not routed elsewhere by add_instruction) and new to the table
                let mut probe = Program::new();
                probe.add_instruction(i.clone());
                if probe.body_instructions().count() == 1 && !matches!(i, Instruction::Gate(_)) && !v.contains(&i) {
                    v.push(i);
                }
            }
        }
        v
    })
}

pub fn gate(name: &str, params: Vec<Expression>, qubits: Vec<Qubit>, mods: Vec<GateModifier>) -> Gate {
    Gate { name: name.to_string(), parameters: params, qubits, modifiers: mods }
}
pub fn qv(name: &str) -> Qubit {
    Qubit::Variable(name.to_string())
}
pub fn strs(xs: &[&str]) -> Vec<String> {
    xs.iter().map(|s| s.to_string()).collect()
}

impl Case {
    /// Build the real `Program` through `add_instruction`. `None` if quil-rs's own constructors reject a
    /// definition (the generators avoid that; such cases are skipped, never emitted).
    pub fn build(&self) -> Option<Program> {
        self.build_with(false)
    }

    /// `extras`: the program additionally carries a declaration, a frame, a waveform, a calibration (whose body
    /// invokes `a`), a measure calibration, a circuit and an EXTERN pragma — none of them body instructions —
    /// so that "the two entry points return the same *program*" is observed on every component.
    pub fn build_with(&self, extras: bool) -> Option<Program> {
        let others = other_table();
        let mut p = Program::new();
        if extras {
            let extra = Program::from_str(EXTRAS).expect("extras parse");
            if extra.body_instructions().count() != 0 {
                return None;
            }
            p.add_instructions(extra.to_instructions());
        }
        for d in &self.defs {
            let spec = match &d.spec {
                SpecDesc::Other => GateSpecification::Permutation(vec![1, 0]),
                SpecDesc::Seq { qvars, gates, unchecked } => GateSpecification::Sequence(if *unchecked {
                    verif_hooks::c20::def_gate_sequence_unchecked(qvars.clone(), gates.clone())
                } else {
                    DefGateSequence::try_new(qvars.clone(), gates.clone()).ok()?
                }),
            };
            let def = GateDefinition::new(d.name.clone(), d.params.clone(), spec).ok()?;
            p.add_instruction(Instruction::GateDefinition(def));
        }
        for it in &self.body {
            p.add_instruction(match it {
                Item::Gate(g) => Instruction::Gate(g.clone()),
                Item::Other(k) => others[*k].clone(),
            });
        }
        // the IndexMap must hold exactly the described definitions, in order (distinct names)
        if p.gate_definitions.len() != self.defs.len()
            || p.gate_definitions.keys().zip(self.defs.iter()).any(|(k, d)| *k != d.name)
            || p.body_instructions().count() != self.body.len()
        {
            return None;
        }
        Some(p)
    }
}

// ------------------------------------------------------------------ encoders

/// Placeholder numbering: by first occurrence (the input is encoded first, outputs reuse the table).
#[derive(Default)]
pub struct PhTable(pub Vec<QubitPlaceholder>);

impl PhTable {
    fn number(&mut self, p: &QubitPlaceholder) -> u64 {
        if let Some(i) = self.0.iter().position(|x| x == p) {
            i as u64
        } else {
            self.0.push(p.clone());
            (self.0.len() - 1) as u64
        }
    }
}

pub fn qubit_to_sexp(q: &Qubit, t: &mut PhTable) -> Sexp {
    match q {
        Qubit::Fixed(n) => tagged("f", vec![nat(*n)]),
        Qubit::Placeholder(p) => tagged("ph", vec![nat(t.number(p))]),
        Qubit::Variable(v) => tagged("v", vec![st(v.clone())]),
    }
}

pub fn modifier_to_sexp(m: &GateModifier) -> Sexp {
    atom(match m {
        GateModifier::Controlled => "controlled",
        GateModifier::Dagger => "dagger",
        GateModifier::Forked => "forked",
    })
}

pub fn gate_to_sexp(g: &Gate, t: &mut PhTable) -> Sexp {
    tagged(
        "g",
        vec![
            st(g.name.clone()),
            list(g.parameters.iter().map(expr_to_sexp).collect()),
            list(g.qubits.iter().map(|q| qubit_to_sexp(q, t)).collect()),
            list(g.modifiers.iter().map(modifier_to_sexp).collect()),
        ],
    )
}

pub fn instr_to_sexp(i: &Instruction, t: &mut PhTable) -> Sexp {
    match i {
        Instruction::Gate(g) => gate_to_sexp(g, t),
        o => match other_table().iter().position(|x| x == o) {
            Some(k) => tagged("other", vec![nat(k as u64)]),
            None => tagged("unknown", vec![st(format!("{o:?}"))]),
        },
    }
}

pub fn case_to_sexp(c: &Case, t: &mut PhTable) -> Sexp {
    case_to_sexp_with(c, false, t)
}

/// Emit one case through BOTH entry points (`observe`). Every fourth case carries the extra program components.
pub fn emit_case(ctx: &mut crate::Ctx, c: &Case) {
    let extras = ctx.next_index % 4 == 3;
    let Some(program) = c.build_with(extras) else { return };
    let mut table = PhTable::default();
    let input = case_to_sexp_with(c, extras, &mut table);
    let sel = c.sel.clone();
    ctx.case(input, move || observe(&program, &sel, &mut table));
}

pub fn case_to_sexp_with(c: &Case, extras: bool, t: &mut PhTable) -> Sexp {
    let defs = c
        .defs
        .iter()
        .map(|d| {
            let spec = match &d.spec {
                SpecDesc::Other => tagged("other", vec![]),
                SpecDesc::Seq { qvars, gates, .. } => tagged(
                    "seq",
                    vec![
                        list(qvars.iter().map(|s| st(s.clone())).collect()),
                        list(gates.iter().map(|g| gate_to_sexp(g, t)).collect()),
                    ],
                ),
            };
            tagged("def", vec![st(d.name.clone()), list(d.params.iter().map(|s| st(s.clone())).collect()), spec])
        })
        .collect();
    let body = c
        .body
        .iter()
        .map(|it| match it {
            Item::Gate(g) => gate_to_sexp(g, t),
            Item::Other(k) => tagged("other", vec![nat(*k as u64)]),
        })
        .collect();
    tagged(
        "prog",
        vec![
            tagged("defs", defs),
            tagged("body", body),
            tagged("sel", c.sel.iter().map(|s| st(s.clone())).collect()),
            tagged("extras", vec![boolean(extras)]),
        ],
    )
}

pub fn expansion_error_to_sexp(e: &DefGateSequenceExpansionError, t: &mut PhTable) -> Sexp {
    use DefGateSequenceExpansionError::*;
    match e {
        ParameterCount { expected, found } => tagged("paramCount", vec![nat(*expected as u64), nat(*found as u64)]),
        CyclicSequenceGateDefinition(names) => tagged("cyclic", names.iter().map(|s| st(s.clone())).collect()),
        QubitCount { expected, found } => tagged("qubitCount", vec![nat(*expected as u64), nat(*found as u64)]),
        NonFixedQubitArgument(q) => tagged("nonFixed", vec![qubit_to_sexp(q, t)]),
        GateModifiersUnsupported(ms) => tagged("modifiers", ms.iter().map(modifier_to_sexp).collect()),
        InvalidGateSequenceElementQubit(q) => tagged("invalidElem", vec![qubit_to_sexp(q, t)]),
        UndefinedGateSequenceElementQubit(v) => tagged("undefinedElem", vec![st(v.clone())]),
    }
}

pub fn program_error_to_sexp(e: &ProgramError, t: &mut PhTable) -> Sexp {
    match e {
        ProgramError::DefGateSequenceExpansionError(e) => expansion_error_to_sexp(e, t),
        o => tagged("otherError", vec![st(format!("{o:?}"))]),
    }
}

/// `(body instr…)` of a program
pub fn body_to_sexp(p: &Program, t: &mut PhTable) -> Sexp {
    tagged("body", p.body_instructions().map(|i| instr_to_sexp(i, t)).collect())
}

/// `(kept "name"…)` in `IndexMap` order and `(intact b)`: every retained definition is, key and value,
/// the original one, and nothing else of the program changed (calibrations, frames, memory, waveforms,
/// circuits, EXTERN pragmas).
pub fn kept_to_sexp(original: &Program, result: &Program) -> (Sexp, Sexp) {
    let kept = tagged("kept", result.gate_definitions.keys().map(|k| st(k.clone())).collect());
    // compared through the derived Debug text, not through quil-rs's own PartialEq
    let dbg = |x: &dyn std::fmt::Debug| format!("{x:?}");
    let intact = result
        .gate_definitions
        .iter()
        .all(|(k, d)| *k == d.name && original.gate_definitions.get(k).map(|o| dbg(o)) == Some(dbg(d)))
        && dbg(&result.calibrations) == dbg(&original.calibrations)
        && dbg(&result.frames) == dbg(&original.frames)
        && dbg(&result.memory_regions) == dbg(&original.memory_regions)
        && dbg(&result.waveforms) == dbg(&original.waveforms)
        && dbg(&result.circuits) == dbg(&original.circuits)
        && dbg(&result.extern_pragma_map) == dbg(&original.extern_pragma_map);
    (kept, tagged("intact", vec![boolean(intact)]))
}

/// Two programs are the same: instruction list (every component, in `to_instructions` order) and used qubits,
/// compared through Debug text (independent of `Program: PartialEq`), plus `PartialEq` itself.
pub fn same_program(a: &Program, b: &Program) -> bool {
    let used = |p: &Program| {
        let mut v: Vec<String> = p.get_used_qubits().iter().map(|q| format!("{q:?}")).collect();
        v.sort();
        v
    };
    format!("{:?}", a.to_instructions()) == format!("{:?}", b.to_instructions()) && used(a) == used(b) && a == b
}

pub type SeqMap<'a> = SourceMap<InstructionIndex, ExpansionResult<DefGateSequenceExpansion<'a>>>;

/// entry = (u src idx) | (r src "name" start stop (entry…))
pub fn map_to_sexp(m: &SeqMap<'_>, original: &Program) -> Vec<Sexp> {
    m.entries()
        .iter()
        .map(|e| {
            let src = nat(e.source_location().0 as u64);
            match e.target_location() {
                ExpansionResult::Unmodified(i) => tagged("u", vec![src, nat(i.0 as u64)]),
                ExpansionResult::Rewritten(x) => {
                    let (name, text) = verif_hooks::c21::expansion_source_signature(x);
                    // the recorded signature must be that of the program's definition of that name
                    let sig_ok = original
                        .gate_definitions
                        .get(&name)
                        .map(|d| d.to_quil_or_debug().starts_with(&format!("{text}:")))
                        .unwrap_or(false);
                    tagged(
                        "r",
                        vec![
                            src,
                            st(if sig_ok { name } else { format!("<bad-signature {text}>") }),
                            nat(x.range().start.0 as u64),
                            nat(x.range().end.0 as u64),
                            list(map_to_sexp(x.nested_expansions(), original)),
                        ],
                    )
                }
            }
        })
        .collect()
}

/// Format an error every way a caller can (a panic in here is a crash of the case).
fn format_error(e: &ProgramError) -> bool {
    use std::error::Error;
    let mut n = e.to_string().len() + format!("{e:#}").len() + format!("{e:?}").len();
    let mut src = e.source();
    while let Some(s) = src {
        n += s.to_string().len();
        src = s.source();
    }
    n > 0
}

fn plain_to_sexp(original: &Program, r: &Result<Program, ProgramError>, t: &mut PhTable) -> Sexp {
    match r {
        Ok(result) => {
            let (kept, intact) = kept_to_sexp(original, result);
            tagged("ok", vec![body_to_sexp(result, t), kept, intact])
        }
        Err(e) => tagged("err", vec![program_error_to_sexp(e, t)]),
    }
}

/// The full observation of one case, shared by C20 and C21: BOTH entry points are run on every case.
///
///   (obs (plain P) (mapped P (map entry…) (ls (src…)…) (lt n…)) (fullsame b) (again b) (errfmt b))
///   P = (ok (body instr…) (kept "name"…) (intact b)) | (err <error>)
///
/// * `plain`  = the consuming `Program::expand_defgate_sequences`
/// * `mapped` = the borrowing `Program::expand_defgate_sequences_with_source_map`; `ls` = for every target index
///   the source indices `SourceMap::list_sources` returns, `lt` = for every source index how many targets
///   `list_targets` returns
/// * `fullsame` = both returned programs are the same in every component (or both failed)
/// * `again` = sequences of calls: expanding the result a second time with the same filter changes nothing, and a
///   second call of the borrowing variant on the same program returns the same program and map
/// * `errfmt` = every returned error was formatted (Display, alternate, Debug, source chain)
pub fn observe(program: &Program, sel: &[String], t: &mut PhTable) -> Sexp {
    let plain = program.clone().expand_defgate_sequences(filter_of(sel));
    let mapped = program.expand_defgate_sequences_with_source_map(filter_of(sel));
    let mut errfmt = true;
    if let Err(e) = &plain {
        errfmt &= format_error(e);
    }
    if let Err(e) = &mapped {
        errfmt &= format_error(e);
    }
    let plain_sexp = plain_to_sexp(program, &plain, t);
    let (mapped_sexp, fullsame, mut again) = match &mapped {
        Ok((result, map)) => {
            let (kept, intact) = kept_to_sexp(program, result);
            let n_out = result.body_instructions().count();
            let n_src = program.body_instructions().count();
            let ls = (0..n_out)
                .map(|i| list(map.list_sources(&InstructionIndex(i)).into_iter().map(|s| nat(s.0 as u64)).collect()))
                .collect();
            let lt = (0..n_src).map(|i| nat(map.list_targets(&InstructionIndex(i)).len() as u64)).collect();
            let sexp = tagged(
                "ok",
                vec![
                    body_to_sexp(result, t),
                    kept,
                    intact,
                    tagged("map", map_to_sexp(map, program)),
                    tagged("ls", ls),
                    tagged("lt", lt),
                ],
            );
            let fullsame = matches!(&plain, Ok(p) if same_program(p, result));
            let again = match program.expand_defgate_sequences_with_source_map(filter_of(sel)) {
                Ok((r2, m2)) => same_program(&r2, result) && format!("{m2:?}") == format!("{map:?}"),
                Err(_) => false,
            };
            (sexp, fullsame, again)
        }
        Err(e) => {
            // both entry points fail; WHICH of several applicable errors each reports is compared by the driver
            // (kinds only), not here
            let fullsame = plain.is_err();
            let again = matches!(program.expand_defgate_sequences_with_source_map(filter_of(sel)), Err(e2) if format!("{e2:?}") == format!("{e:?}"));
            (tagged("err", vec![program_error_to_sexp(e, t)]), fullsame, again)
        }
    };
    if let Ok(p) = &plain {
        again &= matches!(p.clone().expand_defgate_sequences(filter_of(sel)), Ok(p2) if same_program(&p2, p));
    }
    tagged(
        "obs",
        vec![
            tagged("plain", vec![plain_sexp]),
            tagged("mapped", vec![mapped_sexp]),
            tagged("fullsame", vec![boolean(fullsame)]),
            tagged("again", vec![boolean(again)]),
            tagged("errfmt", vec![boolean(errfmt)]),
        ],
    )
}

// ------------------------------------------------------------------ small helpers for generators

pub fn filter_of(sel: &[String]) -> impl Fn(&str) -> bool + '_ {
    move |name: &str| sel.iter().any(|s| s == name)
}

fn num(n: i64) -> Expression {
    expr::real(n as f64)
}
fn var(n: &str) -> Expression {
    expr::var(n)
}

pub fn seq_def(name: &str, params: &[&str], qvars: &[&str], gates: Vec<Gate>) -> DefDesc {
    DefDesc { name: name.to_string(), params: strs(params), spec: SpecDesc::Seq { qvars: strs(qvars), gates, unchecked: false } }
}
pub fn other_def(name: &str, params: &[&str]) -> DefDesc {
    DefDesc { name: name.to_string(), params: strs(params), spec: SpecDesc::Other }
}
fn unchecked(mut d: DefDesc) -> DefDesc {
    if let SpecDesc::Seq { unchecked, .. } = &mut d.spec {
        *unchecked = true;
    }
    d
}
fn fx(ns: &[u64]) -> Vec<Qubit> {
    ns.iter().map(|n| Qubit::Fixed(*n)).collect()
}
fn qvs(ns: &[&str]) -> Vec<Qubit> {
    ns.iter().map(|n| qv(n)).collect()
}
fn g0(name: &str, qs: Vec<Qubit>) -> Gate {
    gate(name, vec![], qs, vec![])
}
fn gp(name: &str, ps: Vec<Expression>, qs: Vec<Qubit>) -> Gate {
    gate(name, ps, qs, vec![])
}
fn ig(g: Gate) -> Item {
    Item::Gate(g)
}

// ------------------------------------------------------------------ stream 1: corpus

/// Hand-written witnesses: the shapes of quil-rs's own ten unit tests, plus the corner cases the
/// property text names (nesting, cycles, arity, modifiers, non-fixed qubits, unselected definitions that
/// reference selected ones, shadowing by a non-sequence definition, duplicate formals, free variables).
pub fn corpus() -> Vec<Case> {
    let pi_half = expr::infix(Expression::PiConstant(), InfixOperator::Slash, num(2));
    let seq1 = seq_def(
        "seq1",
        &["param1"],
        &["a"],
        vec![
            gp("RZ", vec![var("param1")], qvs(&["a"])),
            gp("RX", vec![pi_half.clone()], qvs(&["a"])),
            gp("RZ", vec![var("param1")], qvs(&["a"])),
        ],
    );
    let seq2 = seq_def(
        "seq2",
        &["param1", "param2"],
        &["a", "b"],
        vec![gp("seq1", vec![var("param1")], qvs(&["a"])), gp("seq1", vec![var("param2")], qvs(&["b"]))],
    );
    let seq3 = seq_def(
        "seq3",
        &["p", "q", "r"],
        &["a", "b"],
        vec![
            gp("seq2", vec![var("p"), var("q")], qvs(&["a", "b"])),
            gp("seq1", vec![var("r") * num(2)], qvs(&["b"])),
            g0("CNOT", qvs(&["b", "a"])),
        ],
    );
    let all = |names: &[&str]| strs(names);
    let mut v = vec![];
    // simple_1q_expansions
    v.push(Case {
        defs: vec![seq2.clone(), seq1.clone()],
        body: vec![ig(gp("seq2", vec![Expression::PiConstant(), pi_half.clone()], fx(&[0, 1])))],
        sel: all(&["seq1", "seq2"]),
    });
    // triple nesting, mixed with other instructions
    v.push(Case {
        defs: vec![seq3.clone(), seq2.clone(), seq1.clone()],
        body: vec![
            Item::Other(1),
            ig(gp("seq3", vec![num(1), num(2), var("free")], fx(&[3, 4]))),
            ig(g0("H", fx(&[0]))),
            ig(gp("seq1", vec![expr::addr("theta", 1)], fx(&[2]))),
            Item::Other(2),
        ],
        sel: all(&["seq1", "seq2", "seq3"]),
    });
    // same, only the middle one selected / only the outer one selected / none
    for sel in [vec!["seq2"], vec!["seq3"], vec!["seq1", "seq3"], vec![]] {
        v.push(Case {
            defs: vec![seq3.clone(), seq2.clone(), seq1.clone()],
            body: vec![
                ig(gp("seq3", vec![num(1), num(2), num(3)], fx(&[3, 4]))),
                ig(gp("seq2", vec![num(5), num(6)], fx(&[1, 0]))),
            ],
            sel: all(&sel),
        });
    }
    // cycles: self, two-step, three-step, cycle not reached, cycle below an unselected definition
    let cyc_a = seq_def("a", &[], &["q"], vec![g0("H", qvs(&["q"])), g0("a", qvs(&["q"]))]);
    v.push(Case { defs: vec![cyc_a.clone()], body: vec![ig(g0("a", fx(&[0])))], sel: all(&["a"]) });
    v.push(Case { defs: vec![cyc_a.clone()], body: vec![ig(g0("a", fx(&[0])))], sel: all(&[]) });
    v.push(Case { defs: vec![cyc_a.clone()], body: vec![ig(g0("H", fx(&[0])))], sel: all(&["a"]) });
    let a_b = seq_def("a", &[], &["q"], vec![g0("b", qvs(&["q"]))]);
    let b_a = seq_def("b", &[], &["q"], vec![g0("X", qvs(&["q"])), g0("a", qvs(&["q"]))]);
    let b_c = seq_def("b", &[], &["q"], vec![g0("c", qvs(&["q"]))]);
    let c_a = seq_def("c", &[], &["q"], vec![g0("a", qvs(&["q"]))]);
    let c_leaf = seq_def("c", &[], &["q"], vec![g0("Z", qvs(&["q"]))]);
    for sel in [vec!["a", "b"], vec!["a"], vec!["b"], vec![]] {
        v.push(Case { defs: vec![a_b.clone(), b_a.clone()], body: vec![ig(g0("a", fx(&[0]))), ig(g0("b", fx(&[1])))], sel: all(&sel) });
    }
    for sel in [vec!["a", "b", "c"], vec!["a", "c"], vec!["b", "c"], vec!["c"]] {
        v.push(Case { defs: vec![a_b.clone(), b_c.clone(), c_a.clone()], body: vec![ig(g0("a", fx(&[0])))], sel: all(&sel) });
        v.push(Case { defs: vec![c_leaf.clone(), a_b.clone(), b_c.clone()], body: vec![ig(g0("a", fx(&[0]))), ig(g0("c", fx(&[7])))], sel: all(&sel) });
    }
    // the same definition used twice on one path is not a cycle (diamond)
    let dia = seq_def("d", &[], &["q", "r"], vec![g0("c", qvs(&["q"])), g0("b", qvs(&["r"])), g0("c", qvs(&["r"]))]);
    v.push(Case { defs: vec![dia, b_c.clone(), c_leaf.clone()], body: vec![ig(g0("d", fx(&[0, 1]))), ig(g0("d", fx(&[1, 0])))], sel: all(&["d", "b", "c"]) });
    // arity and modifier misuse, at top level and nested; error order: parameter count before modifiers
    // before cycle before qubit count before non-fixed qubit
    let one = seq_def("a", &["x"], &["q"], vec![gp("RZ", vec![var("x")], qvs(&["q"]))]);
    let bad_nested = seq_def("b", &[], &["q"], vec![g0("a", qvs(&["q"]))]);
    let mod_nested = seq_def("b", &[], &["q"], vec![gate("a", vec![num(1)], qvs(&["q"]), vec![GateModifier::Dagger])]);
    let two_q = seq_def("b", &[], &["q"], vec![gp("a", vec![num(1)], qvs(&["q", "q"]))]);
    let ph = Qubit::Placeholder(QubitPlaceholder::default());
    for body in [
        vec![ig(g0("a", fx(&[0])))],
        vec![ig(gp("a", vec![num(1), num(2)], fx(&[0])))],
        vec![ig(gp("a", vec![num(1)], fx(&[0, 1])))],
        vec![ig(gate("a", vec![num(1)], fx(&[0]), vec![GateModifier::Controlled, GateModifier::Dagger]))],
        vec![ig(gate("a", vec![], fx(&[0, 1]), vec![GateModifier::Forked]))],
        vec![ig(gate("a", vec![num(1)], vec![qv("q")], vec![GateModifier::Dagger]))],
        vec![ig(gp("a", vec![num(1)], vec![qv("q")]))],
        vec![ig(gp("a", vec![num(1)], vec![ph.clone()]))],
        vec![ig(gp("a", vec![num(1)], vec![Qubit::Fixed(0), ph.clone()]))],
        vec![ig(g0("H", fx(&[0]))), ig(g0("b", fx(&[0])))],
        vec![ig(gp("a", vec![num(1)], fx(&[0]))), Item::Other(0), ig(g0("b", vec![qv("z")]))],
    ] {
        for nested in [bad_nested.clone(), mod_nested.clone(), two_q.clone()] {
            v.push(Case { defs: vec![one.clone(), nested], body: body.clone(), sel: all(&["a", "b"]) });
        }
        v.push(Case { defs: vec![one.clone(), bad_nested.clone()], body: body.clone(), sel: all(&["b"]) });
    }
    // a non-sequence definition with a sequence's name pattern; undefined names; a definition named like a standard gate
    v.push(Case {
        defs: vec![other_def("a", &[]), seq_def("H", &[], &["q"], vec![g0("a", qvs(&["q"])), g0("X", qvs(&["q"]))])],
        body: vec![ig(g0("a", fx(&[0]))), ig(g0("H", fx(&[1]))), ig(g0("X", fx(&[2])))],
        sel: all(&["a", "H", "X"]),
    });
    // duplicate formals (last binding wins), free variables, parameter named like a qubit variable
    v.push(Case {
        defs: vec![seq_def(
            "a",
            &["x", "x"],
            &["q", "q"],
            vec![gp("RZ", vec![var("x") + var("y"), -var("q")], qvs(&["q"])), g0("CNOT", qvs(&["q", "q"]))],
        )],
        body: vec![ig(gp("a", vec![num(1), num(2)], fx(&[5, 6])))],
        sel: all(&["a"]),
    });
    // substitution is simultaneous: the argument mentions the other formal
    v.push(Case {
        defs: vec![
            seq_def("a", &["x", "y"], &["q", "r"], vec![gp("b", vec![var("y"), var("x")], qvs(&["r", "q"]))]),
            seq_def("b", &["x", "y"], &["q", "r"], vec![gp("RZ", vec![var("x") * var("y")], qvs(&["q"])), gp("RX", vec![var("y")], qvs(&["r"]))]),
        ],
        body: vec![ig(gp("a", vec![var("y"), var("x")], fx(&[0, 1])))],
        sel: all(&["a", "b"]),
    });
    // defensive error paths through the unchecked constructor
    v.push(Case { defs: vec![unchecked(seq_def("a", &[], &["q"], vec![g0("H", fx(&[0]))]))], body: vec![ig(g0("a", fx(&[0])))], sel: all(&["a"]) });
    v.push(Case { defs: vec![unchecked(seq_def("a", &[], &["q"], vec![g0("H", qvs(&["r"]))]))], body: vec![ig(g0("a", fx(&[0])))], sel: all(&["a"]) });
    v.push(Case { defs: vec![unchecked(seq_def("a", &[], &[], vec![g0("H", qvs(&["r"]))]))], body: vec![ig(g0("a", vec![]))], sel: all(&["a"]) });
    v.push(Case { defs: vec![unchecked(seq_def("a", &[], &[], vec![]))], body: vec![ig(g0("a", vec![])), ig(g0("a", fx(&[1])))], sel: all(&["a"]) });
    v
}

// ------------------------------------------------------------------ stream 2: exhaustive small alphabet

/// element `k` (0..6) of a definition with `np` parameters (named `x`) and `nq` qubit variables (`q`, `r`)
fn small_element(k: usize, nq: usize) -> Gate {
    let last = if nq == 2 { "r" } else { "q" };
    match k {
        0 => g0("H", qvs(&["q"])),
        1 => gp("RZ", vec![var("x") + num(1)], qvs(&[last])),
        2 => gp("a", vec![var("x")], qvs(&["q"])),
        3 => g0("a", qvs(&[last])),
        4 => g0("b", qvs(&["q"])),
        _ => gp("b", vec![num(2)], qvs(&["q", last])),
    }
}
pub const SMALL_ELEMENTS: usize = 6;

/// all definitions of `name` in the small alphabet: absent, non-sequence, or a sequence with 0/1 parameters,
/// 1/2 qubit variables and a body of at most `max_len` elements
fn small_defs(name: &str, max_len: usize) -> Vec<Option<DefDesc>> {
    let mut out = vec![None, Some(other_def(name, &[]))];
    for np in 0..2usize {
        for nq in 1..3usize {
            let params: &[&str] = if np == 1 { &["x"] } else { &[] };
            let qvars: &[&str] = if nq == 2 { &["q", "r"] } else { &["q"] };
            let mut bodies: Vec<Vec<Gate>> = vec![vec![]];
            let mut frontier: Vec<Vec<Gate>> = vec![vec![]];
            for _ in 0..max_len {
                let mut next = vec![];
                for b in &frontier {
                    for k in 0..SMALL_ELEMENTS {
                        let mut nb = b.clone();
                        nb.push(small_element(k, nq));
                        next.push(nb);
                    }
                }
                bodies.extend(next.iter().cloned());
                frontier = next;
            }
            for b in bodies {
                out.push(Some(seq_def(name, params, qvars, b)));
            }
        }
    }
    out
}

/// the invocation alphabet of the exhaustive stream
fn small_invocations() -> Vec<Gate> {
    vec![
        g0("a", fx(&[0])),
        gp("a", vec![num(3)], fx(&[0])),
        g0("b", fx(&[1])),
        gp("b", vec![var("y")], fx(&[0, 1])),
        gp("a", vec![num(1)], fx(&[0, 1])),
        gate("b", vec![], fx(&[1]), vec![GateModifier::Dagger]),
        gp("a", vec![num(3)], vec![qv("q")]),
        g0("b", fx(&[2, 2])),
    ]
}

/// Every program `MEASURE; <invocation>; H 0` over every pair of small definitions of `a`, `b` (both orders
/// of definition are reached because `b` may mention `a` and vice versa) and every filter over {a, b}.
pub fn exhaustive(max_len: usize, f: &mut impl FnMut(Case)) {
    let das = small_defs("a", max_len);
    let dbs = small_defs("b", max_len);
    let invs = small_invocations();
    let sels: [&[&str]; 4] = [&["a", "b"], &["a"], &["b"], &[]];
    for da in &das {
        for db in &dbs {
            let defs: Vec<DefDesc> = da.iter().chain(db.iter()).cloned().collect();
            for inv in &invs {
                for sel in sels {
                    f(Case {
                        defs: defs.clone(),
                        body: vec![Item::Other(1), ig(inv.clone()), ig(g0("H", fx(&[0])))],
                        sel: strs(sel),
                    });
                }
            }
        }
    }
}

// ------------------------------------------------------------------ stream 3: seeded random

const POOL: [&str; 6] = ["a", "b", "c", "d", "e", "A"];
const PLAIN: [&str; 4] = ["H", "X", "RZ", "CNOT"];
const PVARS: [&str; 3] = ["x", "y", "z"];
const QVARS: [&str; 3] = ["q", "r", "s"];

fn random_param(rng: &mut Rng, depth: usize) -> Expression {
    let alphabet = expr::Alphabet {
        leaves: vec![var("x"), var("y"), var("z"), num(1), num(2), Expression::PiConstant(), expr::addr("theta", 0)],
        functions: vec![quil_rs::expression::ExpressionFunction::Cosine],
        prefix: vec![PrefixOperator::Minus],
        infix: vec![InfixOperator::Plus, InfixOperator::Star],
    };
    expr::random_expr(rng, &alphabet, depth)
}

fn random_mods(rng: &mut Rng, p: u64) -> Vec<GateModifier> {
    if rng.chance(p, 100) {
        let n = 1 + rng.below(2);
        (0..n).map(|_| *rng.pick(&[GateModifier::Controlled, GateModifier::Dagger, GateModifier::Forked])).collect()
    } else {
        vec![]
    }
}

/// A random case: `ndefs` definitions over the name pool (sequence bodies mention each other, biased
/// towards later names so that deep acyclic nesting is common but cycles still occur), a body of gate
/// invocations with mostly matching arity, undefined gates and opaque instructions, and a random filter.
pub fn random_case(rng: &mut Rng, max_defs: u64, max_body: u64) -> Case {
    let ndefs = 1 + rng.below(max_defs) as usize;
    // a random order of a random subset of the pool
    let mut names: Vec<&str> = POOL.to_vec();
    for i in (1..names.len()).rev() {
        names.swap(i, rng.below(i as u64 + 1) as usize);
    }
    names.truncate(ndefs);
    // signatures first, so that invocations can match them
    let sigs: Vec<(Vec<String>, Vec<String>, bool)> = names
        .iter()
        .map(|_| {
            let np = rng.below(3) as usize;
            let mut params: Vec<String> = PVARS[..np].iter().map(|s| s.to_string()).collect();
            if np == 2 && rng.chance(1, 12) {
                params[1] = params[0].clone();
            }
            let nq = if rng.chance(1, 10) { 3 } else { 1 + rng.below(2) as usize };
            let mut qvars: Vec<String> = QVARS[..nq].iter().map(|s| s.to_string()).collect();
            if nq >= 2 && rng.chance(1, 12) {
                qvars[1] = qvars[0].clone();
            }
            (params, qvars, rng.chance(1, 8))
        })
        .collect();
    let arity = |name: &str| names.iter().position(|n| *n == name).map(|i| (sigs[i].0.len(), sigs[i].1.len()));
    let mut defs = vec![];
    for (i, name) in names.iter().enumerate() {
        let (params, qvars, is_other) = &sigs[i];
        if *is_other {
            defs.push(DefDesc { name: name.to_string(), params: params.clone(), spec: SpecDesc::Other });
            continue;
        }
        let len = rng.below(5) as usize;
        let mut gates = vec![];
        for _ in 0..len {
            let callee: &str = if rng.chance(55, 100) {
                if i + 1 < names.len() && rng.chance(70, 100) {
                    names[i + 1 + rng.below((names.len() - i - 1) as u64) as usize]
                } else {
                    *rng.pick(&POOL)
                }
            } else {
                *rng.pick(&PLAIN)
            };
            let (np, nq) = match arity(callee) {
                Some((np, nq)) if rng.chance(92, 100) => (np, nq),
                _ => (rng.below(3) as usize, 1 + rng.below(2) as usize),
            };
            let ps = (0..np).map(|_| random_param(rng, 2)).collect();
            let qs = (0..nq).map(|_| qv(rng.pick(qvars.as_slice()).as_str())).collect();
            gates.push(gate(callee, ps, qs, random_mods(rng, 6)));
        }
        defs.push(DefDesc {
            name: name.to_string(),
            params: params.clone(),
            spec: SpecDesc::Seq { qvars: qvars.clone(), gates, unchecked: false },
        });
    }
    let blen = rng.below(max_body + 1) as usize;
    let ph = QubitPlaceholder::default();
    let mut body = vec![];
    for _ in 0..blen {
        let r = rng.below(100);
        if r < 60 {
            let callee: &str = if rng.chance(85, 100) { *rng.pick(&names) } else { *rng.pick(&POOL) };
            let (np, nq) = match arity(callee) {
                Some((np, nq)) if rng.chance(93, 100) => (np, nq),
                _ => (rng.below(3) as usize, 1 + rng.below(3) as usize),
            };
            let ps = (0..np).map(|_| random_param(rng, 2)).collect();
            let qs = (0..nq)
                .map(|_| {
                    if rng.chance(3, 100) {
                        if rng.chance(1, 2) {
                            qv("q")
                        } else {
                            Qubit::Placeholder(ph.clone())
                        }
                    } else {
                        Qubit::Fixed(rng.below(4))
                    }
                })
                .collect();
            body.push(ig(gate(callee, ps, qs, random_mods(rng, 4))));
        } else if r < 80 {
            let nq = 1 + rng.below(2);
            let np = rng.below(2);
            body.push(ig(gate(
                *rng.pick(&PLAIN),
                (0..np).map(|_| random_param(rng, 1)).collect(),
                (0..nq).map(|_| Qubit::Fixed(rng.below(4))).collect(),
                random_mods(rng, 10),
            )));
        } else {
            body.push(Item::Other(rng.below(other_table().len() as u64) as usize));
        }
    }
    let sel: Vec<String> = match rng.below(10) {
        0..=3 => POOL.iter().map(|s| s.to_string()).collect(),
        4 => vec![],
        _ => POOL.iter().filter(|_| rng.chance(1, 2)).map(|s| s.to_string()).collect(),
    };
    Case { defs, body, sel }
}

/// A random case whose sequence definitions bypass `try_new` and may contain fixed / unbound element
/// qubits or no qubit variables at all (the defensive error paths).
pub fn random_unchecked_case(rng: &mut Rng) -> Case {
    let mut c = random_case(rng, 3, 4);
    for d in &mut c.defs {
        if let SpecDesc::Seq { qvars, gates, unchecked } = &mut d.spec {
            *unchecked = true;
            if rng.chance(1, 6) {
                qvars.clear();
            }
            for g in gates.iter_mut() {
                for q in g.qubits.iter_mut() {
                    if rng.chance(1, 5) {
                        *q = if rng.chance(1, 2) { Qubit::Fixed(rng.below(3)) } else { qv("w") };
                    }
                }
                if rng.chance(1, 10) {
                    g.qubits.clear();
                }
            }
        }
    }
    // make sure invocations of zero-qubit definitions occur too
    if rng.chance(1, 3) {
        if let Some(d) = c.defs.first() {
            c.body.insert(0, ig(gate(&d.name, vec![], vec![], vec![])));
        }
    }
    c
}

// ------------------------------------------------------------------ stream 5: large definition graphs

/// 8–40 sequence definitions `d0 … dN` (plus a few non-sequence ones) whose bodies invoke each other (mostly
/// towards higher indices, occasionally anywhere, so long chains, wide fans and a few cycles occur), a sparse
/// or dense random filter, and a body of 3–12 invocations. Exercises the reachability (one `DfsSpace` reused
/// over N² queries, `HashMap` iteration order) and deep nesting.
pub fn random_big_case(rng: &mut Rng) -> Case {
    let n = 8 + rng.below(33) as usize;
    // one case in three is a long chain d0 → d1 → … (plus the random edges), so that reachability over many hops
    // and nesting as deep as the chain occur
    let chain = rng.chance(1, 3);
    let names: Vec<String> = (0..n).map(|i| format!("d{i}")).collect();
    let arity: Vec<(usize, usize)> = (0..n).map(|_| (rng.below(2) as usize, 1 + rng.below(2) as usize)).collect();
    let mut defs = vec![];
    for i in 0..n {
        let (np, nq) = arity[i];
        let params: Vec<String> = PVARS[..np].iter().map(|s| s.to_string()).collect();
        let qvars: Vec<String> = QVARS[..nq].iter().map(|s| s.to_string()).collect();
        if rng.chance(1, 12) {
            defs.push(DefDesc { name: names[i].clone(), params, spec: SpecDesc::Other });
            continue;
        }
        let len = rng.below(4) as usize;
        let mut gates = vec![];
        if chain && i + 1 < n {
            let (cp, cq) = arity[i + 1];
            let ps = (0..cp).map(|_| random_param(rng, 1)).collect();
            let qs = (0..cq).map(|_| qv(rng.pick(qvars.as_slice()).as_str())).collect();
            gates.push(gate(&names[i + 1], ps, qs, vec![]));
        }
        for _ in 0..len {
            if rng.chance(3, 4) {
                let j = if i + 1 < n && rng.chance(93, 100) {
                    i + 1 + rng.below((n - i - 1) as u64) as usize
                } else {
                    rng.below(n as u64) as usize
                };
                let (cp, cq) = arity[j];
                let ps = (0..cp).map(|_| random_param(rng, 1)).collect();
                let qs = (0..cq).map(|_| qv(rng.pick(qvars.as_slice()).as_str())).collect();
                gates.push(gate(&names[j], ps, qs, vec![]));
            } else {
                gates.push(gate("H", vec![], vec![qv(&qvars[0])], random_mods(rng, 5)));
            }
        }
        defs.push(DefDesc { name: names[i].clone(), params, spec: SpecDesc::Seq { qvars, gates, unchecked: false } });
    }
    let blen = 3 + rng.below(10) as usize;
    let mut body = vec![];
    for _ in 0..blen {
        if rng.chance(4, 5) {
            let j = rng.below(n as u64) as usize;
            let (cp, cq) = arity[j];
            let ps = (0..cp).map(|_| random_param(rng, 1)).collect();
            let qs = (0..cq).map(|_| Qubit::Fixed(rng.below(4))).collect();
            body.push(ig(gate(&names[j], ps, qs, vec![])));
        } else {
            body.push(Item::Other(rng.below(other_table().len() as u64) as usize));
        }
    }
    let p = match rng.below(5) {
        0 => 100,
        1 => 0,
        2 => 90,
        3 => 50,
        _ => 15,
    };
    let sel = names.iter().filter(|_| rng.chance(p, 100)).cloned().collect();
    Case { defs, body, sel }
}

/// A case that always expands successfully: 2–4 acyclic, arity-correct definitions (each may invoke later ones),
/// and a body of `lo..=hi` instructions whose invocations all have the right arity, fixed qubits and no
/// modifiers. Used for long bodies, where a single misuse would turn the whole case into an error.
pub fn random_valid_case(rng: &mut Rng, lo: u64, hi: u64) -> Case {
    let n = 2 + rng.below(3) as usize;
    let names: Vec<&str> = POOL[..n].to_vec();
    let arity: Vec<(usize, usize)> = (0..n).map(|_| (rng.below(3) as usize, 1 + rng.below(2) as usize)).collect();
    let mut defs = vec![];
    for i in 0..n {
        let (np, nq) = arity[i];
        let params: Vec<String> = PVARS[..np].iter().map(|s| s.to_string()).collect();
        let qvars: Vec<String> = QVARS[..nq].iter().map(|s| s.to_string()).collect();
        let len = rng.below(4) as usize;
        let mut gates = vec![];
        for _ in 0..len {
            if i + 1 < n && rng.chance(1, 2) {
                let j = i + 1 + rng.below((n - i - 1) as u64) as usize;
                let (cp, cq) = arity[j];
                let ps = (0..cp).map(|_| random_param(rng, 1)).collect();
                let qs = (0..cq).map(|_| qv(rng.pick(qvars.as_slice()).as_str())).collect();
                gates.push(gate(names[j], ps, qs, vec![]));
            } else {
                gates.push(gate("RZ", vec![random_param(rng, 1)], vec![qv(&qvars[0])], random_mods(rng, 10)));
            }
        }
        defs.push(DefDesc { name: names[i].to_string(), params, spec: SpecDesc::Seq { qvars, gates, unchecked: false } });
    }
    let blen = lo + rng.below(hi - lo + 1);
    let mut body = vec![];
    for _ in 0..blen {
        let r = rng.below(4);
        if r < 2 {
            let j = rng.below(n as u64) as usize;
            let (cp, cq) = arity[j];
            let ps = (0..cp).map(|_| random_param(rng, 1)).collect();
            let qs = (0..cq).map(|_| Qubit::Fixed(rng.below(4))).collect();
            body.push(ig(gate(names[j], ps, qs, vec![])));
        } else if r == 2 {
            body.push(ig(gate("H", vec![], vec![Qubit::Fixed(rng.below(4))], random_mods(rng, 10))));
        } else {
            body.push(Item::Other(rng.below(other_table().len() as u64) as usize));
        }
    }
    let sel = match rng.below(4) {
        0 => names.iter().filter(|_| rng.chance(1, 2)).map(|s| s.to_string()).collect(),
        _ => names.iter().map(|s| s.to_string()).collect(),
    };
    Case { defs, body, sel }
}

/// The shared stream schedule of C20 and C21 (`base` separates their random streams).
pub fn run_streams(ctx: &mut crate::Ctx, base: u64) {
    // (1) corpus
    for c in corpus() {
        emit_case(ctx, &c);
    }
    // (2) exhaustive small alphabet: definitions of a, b with bodies of ≤ 1 (quick) / ≤ 2 (thorough) elements
    let mut cases = vec![];
    exhaustive(if ctx.quick() { 1 } else { 2 }, &mut |c| cases.push(c));
    for c in &cases {
        emit_case(ctx, c);
    }
    drop(cases);
    // (3) seeded random, larger
    let mut rng = ctx.rng(base);
    let n = if ctx.quick() { 20_000 } else { 300_000 };
    for i in 0..n {
        let c = if i % 4 == 3 { random_case(&mut rng, 5, 10) } else { random_case(&mut rng, 4, 6) };
        emit_case(ctx, &c);
    }
    // (4) definitions that bypass try_new (defensive error paths)
    let mut rng = ctx.rng(base + 1);
    let n = if ctx.quick() { 3_000 } else { 40_000 };
    for _ in 0..n {
        let c = random_unchecked_case(&mut rng);
        emit_case(ctx, &c);
    }
    // (5) large definition graphs (8–40 definitions)
    let mut rng = ctx.rng(base + 2);
    let n = if ctx.quick() { 2_000 } else { 20_000 };
    for _ in 0..n {
        let c = random_big_case(&mut rng);
        emit_case(ctx, &c);
    }
    // (6) long bodies (40–260 instructions: source-map index arithmetic well beyond small sizes)
    let mut rng = ctx.rng(base + 3);
    let n = if ctx.quick() { 300 } else { 4_000 };
    for i in 0..n {
        if i % 3 == 0 {
            // mostly ends in an error somewhere in the long body: the error position / kind is the observation
            let mut c = random_case(&mut rng, 4, 110);
            while c.body.len() < 40 {
                let more = random_case(&mut rng, 1, 60);
                c.body.extend(more.body);
            }
            emit_case(ctx, &c);
        } else {
            // always succeeds: long source maps (70–260 entries, > 64 and > 128 sources)
            let c = random_valid_case(&mut rng, 70, if i % 3 == 1 { 140 } else { 260 });
            emit_case(ctx, &c);
        }
    }
}
